package core

import (
	"bufio"
	"encoding/json"
	"fmt"
	"os"
	"os/exec"
	"path/filepath"
	"regexp"
	"strconv"
	"strings"
	"time"
)

const tlaCP = "/opt/veriftools/tla/tla2tools.jar:/opt/veriftools/tla/CommunityModules-deps.jar"

type TLCOpts struct {
	Module   string // module file (without .tla) to run, lives in spec/
	Cfg      string // config file name in spec/
	Workers  int
	Timeout  time.Duration
	Env      map[string]string // extra env (TRACE=..., OUT=...)
	Simulate string            // e.g. "num=500" => -simulate num=500
	Depth    int
	Coverage bool
	HeapGB   int
	DFS      bool // StateDeque queue (depth-first) for branching trace specs
	NoDeadlk bool
	Label    string
}

type TLCResult struct {
	Generated, Distinct int64
	Depth               int
	Exit                int
	Out                 string
	Violated            string // name of violated invariant/property/postcondition ("" if none)
	Deadlock            bool
	Cov                 map[string][2]int64 // action -> distinct, generated
	Wall                float64
	OutFile             string // file the spec appended behaviours to (IOEnv.OUT)
}

var (
	reStates = regexp.MustCompile(`(\d+) states generated, (\d+) distinct states found`)
	reDepth  = regexp.MustCompile(`The depth of the complete state graph search is (\d+)`)
	reCov    = regexp.MustCompile(`(?m)^<(\w+) line \d+, col \d+ to line \d+, col \d+ of module (\w+)>: (\d+):(\d+)`)
	reInv    = regexp.MustCompile(`Invariant (\S+) is violated`)
	reAct    = regexp.MustCompile(`Action property (\S+) is violated`)
	rePost   = regexp.MustCompile(`Postcondition (\S+)? ?.*is false|The postcondition .* is false`)
	reTemp   = regexp.MustCompile(`Temporal properties were violated|Temporal property \S+ was violated`)
	reSimGen = regexp.MustCompile(`(\d+) states checked`)
)

// TLC runs TLC on a scratch copy of spec/ and parses its output.
func (c *Ctx) TLC(o TLCOpts) *TLCResult {
	scratch, err := os.MkdirTemp(c.Work, "tlc-")
	if err != nil {
		c.Infra("tlc scratch: %v", err)
	}
	specDir := filepath.Join(c.Root, "spec")
	ents, _ := os.ReadDir(specDir)
	for _, e := range ents {
		if e.IsDir() {
			continue
		}
		b, err := os.ReadFile(filepath.Join(specDir, e.Name()))
		if err == nil {
			os.WriteFile(filepath.Join(scratch, e.Name()), b, 0o644)
		}
	}
	if o.Workers == 0 {
		o.Workers = 6
	}
	if o.Timeout == 0 {
		o.Timeout = 10 * time.Minute
	}
	if o.HeapGB == 0 {
		o.HeapGB = 6
	}
	outFile := filepath.Join(scratch, "behaviours.out")
	args := []string{"-XX:+UseParallelGC", fmt.Sprintf("-Xmx%dg", o.HeapGB), "-Xss64m"}
	if o.DFS {
		args = append(args, "-Dtlc2.tool.queue.IStateQueue=StateDeque")
	}
	args = append(args, "-cp", tlaCP, "tlc2.TLC", "-metadir", filepath.Join(scratch, "meta"),
		"-workers", strconv.Itoa(o.Workers), "-config", o.Cfg, "-noGenerateSpecTE")
	if o.Simulate != "" {
		args = append(args, "-simulate", o.Simulate, "-seed", strconv.FormatInt(c.Seed, 10))
	}
	if o.Depth > 0 {
		args = append(args, "-depth", strconv.Itoa(o.Depth))
	}
	if o.Coverage {
		args = append(args, "-coverage", "1")
	}
	if o.NoDeadlk {
		args = append(args, "-deadlock")
	}
	args = append(args, o.Module+".tla")
	cmd := exec.Command("java", args...)
	cmd.Dir = scratch
	cmd.Env = append(os.Environ(), "OUT="+outFile)
	for k, v := range o.Env {
		cmd.Env = append(cmd.Env, k+"="+v)
	}
	t0 := time.Now()
	var sb strings.Builder
	cmd.Stdout, cmd.Stderr = &sb, &sb
	if err := cmd.Start(); err != nil {
		c.Infra("start tlc: %v", err)
	}
	done := make(chan error, 1)
	go func() { done <- cmd.Wait() }()
	r := &TLCResult{OutFile: outFile, Cov: map[string][2]int64{}}
	select {
	case err := <-done:
		if err != nil {
			if ee, ok := err.(*exec.ExitError); ok {
				r.Exit = ee.ExitCode()
			} else {
				r.Exit = -1
			}
		}
	case <-time.After(o.Timeout):
		cmd.Process.Kill()
		<-done
		c.Infra("TLC timeout after %v on %s/%s\n%s", o.Timeout, o.Module, o.Cfg, tail(sb.String(), 2000))
	}
	r.Wall = time.Since(t0).Seconds()
	r.Out = sb.String()
	if ms := reStates.FindAllStringSubmatch(r.Out, -1); len(ms) > 0 {
		m := ms[len(ms)-1]
		r.Generated, _ = strconv.ParseInt(m[1], 10, 64)
		r.Distinct, _ = strconv.ParseInt(m[2], 10, 64)
	}
	if m := reDepth.FindStringSubmatch(r.Out); m != nil {
		r.Depth, _ = strconv.Atoi(m[1])
	}
	for _, m := range reCov.FindAllStringSubmatch(r.Out, -1) {
		d, _ := strconv.ParseInt(m[3], 10, 64)
		g, _ := strconv.ParseInt(m[4], 10, 64)
		old := r.Cov[m[1]]
		r.Cov[m[1]] = [2]int64{old[0] + d, old[1] + g}
	}
	switch {
	case reInv.MatchString(r.Out):
		r.Violated = reInv.FindStringSubmatch(r.Out)[1]
	case reAct.MatchString(r.Out):
		r.Violated = reAct.FindStringSubmatch(r.Out)[1]
	case strings.Contains(r.Out, "ostcondition") && strings.Contains(r.Out, "is false"):
		r.Violated = "POSTCONDITION"
	case reTemp.MatchString(r.Out):
		r.Violated = "TEMPORAL"
	}
	if strings.Contains(r.Out, "Deadlock reached") {
		r.Deadlock = true
	}
	if c.Keep {
		os.WriteFile(filepath.Join(scratch, "tlc.log"), []byte(r.Out), 0o644)
	} else {
		os.RemoveAll(filepath.Join(scratch, "meta"))
	}
	return r
}

// MustPass requires a clean exhaustive run; anything else that is not a
// property violation is infrastructure failure.
func (c *Ctx) MustPass(r *TLCResult, what string) {
	if r.Exit != 0 || r.Violated != "" || r.Deadlock {
		c.Infra("TLC %s: exit=%d violated=%q deadlock=%v\n%s", what, r.Exit, r.Violated, r.Deadlock, tail(r.Out, 3000))
	}
}

// CheckCoverage fails (infra) when a listed action was never taken.
func (c *Ctx) CheckCoverage(r *TLCResult, actions ...string) {
	for _, a := range actions {
		if v, ok := r.Cov[a]; !ok || v[1] == 0 {
			c.Infra("vacuity: action %s never taken in TLC run (coverage %v)", a, r.Cov)
		}
	}
}

func tail(s string, n int) string {
	if len(s) <= n {
		return s
	}
	return s[len(s)-n:]
}
func Tail(s string, n int) string { return tail(s, n) }

// ReadBehaviours parses the lines written by CSVWrite("%1$s", <<ToJson(x)>>, IOEnv.OUT):
// each line is the JSON text itself (ToJson returns a TLA+ string whose value is
// written raw by CSVWrite's %s).
func ReadBehaviours(path string, fn func(raw []byte) error) (int, error) {
	f, err := os.Open(path)
	if err != nil {
		if os.IsNotExist(err) {
			return 0, nil
		}
		return 0, err
	}
	defer f.Close()
	sc := bufio.NewScanner(f)
	sc.Buffer(make([]byte, 1<<22), 1<<26)
	n := 0
	for sc.Scan() {
		line := sc.Bytes()
		if len(line) == 0 {
			continue
		}
		raw := line
		if line[0] == '"' { // quoted TLA+ string literal
			s, err := strconv.Unquote(string(line))
			if err != nil {
				return n, fmt.Errorf("unquote line %d: %v", n+1, err)
			}
			raw = []byte(s)
		}
		if !json.Valid(raw) {
			return n, fmt.Errorf("line %d not JSON: %.200s", n+1, raw)
		}
		n++
		cp := make([]byte, len(raw))
		copy(cp, raw)
		if err := fn(cp); err != nil {
			return n, err
		}
	}
	return n, sc.Err()
}

// ValidateTrace runs a trace spec on an ndjson trace.  It returns accepted,
// and on rejection the matched prefix length reported by TLC.
func (c *Ctx) ValidateTrace(module, cfg, tracePath string, dfs bool) (bool, *TLCResult) {
	r := c.TLC(TLCOpts{Module: module, Cfg: cfg, Workers: 1, Timeout: 10 * time.Minute,
		Env: map[string]string{"TRACE": tracePath}, DFS: dfs, HeapGB: 4})
	if r.Exit == 0 && r.Violated == "" {
		return true, r
	}
	if r.Violated == "" {
		c.Infra("trace validation %s crashed: exit=%d\n%s", module, r.Exit, tail(r.Out, 3000))
	}
	return false, r
}
