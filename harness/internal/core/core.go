// Package core is the common runner: context, exit-code discipline, evidence,
// known findings, builds of /repo, and small helpers shared by every property.
package core

import (
	"bufio"
	"crypto/sha256"
	"encoding/hex"
	"encoding/json"
	"fmt"
	"os"
	"os/exec"
	"path/filepath"
	"sort"
	"strconv"
	"strings"
	"sync"
	"time"
)

// Exit codes: 0 property held on everything explored; 1 violation reproduced
// on the real code; 2 infrastructure problem (never a verdict).
const (
	ExitOK    = 0
	ExitViol  = 1
	ExitInfra = 2
)

type Finding struct {
	Status    string            `json:"status"` // finding | fixed
	Property  string            `json:"property"`
	Assertion string            `json:"assertion,omitempty"`
	Trigger   map[string]string `json:"trigger,omitempty"`
	Commit    string            `json:"commit,omitempty"`
	What      string            `json:"what"`
}

type Violation struct {
	Assertion string                 `json:"assertion"`
	Fields    map[string]string      `json:"fields"` // scenario fields matched against finding triggers
	Detail    map[string]interface{} `json:"detail"`
}

type Ctx struct {
	ID, Tier string
	Seed     int64
	Root     string
	Repo     string
	Work     string
	Bin      string
	Start    time.Time
	Level    string

	mu          sync.Mutex
	Coverage    map[string]interface{}
	Assumptions []string
	violations  []Violation
	knownHits   map[string]int
	Findings    []Finding
	samples     []interface{}
	Keep        bool
}

func Getenv(k, d string) string {
	if v := os.Getenv(k); v != "" {
		return v
	}
	return d
}

func New(id, tier string) *Ctx {
	seed := int64(1)
	if s := os.Getenv("VERIF_SEED"); s != "" {
		if v, err := strconv.ParseInt(s, 10, 64); err == nil {
			seed = v
		}
	}
	root := Getenv("VERIF_ROOT", "/verif")
	c := &Ctx{ID: id, Tier: tier, Seed: seed, Root: root, Repo: Getenv("VERIF_REPO", "/repo"),
		Start: time.Now(), Coverage: map[string]interface{}{}, knownHits: map[string]int{}}
	c.Work = filepath.Join(root, ".work", fmt.Sprintf("%s.%d", id, os.Getpid()))
	c.Bin = filepath.Join(c.Work, "bin")
	os.RemoveAll(c.Work)
	if err := os.MkdirAll(c.Bin, 0o755); err != nil {
		c.Infra("mkdir work: %v", err)
	}
	c.Keep = os.Getenv("VERIF_KEEP") != ""
	c.loadFindings()
	return c
}

func (c *Ctx) Quick() bool { return c.Tier != "thorough" }

func (c *Ctx) loadFindings() {
	f, err := os.Open(filepath.Join(c.Root, "known_findings.jsonl"))
	if err != nil {
		return
	}
	defer f.Close()
	sc := bufio.NewScanner(f)
	sc.Buffer(make([]byte, 1<<20), 1<<20)
	for sc.Scan() {
		line := strings.TrimSpace(sc.Text())
		if line == "" || strings.HasPrefix(line, "#") {
			continue
		}
		var fd Finding
		if json.Unmarshal([]byte(line), &fd) == nil && fd.Property == c.ID {
			c.Findings = append(c.Findings, fd)
		}
	}
}

func (c *Ctx) Logf(format string, a ...interface{}) {
	fmt.Fprintf(os.Stderr, "[%s %6.1fs] %s\n", c.ID, time.Since(c.Start).Seconds(), fmt.Sprintf(format, a...))
}

// Infra aborts with exit 2: the run says nothing about the property.
func (c *Ctx) Infra(format string, a ...interface{}) {
	fmt.Fprintf(os.Stderr, "INFRA %s: %s\n", c.ID, fmt.Sprintf(format, a...))
	c.cleanup()
	os.Exit(ExitInfra)
}

func (c *Ctx) cleanup() {
	if !c.Keep {
		os.RemoveAll(c.Work)
	}
}

// Report records a violation reproduced on the real code.  If a listed
// finding (status "finding") has the same assertion and its trigger fields
// all match, it is counted as that known finding instead.
func (c *Ctx) Report(v Violation) {
	c.mu.Lock()
	defer c.mu.Unlock()
	for _, f := range c.Findings {
		if f.Status != "finding" || f.Assertion != v.Assertion {
			continue
		}
		ok := true
		for k, want := range f.Trigger {
			if v.Fields[k] != want {
				ok = false
				break
			}
		}
		if ok {
			c.knownHits[f.What]++
			return
		}
	}
	c.violations = append(c.violations, v)
}

func (c *Ctx) NViolations() int { c.mu.Lock(); defer c.mu.Unlock(); return len(c.violations) }

func (c *Ctx) Sample(s interface{}) {
	c.mu.Lock()
	defer c.mu.Unlock()
	if len(c.samples) < 6 {
		c.samples = append(c.samples, s)
	}
}

func (c *Ctx) Set(k string, v interface{}) { c.mu.Lock(); c.Coverage[k] = v; c.mu.Unlock() }
func (c *Ctx) AddInt(k string, d int64) {
	c.mu.Lock()
	var old int64
	switch v := c.Coverage[k].(type) {
	case int64:
		old = v
	case int:
		old = int64(v)
	}
	c.Coverage[k] = old + d
	c.mu.Unlock()
}
func (c *Ctx) Assume(s string) { c.mu.Lock(); c.Assumptions = append(c.Assumptions, s); c.mu.Unlock() }

// Finish writes evidence, prints verdict lines and exits.
func (c *Ctx) Finish() {
	c.mu.Lock()
	if _, ok := c.Coverage["samples"]; !ok {
		c.Coverage["samples"] = c.samples
	}
	known := []string{}
	for k := range c.knownHits {
		known = append(known, k)
	}
	sort.Strings(known)
	c.Coverage["known_finding_hits"] = c.knownHits
	ev := map[string]interface{}{
		"property_id": c.ID, "tier": c.Tier, "seed": c.Seed, "level": c.Level,
		"coverage": c.Coverage, "assumptions": c.Assumptions,
		"wall_s": float64(int(time.Since(c.Start).Seconds()*10)) / 10, "violations": len(c.violations),
	}
	viols := c.violations
	c.mu.Unlock()

	// VERIF_EVIDENCE: evidence of a run against another tree than /repo (seeded change) goes elsewhere
	evDir := Getenv("VERIF_EVIDENCE", filepath.Join(c.Root, "evidence"))
	os.MkdirAll(filepath.Join(evDir, "replay"), 0o755)
	b, _ := json.MarshalIndent(ev, "", " ")
	tmp := filepath.Join(evDir, c.ID+".json.tmp")
	if err := os.WriteFile(tmp, append(b, '\n'), 0o644); err != nil {
		c.Infra("write evidence: %v", err)
	}
	os.Rename(tmp, filepath.Join(evDir, c.ID+".json"))

	for _, k := range known {
		fmt.Printf("KNOWN-FINDING: property=%s %s\n", c.ID, k)
	}
	seen := map[string]bool{}
	for _, v := range viols {
		rb, _ := json.MarshalIndent(map[string]interface{}{"property": c.ID, "tier": c.Tier, "seed": c.Seed,
			"assertion": v.Assertion, "fields": v.Fields, "detail": v.Detail,
			"how_to_run": fmt.Sprintf("bin/check %s --replay <this file>", c.ID)}, "", " ")
		h := sha256.Sum256(rb)
		p := filepath.Join(evDir, "replay", c.ID+"-"+hex.EncodeToString(h[:5])+".json")
		os.WriteFile(p, rb, 0o644)
		if len(seen) < 20 && !seen[p] {
			fmt.Printf("VIOLATION property=%s replay=%s\n", c.ID, p)
			fmt.Fprintf(os.Stderr, "  assertion=%s fields=%v\n", v.Assertion, v.Fields)
		}
		seen[p] = true
	}
	c.cleanup()
	if len(viols) > 0 {
		os.Exit(ExitViol)
	}
	fmt.Fprintf(os.Stderr, "[%s] OK tier=%s seed=%d wall=%.1fs\n", c.ID, c.Tier, c.Seed, time.Since(c.Start).Seconds())
	os.Exit(ExitOK)
}

// ---- builds ---------------------------------------------------------------

func goEnv() []string {
	env := os.Environ()
	env = append(env, "GOFLAGS=-mod=mod", "GOPROXY=off", "GOSUMDB=off", "GOTOOLCHAIN=local")
	return env
}

// BuildLFS builds the git-lfs binary from /repo's working tree with hooks on.
func (c *Ctx) BuildLFS() string {
	out := filepath.Join(c.Bin, "git-lfs")
	cmd := exec.Command("go", "build", "-tags", "verif", "-o", out, ".")
	cmd.Dir = c.Repo
	cmd.Env = goEnv()
	if b, err := cmd.CombinedOutput(); err != nil {
		c.Infra("build git-lfs: %v\n%s", err, b)
	}
	return out
}

// BuildDriver builds the library driver (imports /repo packages via replace).
func (c *Ctx) BuildDriver() string {
	out := filepath.Join(c.Bin, "lfsdrv")
	args := []string{"build", "-tags", "verif", "-o", out}
	if c.Repo != "/repo" {
		// another tree than /repo (a scratch worktree carrying a seeded change): same module file,
		// the replace directive pointed at that tree
		mod, err := os.ReadFile(filepath.Join(c.Root, "harness", "go.mod"))
		if err != nil {
			c.Infra("read go.mod: %v", err)
		}
		alt := filepath.Join(c.Work, "alt.mod")
		os.WriteFile(alt, []byte(strings.Replace(string(mod), "=> /repo", "=> "+c.Repo, 1)), 0o644)
		if sum, err := os.ReadFile(filepath.Join(c.Root, "harness", "go.sum")); err == nil {
			os.WriteFile(filepath.Join(c.Work, "alt.sum"), sum, 0o644)
		}
		args = append(args, "-modfile="+alt)
	}
	cmd := exec.Command("go", append(args, "./cmd/lfsdrv")...)
	cmd.Dir = filepath.Join(c.Root, "harness")
	cmd.Env = goEnv()
	if b, err := cmd.CombinedOutput(); err != nil {
		c.Infra("build lfsdrv: %v\n%s", err, b)
	}
	return out
}

// ---- misc helpers ---------------------------------------------------------

func Sha(b []byte) string { h := sha256.Sum256(b); return hex.EncodeToString(h[:]) }

// Run runs a command with a timeout and returns stdout, stderr, exit code.
func Run(dir string, env []string, stdin []byte, timeout time.Duration, name string, args ...string) (string, string, int) {
	cmd := exec.Command(name, args...)
	cmd.Dir = dir
	if env != nil {
		cmd.Env = env
	}
	var so, se strings.Builder
	cmd.Stdout, cmd.Stderr = &so, &se
	if stdin != nil {
		cmd.Stdin = strings.NewReader(string(stdin))
	}
	if err := cmd.Start(); err != nil {
		return "", err.Error(), -1
	}
	done := make(chan error, 1)
	go func() { done <- cmd.Wait() }()
	select {
	case err := <-done:
		if err != nil {
			if ee, ok := err.(*exec.ExitError); ok {
				return so.String(), se.String(), ee.ExitCode()
			}
			return so.String(), se.String() + err.Error(), -1
		}
		return so.String(), se.String(), 0
	case <-time.After(timeout):
		cmd.Process.Kill()
		<-done
		return so.String(), se.String(), -2 // timeout
	}
}

// Parallel runs f(i) for i in [0,n) on w workers.
func Parallel(n, w int, f func(i int)) {
	if w < 1 {
		w = 1
	}
	var wg sync.WaitGroup
	ch := make(chan int)
	for k := 0; k < w; k++ {
		wg.Add(1)
		go func() {
			defer wg.Done()
			for i := range ch {
				f(i)
			}
		}()
	}
	for i := 0; i < n; i++ {
		ch <- i
	}
	close(ch)
	wg.Wait()
}
