// Package gitenv runs real git and the freshly built git-lfs in an isolated
// environment (private HOME, no system config, fixed identities and dates).
package gitenv

import (
	"bytes"
	"fmt"
	"os"
	"os/exec"
	"path/filepath"
	"strings"
	"time"
)

type Env struct {
	Root   string // scenario directory (HOME lives here)
	BinDir string // directory holding the git-lfs binary under test
	Extra  []string
	// CommitTZ is the UTC offset commits made through GitDate carry ("+0000" when empty).
	CommitTZ string
	clock    int64
}

type Result struct {
	Stdout, Stderr string
	Code           int // -2 timeout, -1 start failure
}

func (r Result) OK() bool { return r.Code == 0 }
func (r Result) All() string {
	return r.Stdout + r.Stderr
}

// New creates the scenario directory with a global git config that installs the lfs filters.
func New(root, binDir string) (*Env, error) {
	e := &Env{Root: root, BinDir: binDir, clock: 1700000000}
	if err := os.MkdirAll(filepath.Join(root, "home"), 0o755); err != nil {
		return nil, err
	}
	cfg := `[user]
	name = Verif User
	email = verif@example.com
[init]
	defaultBranch = main
[filter "lfs"]
	clean = git-lfs clean -- %f
	smudge = git-lfs smudge -- %f
	process = git-lfs filter-process
	required = true
[protocol "file"]
	allow = always
[advice]
	detachedHead = false
[core]
	autocrlf = false
[gc]
	auto = 0
[credential]
	helper =
`
	if err := os.WriteFile(filepath.Join(root, "home", ".gitconfig"), []byte(cfg), 0o644); err != nil {
		return nil, err
	}
	return e, nil
}

func (e *Env) Environ() []string {
	path := e.BinDir + ":/usr/local/bin:/usr/bin:/bin"
	env := []string{
		"PATH=" + path,
		"HOME=" + filepath.Join(e.Root, "home"),
		"XDG_CONFIG_HOME=" + filepath.Join(e.Root, "home", ".config"),
		"GIT_CONFIG_NOSYSTEM=1",
		"GIT_TERMINAL_PROMPT=0",
		"GIT_ASKPASS=",
		"SSH_ASKPASS=",
		"LC_ALL=C",
		"LANG=C",
		"TZ=UTC",
		"GIT_AUTHOR_NAME=Verif User", "GIT_AUTHOR_EMAIL=verif@example.com",
		"GIT_COMMITTER_NAME=Verif User", "GIT_COMMITTER_EMAIL=verif@example.com",
		"GIT_LFS_TEST_DIR=",
		// never discover a repository above the scenario's root (the harness's own checkout lies above it)
		"GIT_CEILING_DIRECTORIES=" + e.Root + ":" + filepath.Dir(e.Root) + ":" + filepath.Dir(filepath.Dir(e.Root)),
		"TMPDIR=" + filepath.Join(e.Root, "home"),
	}
	return append(env, e.Extra...)
}

// RunIn runs a command in dir with extra environment entries and optional stdin.
func (e *Env) RunIn(dir string, extraEnv []string, stdin []byte, timeout time.Duration, name string, args ...string) Result {
	// resolve the binary through the scenario's PATH, not the orchestrator's
	bin := name
	if !strings.Contains(name, "/") {
		for _, d := range []string{e.BinDir, "/usr/local/bin", "/usr/bin", "/bin"} {
			p := filepath.Join(d, name)
			if st, err := os.Stat(p); err == nil && !st.IsDir() {
				bin = p
				break
			}
		}
	}
	cmd := exec.Command(bin, args...)
	cmd.Args[0] = name
	cmd.Dir = dir
	cmd.Env = append(e.Environ(), extraEnv...)
	if dir != "" {
		// as a shell would: the logical path of the working directory (matters when it goes through a symlink)
		cmd.Env = append(cmd.Env, "PWD="+dir)
	}
	var so, se bytes.Buffer
	cmd.Stdout, cmd.Stderr = &so, &se
	if stdin != nil {
		cmd.Stdin = bytes.NewReader(stdin)
	}
	if err := cmd.Start(); err != nil {
		return Result{Stderr: err.Error(), Code: -1}
	}
	done := make(chan error, 1)
	go func() { done <- cmd.Wait() }()
	if timeout == 0 {
		timeout = 60 * time.Second
	}
	select {
	case err := <-done:
		code := 0
		if err != nil {
			if ee, ok := err.(*exec.ExitError); ok {
				code = ee.ExitCode()
			} else {
				code = -1
			}
		}
		return Result{so.String(), se.String(), code}
	case <-time.After(timeout):
		cmd.Process.Kill()
		<-done
		return Result{so.String(), se.String() + "\n[timeout]", -2}
	}
}

// Git runs git in dir.
func (e *Env) Git(dir string, args ...string) Result {
	return e.RunIn(dir, nil, nil, 0, "git", args...)
}

// GitDate runs git with explicit author/committer dates (unix seconds).
func (e *Env) GitDate(dir string, unix int64, args ...string) Result {
	tz := e.CommitTZ
	if tz == "" {
		tz = "+0000"
	}
	d := fmt.Sprintf("%d %s", unix, tz)
	return e.RunIn(dir, []string{"GIT_AUTHOR_DATE=" + d, "GIT_COMMITTER_DATE=" + d}, nil, 0, "git", args...)
}

// Tick returns a fresh, strictly increasing commit date.
func (e *Env) Tick() int64 { e.clock += 60; return e.clock }

// LFS runs git-lfs <args> in dir.
func (e *Env) LFS(dir string, args ...string) Result {
	return e.RunIn(dir, nil, nil, 0, "git-lfs", args...)
}

// MustGit fails with an error describing the command.
func (e *Env) MustGit(dir string, args ...string) (Result, error) {
	r := e.Git(dir, args...)
	if !r.OK() {
		return r, fmt.Errorf("git %s (in %s): exit %d\n%s", strings.Join(args, " "), dir, r.Code, r.All())
	}
	return r, nil
}

// WriteFile writes a work-tree file and back-dates its mtime by one hour so
// that index entries are never racily clean (see DESIGN.md 3.8).
func (e *Env) WriteFile(path string, data []byte, mode os.FileMode) error {
	if fi, err := os.Lstat(path); err == nil && fi.Mode()&os.ModeSymlink != 0 {
		os.Remove(path) // never write through a symbolic link
	}
	if err := os.MkdirAll(filepath.Dir(path), 0o755); err != nil {
		return err
	}
	os.Remove(path)
	if err := os.WriteFile(path, data, mode); err != nil {
		return err
	}
	t := time.Now().Add(-time.Hour)
	return os.Chtimes(path, t, t)
}

// InitRepo creates a repository with main as initial branch.
func (e *Env) InitRepo(dir string, bare bool) error {
	os.MkdirAll(dir, 0o755)
	args := []string{"init", "-q", "-b", "main"}
	if bare {
		args = append(args, "--bare")
	}
	_, err := e.MustGit(dir, args...)
	return err
}

// LocalObjectPath returns the path of an object in .git/lfs/objects.
func LocalObjectPath(gitDir, oid string) string {
	return filepath.Join(gitDir, "lfs", "objects", oid[0:2], oid[2:4], oid)
}

// ListObjects walks <gitDir>/lfs/objects and returns name -> content.
func ListObjects(gitDir string) map[string][]byte {
	out := map[string][]byte{}
	base := filepath.Join(gitDir, "lfs", "objects")
	filepath.Walk(base, func(p string, info os.FileInfo, err error) error {
		if err != nil || info.IsDir() {
			return nil
		}
		rel, _ := filepath.Rel(base, p)
		b, _ := os.ReadFile(p)
		out[rel] = b
		return nil
	})
	return out
}
