// Package lfsserver is the harness-owned fake LFS server: batch API, object
// storage, verify callback and the locking API for any number of repositories,
// with a complete request log and per-scenario fault scripting.
package lfsserver

import (
	"crypto/sha256"
	"encoding/base64"
	"encoding/hex"
	"encoding/json"
	"fmt"
	"io"
	"net"
	"net/http"
	"sort"
	"strconv"
	"strings"
	"sync"
	"time"
)

type Request struct {
	Seq         int               `json:"seq"`
	Method      string            `json:"method"`
	Path        string            `json:"path"`
	Query       string            `json:"query,omitempty"`
	Kind        string            `json:"kind"` // batch | storage-get | storage-put | verify | lock | unlock | locks-list | locks-verify | other
	Repo        string            `json:"repo"`
	Accept      string            `json:"accept"`
	ContentType string            `json:"content_type"`
	Auth        string            `json:"auth,omitempty"`
	User        string            `json:"user,omitempty"`
	Headers     map[string]string `json:"headers,omitempty"`
	Body        json.RawMessage   `json:"body,omitempty"`
	BodyLen     int               `json:"body_len"`
	Status      int               `json:"status"`
	Response    json.RawMessage   `json:"response,omitempty"`
	Oid         string            `json:"oid,omitempty"`
	Host        string            `json:"host"`
}

type Lock struct {
	ID       string `json:"id"`
	Path     string `json:"path"`
	Owner    string `json:"-"`
	LockedAt string `json:"locked_at"`
}

type Repo struct {
	Objects map[string][]byte
	Locks   []*Lock
	nextID  int
}

// Fault lets a scenario override behaviour; return true when the request was fully handled.
type Fault func(s *Server, kind, repo string, w http.ResponseWriter, r *http.Request, body []byte) bool

type Server struct {
	mu          sync.Mutex
	ln          net.Listener
	srv         *http.Server
	URL         string
	repos       map[string]*Repo
	Log         []Request
	seq         int
	Fault       Fault
	RequireAuth bool              // answer 401 to unauthenticated API requests (users come from Basic auth)
	NoVerify    bool              // do not offer verify actions
	ActionHdr   map[string]string // extra headers attached to every offered action
	Staging     bool              // uploads go to a staging area; a successful verify call commits them to the store
	FailVerify  bool              // every verify call is answered 500
	staged      map[string][]byte
	UploadHdr   map[string]string // extra headers attached to upload actions only (e.g. a Content-Type for the PUT)
	ExpiresIn   int               // expires_in for actions (0: none)
	PageSize    int               // lock list page size (0: unlimited)
	VerifyPut   bool              // reject uploads whose bytes do not hash to the oid (as real servers do)
}

func New() (*Server, error) {
	ln, err := net.Listen("tcp", "127.0.0.1:0")
	if err != nil {
		return nil, err
	}
	s := &Server{ln: ln, repos: map[string]*Repo{}, URL: "http://" + ln.Addr().String()}
	s.srv = &http.Server{Handler: http.HandlerFunc(s.handle)}
	go s.srv.Serve(ln)
	return s, nil
}

func (s *Server) Close() { s.srv.Close() }

func (s *Server) Repo(name string) *Repo {
	if r, ok := s.repos[name]; ok {
		return r
	}
	r := &Repo{Objects: map[string][]byte{}}
	s.repos[name] = r
	return r
}

// LFSURL is the value for lfs.url of a repository (optionally with user:pass).
func (s *Server) LFSURL(repo, user string) string {
	u := s.URL
	if user != "" {
		u = strings.Replace(u, "http://", "http://"+user+":pass@", 1)
	}
	return u + "/" + repo + ".git/info/lfs"
}

func (s *Server) Has(repo, oid string) bool {
	s.mu.Lock()
	defer s.mu.Unlock()
	_, ok := s.Repo(repo).Objects[oid]
	return ok
}
func (s *Server) Put(repo string, data []byte) string {
	h := sha256.Sum256(data)
	oid := hex.EncodeToString(h[:])
	s.mu.Lock()
	s.Repo(repo).Objects[oid] = append([]byte{}, data...)
	s.mu.Unlock()
	return oid
}
func (s *Server) Delete(repo, oid string) {
	s.mu.Lock()
	delete(s.Repo(repo).Objects, oid)
	s.mu.Unlock()
}

// ValidOids returns the oids whose stored content hashes to their name.
func (s *Server) ValidOids(repo string) []string {
	s.mu.Lock()
	defer s.mu.Unlock()
	out := []string{}
	for oid, b := range s.Repo(repo).Objects {
		h := sha256.Sum256(b)
		if hex.EncodeToString(h[:]) == oid {
			out = append(out, oid)
		}
	}
	sort.Strings(out)
	return out
}
func (s *Server) AllOids(repo string) []string {
	s.mu.Lock()
	defer s.mu.Unlock()
	out := []string{}
	for oid := range s.Repo(repo).Objects {
		out = append(out, oid)
	}
	sort.Strings(out)
	return out
}
func (s *Server) LocksOf(repo string) []Lock {
	s.mu.Lock()
	defer s.mu.Unlock()
	out := []Lock{}
	for _, l := range s.Repo(repo).Locks {
		out = append(out, *l)
	}
	return out
}
func (s *Server) Requests() []Request {
	s.mu.Lock()
	defer s.mu.Unlock()
	return append([]Request{}, s.Log...)
}
func (s *Server) ResetLog() { s.mu.Lock(); s.Log = nil; s.mu.Unlock() }

type respRecorder struct {
	http.ResponseWriter
	status int
	buf    []byte
}

func (r *respRecorder) WriteHeader(c int) { r.status = c; r.ResponseWriter.WriteHeader(c) }
func (r *respRecorder) Write(b []byte) (int, error) {
	if r.status == 0 {
		r.status = 200
	}
	if len(r.buf) < 1<<16 {
		r.buf = append(r.buf, b...)
	}
	return r.ResponseWriter.Write(b)
}

func userOf(r *http.Request) string {
	a := r.Header.Get("Authorization")
	if strings.HasPrefix(a, "Basic ") {
		if b, err := base64.StdEncoding.DecodeString(a[6:]); err == nil {
			return strings.SplitN(string(b), ":", 2)[0]
		}
	}
	return ""
}

func classify(method, path string) (kind, repo, rest string) {
	if strings.HasPrefix(path, "/storage/") {
		p := strings.SplitN(strings.TrimPrefix(path, "/storage/"), "/", 2)
		if len(p) == 2 {
			if method == "PUT" {
				return "storage-put", p[0], p[1]
			}
			return "storage-get", p[0], p[1]
		}
	}
	if strings.HasPrefix(path, "/verify/") {
		return "verify", strings.TrimPrefix(path, "/verify/"), ""
	}
	i := strings.Index(path, ".git/info/lfs")
	if i < 0 {
		return "other", "", ""
	}
	repo = strings.Trim(path[:i], "/")
	rest = strings.TrimPrefix(path[i+len(".git/info/lfs"):], "/")
	switch {
	case rest == "objects/batch":
		kind = "batch"
	case rest == "locks" && method == "POST":
		kind = "lock"
	case rest == "locks" && method == "GET":
		kind = "locks-list"
	case rest == "locks/verify":
		kind = "locks-verify"
	case strings.HasPrefix(rest, "locks/") && strings.HasSuffix(rest, "/unlock"):
		kind = "unlock"
	default:
		kind = "other"
	}
	return
}

// DropStaged forgets uploads that were never verified.
func (s *Server) DropStaged() { s.mu.Lock(); s.staged = nil; s.mu.Unlock() }

func (s *Server) handle(w http.ResponseWriter, r *http.Request) {
	body, _ := io.ReadAll(r.Body)
	kind, repo, rest := classify(r.Method, r.URL.Path)
	rec := &respRecorder{ResponseWriter: w}
	s.mu.Lock()
	s.seq++
	seq := s.seq
	s.mu.Unlock()
	defer func() {
		q := Request{Seq: seq, Method: r.Method, Path: r.URL.Path, Query: r.URL.RawQuery, Kind: kind, Repo: repo,
			Accept: r.Header.Get("Accept"), ContentType: r.Header.Get("Content-Type"), Auth: r.Header.Get("Authorization"),
			User: userOf(r), BodyLen: len(body), Status: rec.status, Host: r.Host, Headers: map[string]string{}}
		for k, v := range r.Header {
			q.Headers[k] = strings.Join(v, ",")
		}
		if json.Valid(body) && len(body) < 1<<16 && kind != "storage-put" {
			q.Body = json.RawMessage(body)
		}
		if json.Valid(rec.buf) && kind != "storage-get" {
			q.Response = json.RawMessage(rec.buf)
		}
		if kind == "storage-get" || kind == "storage-put" {
			q.Oid = rest
		}
		s.mu.Lock()
		s.Log = append(s.Log, q)
		s.mu.Unlock()
	}()
	if s.Fault != nil && s.Fault(s, kind, repo, rec, r, body) {
		return
	}
	api := kind == "batch" || kind == "lock" || kind == "unlock" || kind == "locks-list" || kind == "locks-verify"
	if api && s.RequireAuth && userOf(r) == "" {
		rec.Header().Set("WWW-Authenticate", `Basic realm="verif"`)
		rec.Header().Set("Content-Type", "application/vnd.git-lfs+json")
		rec.WriteHeader(401)
		rec.Write([]byte(`{"message":"credentials needed"}`))
		return
	}
	switch kind {
	case "batch":
		s.batch(rec, r, repo, body)
	case "storage-get":
		s.mu.Lock()
		b, ok := s.Repo(repo).Objects[rest]
		s.mu.Unlock()
		if !ok {
			rec.WriteHeader(404)
			return
		}
		rec.Header().Set("Content-Length", strconv.Itoa(len(b)))
		rec.WriteHeader(200)
		rec.Write(b)
	case "storage-put":
		if s.VerifyPut {
			h := sha256.Sum256(body)
			if hex.EncodeToString(h[:]) != rest {
				rec.Header().Set("Content-Type", "application/vnd.git-lfs+json")
				rec.WriteHeader(400)
				rec.Write([]byte(`{"message":"uploaded bytes do not hash to the object id"}`))
				return
			}
		}
		s.mu.Lock()
		if s.Staging {
			if s.staged == nil {
				s.staged = map[string][]byte{}
			}
			s.staged[repo+"/"+rest] = body
		} else {
			s.Repo(repo).Objects[rest] = body
		}
		s.mu.Unlock()
		rec.WriteHeader(200)
	case "verify":
		var v struct {
			Oid  string `json:"oid"`
			Size int64  `json:"size"`
		}
		json.Unmarshal(body, &v)
		if s.FailVerify {
			rec.Header().Set("Content-Type", "application/vnd.git-lfs+json")
			rec.WriteHeader(500)
			rec.Write([]byte(`{"message":"verification backend down"}`))
			return
		}
		s.mu.Lock()
		if sb, staged := s.staged[repo+"/"+v.Oid]; staged {
			s.Repo(repo).Objects[v.Oid] = sb
			delete(s.staged, repo+"/"+v.Oid)
		}
		b, ok := s.Repo(repo).Objects[v.Oid]
		s.mu.Unlock()
		if !ok || int64(len(b)) != v.Size {
			rec.WriteHeader(404)
			return
		}
		rec.WriteHeader(200)
	case "lock", "unlock", "locks-list", "locks-verify":
		s.locks(rec, r, kind, repo, rest, body)
	default:
		rec.WriteHeader(404)
	}
}

type batchObj struct {
	Oid  string `json:"oid"`
	Size int64  `json:"size"`
}

func (s *Server) batch(w http.ResponseWriter, r *http.Request, repo string, body []byte) {
	var req struct {
		Operation string     `json:"operation"`
		Objects   []batchObj `json:"objects"`
	}
	json.Unmarshal(body, &req)
	type action struct {
		Href      string            `json:"href"`
		Header    map[string]string `json:"header,omitempty"`
		ExpiresIn int               `json:"expires_in,omitempty"`
	}
	type obj struct {
		Oid     string             `json:"oid"`
		Size    int64              `json:"size"`
		Actions map[string]*action `json:"actions,omitempty"`
		Error   *struct {
			Code    int    `json:"code"`
			Message string `json:"message"`
		} `json:"error,omitempty"`
	}
	out := []obj{}
	s.mu.Lock()
	for _, o := range req.Objects {
		b, has := s.Repo(repo).Objects[o.Oid]
		ob := obj{Oid: o.Oid, Size: o.Size}
		mk := func(path string) *action {
			a := &action{Href: s.URL + path, ExpiresIn: s.ExpiresIn}
			if len(s.ActionHdr) > 0 {
				a.Header = map[string]string{}
				for k, v := range s.ActionHdr {
					a.Header[k] = v
				}
			}
			return a
		}
		switch req.Operation {
		case "download":
			if has {
				ob.Size = int64(len(b))
				ob.Actions = map[string]*action{"download": mk("/storage/" + repo + "/" + o.Oid)}
			} else {
				ob.Error = &struct {
					Code    int    `json:"code"`
					Message string `json:"message"`
				}{404, "object does not exist"}
			}
		case "upload":
			if !has {
				ob.Actions = map[string]*action{"upload": mk("/storage/" + repo + "/" + o.Oid)}
				for k, v := range s.UploadHdr {
					if ob.Actions["upload"].Header == nil {
						ob.Actions["upload"].Header = map[string]string{}
					}
					ob.Actions["upload"].Header[k] = v
				}
				if !s.NoVerify {
					ob.Actions["verify"] = mk("/verify/" + repo)
				}
			}
		}
		out = append(out, ob)
	}
	s.mu.Unlock()
	w.Header().Set("Content-Type", "application/vnd.git-lfs+json")
	w.WriteHeader(200)
	json.NewEncoder(w).Encode(map[string]interface{}{"transfer": "basic", "objects": out, "hash_algo": "sha256"})
}

func (s *Server) locks(w http.ResponseWriter, r *http.Request, kind, repo, rest string, body []byte) {
	w.Header().Set("Content-Type", "application/vnd.git-lfs+json")
	user := userOf(r)
	if user == "" {
		user = "anonymous"
	}
	s.mu.Lock()
	defer s.mu.Unlock()
	rp := s.Repo(repo)
	type owner struct {
		Name string `json:"name"`
	}
	type lockJSON struct {
		ID       string `json:"id"`
		Path     string `json:"path"`
		LockedAt string `json:"locked_at"`
		Owner    owner  `json:"owner"`
	}
	toJSON := func(l *Lock) lockJSON { return lockJSON{l.ID, l.Path, l.LockedAt, owner{l.Owner}} }
	switch kind {
	case "lock":
		var req struct {
			Path string `json:"path"`
		}
		json.Unmarshal(body, &req)
		for _, l := range rp.Locks {
			if l.Path == req.Path {
				w.WriteHeader(409)
				json.NewEncoder(w).Encode(map[string]interface{}{"lock": toJSON(l), "message": "already created lock"})
				return
			}
		}
		rp.nextID++
		l := &Lock{ID: fmt.Sprintf("lock%d", rp.nextID), Path: req.Path, Owner: user, LockedAt: time.Unix(1700000000+int64(rp.nextID), 0).UTC().Format(time.RFC3339)}
		rp.Locks = append(rp.Locks, l)
		w.WriteHeader(201)
		json.NewEncoder(w).Encode(map[string]interface{}{"lock": toJSON(l)})
	case "unlock":
		id := strings.TrimSuffix(strings.TrimPrefix(rest, "locks/"), "/unlock")
		var req struct {
			Force bool `json:"force"`
		}
		json.Unmarshal(body, &req)
		for i, l := range rp.Locks {
			if l.ID == id {
				if l.Owner != user && !req.Force {
					w.WriteHeader(403)
					json.NewEncoder(w).Encode(map[string]string{"message": "lock is owned by " + l.Owner})
					return
				}
				rp.Locks = append(rp.Locks[:i], rp.Locks[i+1:]...)
				w.WriteHeader(200)
				json.NewEncoder(w).Encode(map[string]interface{}{"lock": toJSON(l)})
				return
			}
		}
		w.WriteHeader(404)
		json.NewEncoder(w).Encode(map[string]string{"message": "lock not found"})
	case "locks-list":
		q := r.URL.Query()
		var sel []*Lock
		for _, l := range rp.Locks {
			if p := q.Get("path"); p != "" && l.Path != p {
				continue
			}
			if id := q.Get("id"); id != "" && l.ID != id {
				continue
			}
			sel = append(sel, l)
		}
		start := 0
		if c := q.Get("cursor"); c != "" {
			start, _ = strconv.Atoi(c)
		}
		limit := len(sel)
		if s.PageSize > 0 {
			limit = s.PageSize
		}
		if l := q.Get("limit"); l != "" {
			if n, err := strconv.Atoi(l); err == nil && n > 0 && n < limit {
				limit = n
			}
		}
		end := start + limit
		resp := map[string]interface{}{}
		if end < len(sel) {
			resp["next_cursor"] = strconv.Itoa(end)
		} else {
			end = len(sel)
		}
		out := []lockJSON{}
		if start < end {
			for _, l := range sel[start:end] {
				out = append(out, toJSON(l))
			}
		}
		resp["locks"] = out
		w.WriteHeader(200)
		json.NewEncoder(w).Encode(resp)
	case "locks-verify":
		var req struct {
			Cursor string `json:"cursor"`
			Limit  int    `json:"limit"`
		}
		json.Unmarshal(body, &req)
		start, _ := strconv.Atoi(req.Cursor)
		all := rp.Locks
		limit := len(all)
		if s.PageSize > 0 {
			limit = s.PageSize
		}
		end := start + limit
		resp := map[string]interface{}{}
		if end < len(all) {
			resp["next_cursor"] = strconv.Itoa(end)
		} else {
			end = len(all)
		}
		ours, theirs := []lockJSON{}, []lockJSON{}
		if start < end {
			for _, l := range all[start:end] {
				if l.Owner == user {
					ours = append(ours, toJSON(l))
				} else {
					theirs = append(theirs, toJSON(l))
				}
			}
		}
		resp["ours"], resp["theirs"] = ours, theirs
		w.WriteHeader(200)
		json.NewEncoder(w).Encode(resp)
	}
}
