// Package pkt is a small pkt-line client for Git's long-running filter
// protocol (gitattributes(5), "Long Running Filter Process"), used to drive
// `git-lfs filter-process` the way Git does, with full control over how
// payloads are split into packets.
package pkt

import (
	"bufio"
	"fmt"
	"io"
	"os/exec"
	"strconv"
	"strings"
	"time"
)

const MaxData = 65516

type Session struct {
	cmd    *exec.Cmd
	in     io.WriteCloser
	out    *bufio.Reader
	Stderr *strings.Builder
	Caps   []string
	Log    []string // protocol transcript (for replay files / trace validation)
	dead   bool
}

func (s *Session) logf(format string, a ...interface{}) { s.Log = append(s.Log, fmt.Sprintf(format, a...)) }

func (s *Session) writePkt(b []byte) error {
	if len(b) > MaxData {
		return fmt.Errorf("packet too large")
	}
	_, err := fmt.Fprintf(s.in, "%04x", len(b)+4)
	if err == nil {
		_, err = s.in.Write(b)
	}
	return err
}
func (s *Session) flush() error { _, err := s.in.Write([]byte("0000")); return err }

// readPkt returns (data, isFlush, error).
func (s *Session) readPkt() ([]byte, bool, error) {
	var hdr [4]byte
	if _, err := io.ReadFull(s.out, hdr[:]); err != nil {
		return nil, false, err
	}
	n, err := strconv.ParseInt(string(hdr[:]), 16, 32)
	if err != nil {
		return nil, false, fmt.Errorf("bad pkt header %q", hdr[:])
	}
	if n == 0 {
		return nil, true, nil
	}
	if n < 4 {
		return nil, false, fmt.Errorf("bad pkt length %d", n)
	}
	b := make([]byte, n-4)
	if _, err := io.ReadFull(s.out, b); err != nil {
		return nil, false, err
	}
	return b, false, nil
}

// readList reads text packets until a flush.
func (s *Session) readList() ([]string, error) {
	var out []string
	for {
		b, fl, err := s.readPkt()
		if err != nil {
			return out, err
		}
		if fl {
			return out, nil
		}
		out = append(out, strings.TrimSuffix(string(b), "\n"))
	}
}

func (s *Session) readContent() ([]byte, error) {
	var out []byte
	for {
		b, fl, err := s.readPkt()
		if err != nil {
			return out, err
		}
		if fl {
			return out, nil
		}
		out = append(out, b...)
	}
}

// Start launches the filter and performs handshake + capability negotiation.
func Start(cmd *exec.Cmd, caps []string) (*Session, error) {
	in, err := cmd.StdinPipe()
	if err != nil {
		return nil, err
	}
	outp, err := cmd.StdoutPipe()
	if err != nil {
		return nil, err
	}
	s := &Session{cmd: cmd, in: in, out: bufio.NewReaderSize(outp, 1<<16), Stderr: &strings.Builder{}}
	cmd.Stderr = s.Stderr
	if err := cmd.Start(); err != nil {
		return nil, err
	}
	s.writePkt([]byte("git-filter-client\n"))
	s.writePkt([]byte("version=2\n"))
	s.flush()
	l, err := s.readList()
	if err != nil {
		return s, fmt.Errorf("handshake: %v (stderr: %s)", err, s.Stderr.String())
	}
	if len(l) != 2 || l[0] != "git-filter-server" || l[1] != "version=2" {
		return s, fmt.Errorf("bad welcome %q", l)
	}
	for _, c := range caps {
		s.writePkt([]byte("capability=" + c + "\n"))
	}
	s.flush()
	l, err = s.readList()
	if err != nil {
		return s, fmt.Errorf("capabilities: %v", err)
	}
	for _, x := range l {
		s.Caps = append(s.Caps, strings.TrimPrefix(x, "capability="))
	}
	s.logf("handshake caps=%v", s.Caps)
	return s, nil
}

type Response struct {
	Status      string // first status
	Content     []byte
	FinalStatus string   // status after content ("" = unchanged)
	Paths       []string // for list_available_blobs
	ProtoErr    string   // protocol violation observed by the client
	Died        bool     // filter closed the stream mid-exchange
}

// Request sends one command. payload is split into packets of pktSize bytes
// (0 => maximal packets). For "list_available_blobs" no pathname/payload is sent.
func (s *Session) Request(command, pathname string, extra []string, payload []byte, pktSize int, sendPayload bool) Response {
	var r Response
	if s.dead {
		r.Died = true
		return r
	}
	s.writePkt([]byte("command=" + command + "\n"))
	if pathname != "" {
		s.writePkt([]byte("pathname=" + pathname + "\n"))
	}
	for _, e := range extra {
		s.writePkt([]byte(e + "\n"))
	}
	s.flush()
	if sendPayload {
		if pktSize <= 0 || pktSize > MaxData {
			pktSize = MaxData
		}
		for off := 0; off < len(payload); off += pktSize {
			end := off + pktSize
			if end > len(payload) {
				end = len(payload)
			}
			if err := s.writePkt(payload[off:end]); err != nil {
				r.Died = true
				s.dead = true
				return r
			}
		}
		s.flush()
	}
	s.logf("> command=%s pathname=%s extra=%v payload=%d pkt=%d", command, pathname, extra, len(payload), pktSize)
	fail := func(msg string, err error) Response {
		if err == io.EOF || err == io.ErrUnexpectedEOF {
			r.Died = true
		} else {
			r.ProtoErr = fmt.Sprintf("%s: %v", msg, err)
		}
		s.dead = true
		s.logf("< died=%v protoerr=%s", r.Died, r.ProtoErr)
		return r
	}
	if command == "list_available_blobs" {
		l, err := s.readList()
		if err != nil {
			return fail("reading blob list", err)
		}
		for _, x := range l {
			if !strings.HasPrefix(x, "pathname=") {
				r.ProtoErr = "unexpected line in blob list: " + x
			}
			r.Paths = append(r.Paths, strings.TrimPrefix(x, "pathname="))
		}
		st, err := s.readList()
		if err != nil {
			return fail("reading list status", err)
		}
		if len(st) != 1 || !strings.HasPrefix(st[0], "status=") {
			r.ProtoErr = fmt.Sprintf("bad status list %q", st)
		} else {
			r.Status = strings.TrimPrefix(st[0], "status=")
		}
		s.logf("< list %v status=%s", r.Paths, r.Status)
		return r
	}
	st, err := s.readList()
	if err != nil {
		return fail("reading status", err)
	}
	if len(st) != 1 || !strings.HasPrefix(st[0], "status=") {
		r.ProtoErr = fmt.Sprintf("bad status list %q", st)
		s.dead = true
		return r
	}
	r.Status = strings.TrimPrefix(st[0], "status=")
	if r.Status != "success" {
		s.logf("< status=%s", r.Status)
		return r // error / abort / delayed: no content follows
	}
	c, err := s.readContent()
	if err != nil {
		return fail("reading content", err)
	}
	r.Content = c
	fs, err := s.readList()
	if err != nil {
		return fail("reading final status", err)
	}
	if len(fs) > 1 || (len(fs) == 1 && !strings.HasPrefix(fs[0], "status=")) {
		r.ProtoErr = fmt.Sprintf("bad final status list %q", fs)
	} else if len(fs) == 1 {
		r.FinalStatus = strings.TrimPrefix(fs[0], "status=")
	}
	s.logf("< status=%s content=%d final=%q", r.Status, len(r.Content), r.FinalStatus)
	return r
}

// Close ends the session and returns the exit code of the filter.
func (s *Session) Close() int {
	s.in.Close()
	done := make(chan error, 1)
	go func() { done <- s.cmd.Wait() }()
	select {
	case err := <-done:
		if err == nil {
			return 0
		}
		if ee, ok := err.(*exec.ExitError); ok {
			return ee.ExitCode()
		}
		return -1
	case <-time.After(30 * time.Second):
		s.cmd.Process.Kill()
		<-done
		return -2
	}
}

// RequestT is Request with a deadline: on expiry the filter is killed and timedOut is true.
func (s *Session) RequestT(d time.Duration, command, pathname string, extra []string, payload []byte, pktSize int, sendPayload bool) (Response, bool) {
	ch := make(chan Response, 1)
	go func() { ch <- s.Request(command, pathname, extra, payload, pktSize, sendPayload) }()
	select {
	case r := <-ch:
		return r, false
	case <-time.After(d):
		s.cmd.Process.Kill()
		s.dead = true
		r := <-ch
		return r, true
	}
}
