//go:build verif

package main

// workers sub-command: the worker pool of the real basic download adapter
// (tq/adapterbase.go) under a real transfer queue, for spec/AdapterWorkers.tla.
// The first GET of every object the scenario marks "fail" is answered 503; all
// later ones 200.  Objects get descending sizes, so the queue hands them to the
// adapter in scenario order.  The adapter's own trace lines (GIT_TRACE +
// GIT_TRANSFER_TRACE, set by the caller) are the recorded trace.

import (
	"crypto/sha256"
	"encoding/hex"
	"encoding/json"
	"fmt"
	"io"
	"net/http"
	"net/http/httptest"
	"os"
	"path/filepath"
	"strings"
	"sync"
	"time"

	"github.com/git-lfs/git-lfs/v3/fs"
	"github.com/git-lfs/git-lfs/v3/lfsapi"
	"github.com/git-lfs/git-lfs/v3/lfshttp"
	"github.com/git-lfs/git-lfs/v3/tq"
)

// lfsdrv workers <n workers> <jobs json: ["ok","fail",...]> <result.json>
func cmdWorkers(args []string) {
	var nw int
	fmt.Sscanf(args[0], "%d", &nw)
	var jobs []string
	json.Unmarshal([]byte(args[1]), &jobs)
	type result struct {
		Returned bool           `json:"returned"`
		Oids     []string       `json:"oids"`
		Gets     map[string]int `json:"gets"`
		Ok       map[string]int `json:"ok"`
		Failed   map[string]int `json:"failed"`
		Stored   map[string]bool `json:"stored"`
		Infra    string         `json:"infra,omitempty"`
	}
	res := result{Gets: map[string]int{}, Ok: map[string]int{}, Failed: map[string]int{}, Stored: map[string]bool{}}
	write := func() {
		b, _ := json.Marshal(res)
		os.WriteFile(args[2], b, 0o644)
	}
	objects := map[string][]byte{}
	failFirst := map[string]bool{}
	for i, k := range jobs {
		b := []byte(strings.Repeat(fmt.Sprintf("object %d\n", i), 400-20*i))
		h := sha256.Sum256(b)
		oid := hex.EncodeToString(h[:])
		objects[oid] = b
		failFirst[oid] = k == "fail"
		res.Oids = append(res.Oids, oid)
	}
	var mu sync.Mutex
	var srv *httptest.Server
	srv = httptest.NewServer(http.HandlerFunc(func(w http.ResponseWriter, r *http.Request) {
		body, _ := io.ReadAll(r.Body)
		if strings.HasSuffix(r.URL.Path, "/objects/batch") {
			var req struct {
				Objects []struct {
					Oid  string `json:"oid"`
					Size int64  `json:"size"`
				} `json:"objects"`
			}
			json.Unmarshal(body, &req)
			var objs []map[string]interface{}
			for _, o := range req.Objects {
				objs = append(objs, map[string]interface{}{"oid": o.Oid, "size": o.Size,
					"actions": map[string]interface{}{"download": map[string]interface{}{"href": srv.URL + "/store/" + o.Oid}}})
			}
			w.Header().Set("Content-Type", "application/vnd.git-lfs+json")
			json.NewEncoder(w).Encode(map[string]interface{}{"transfer": "basic", "objects": objs})
			return
		}
		oid := filepath.Base(r.URL.Path)
		mu.Lock()
		res.Gets[oid]++
		n := res.Gets[oid]
		mu.Unlock()
		if failFirst[oid] && n == 1 {
			w.WriteHeader(503)
			return
		}
		b := objects[oid]
		w.Header().Set("Content-Length", fmt.Sprint(len(b)))
		w.WriteHeader(200)
		w.Write(b)
	}))
	defer srv.Close()

	dir, _ := os.MkdirTemp(filepath.Dir(args[2]), "wk-")
	defer os.RemoveAll(dir)
	gitcfg := map[string]string{"lfs.url": srv.URL + "/api", "lfs.concurrenttransfers": fmt.Sprint(nw),
		"lfs.transfer.maxretries": "3", "lfs.transfer.maxretrydelay": "0"}
	c, err := lfsapi.NewClient(lfshttp.NewContext(nil, map[string]string{"GIT_TRANSFER_TRACE": "1"}, gitcfg))
	if err != nil {
		res.Infra = err.Error()
		write()
		return
	}
	defer c.Close()
	f := fs.New(c.OSEnv(), dir, dir, filepath.Join(dir, "lfs"), 0644)
	m := tq.NewManifest(f, c, "download", "origin")
	q := tq.NewTransferQueue(tq.Download, m, "origin")
	watch := q.Watch()
	var wg sync.WaitGroup
	wg.Add(1)
	go func() {
		defer wg.Done()
		for t := range watch {
			mu.Lock()
			res.Ok[t.Oid]++
			mu.Unlock()
		}
	}()
	for i, oid := range res.Oids {
		p, _ := f.ObjectPath(oid)
		q.Add(fmt.Sprintf("obj-%d.bin", i), p, oid, int64(len(objects[oid])), false, nil)
	}
	done := make(chan struct{})
	go func() { q.Wait(); close(done) }()
	select {
	case <-done:
		res.Returned = true
		wg.Wait()
	case <-time.After(20 * time.Second):
	}
	mu.Lock()
	if res.Returned {
		for _, e := range q.Errors() {
			for _, oid := range res.Oids {
				if strings.Contains(e.Error(), oid) || strings.Contains(fmt.Sprintf("%+v", e), oid) {
					res.Failed[oid]++
				}
			}
		}
	}
	for _, oid := range res.Oids {
		p, _ := f.ObjectPath(oid)
		if b, err := os.ReadFile(p); err == nil {
			h := sha256.Sum256(b)
			res.Stored[oid] = hex.EncodeToString(h[:]) == oid
		}
	}
	mu.Unlock()
	write()
	if !res.Returned {
		os.Exit(3) // q.Wait() is still blocked: leave without waiting for it
	}
}
