//go:build verif

package main

// expiry sub-command: scenarios in which time passes between the hand-out of a
// batch action and its use, played to the real transfer queue with the real
// basic upload / download adapters.  The server hands out every action under a
// URL of its own and logs offers and uses for spec/ActionExpiry.tla.

import (
	"crypto/sha256"
	"encoding/hex"
	"encoding/json"
	"fmt"
	"io"
	"net/http"
	"net/http/httptest"
	"os"
	"path/filepath"
	"strings"
	"sync"
	"time"

	"github.com/git-lfs/git-lfs/v3/fs"
	"github.com/git-lfs/git-lfs/v3/lfsapi"
	"github.com/git-lfs/git-lfs/v3/lfshttp"
	"github.com/git-lfs/git-lfs/v3/tq"
)

type expEvent struct {
	Ev      string `json:"ev"`
	Name    string `json:"name,omitempty"`
	ID      int    `json:"id"`
	Oid     string `json:"oid,omitempty"`
	Rel     string `json:"rel,omitempty"`
	T       int64  `json:"t"`
	Expires int64  `json:"expires"`
	Status  int    `json:"status,omitempty"`
	Result  string `json:"result,omitempty"`
}

// lfsdrv expiry <scenario> <trace.ndjson>
//
//	verify-after-slow-put   one upload; the verify action expires 6 s after the hand-out, the PUT takes 6.4 s
//	upload-behind-slow-put  two uploads over one worker; both upload actions expire after 6 s, the first PUT takes 6.4 s
//	download-behind-slow    two downloads over one worker; both actions expire after 6 s, the first GET takes 6.4 s
func cmdExpiry(args []string) {
	scenario := args[0]
	out, _ := os.Create(args[1])
	defer out.Close()
	var mu sync.Mutex
	enc := json.NewEncoder(out)
	t0 := time.Now()
	now := func() int64 { return time.Since(t0).Milliseconds() + 1 }
	emit := func(e expEvent) { mu.Lock(); enc.Encode(e); mu.Unlock() }
	emit(expEvent{Ev: "reset", Name: scenario})

	objects := map[string][]byte{}
	var order []string
	for i := 0; i < 2; i++ {
		b := []byte(fmt.Sprintf("object %d of scenario %s\n", i, scenario))
		h := sha256.Sum256(b)
		oid := hex.EncodeToString(h[:])
		objects[oid] = b
		order = append(order, oid)
	}
	if scenario == "verify-after-slow-put" {
		order = order[:1]
	}
	stored := map[string][]byte{}
	if scenario == "download-behind-slow" {
		for _, o := range order {
			stored[o] = objects[o]
		}
	}
	nextID := 0
	slowDone := false
	const life = 6 * time.Second
	const slow = 6400 * time.Millisecond

	var srv *httptest.Server
	srv = httptest.NewServer(http.HandlerFunc(func(w http.ResponseWriter, r *http.Request) {
		body, _ := io.ReadAll(r.Body)
		if strings.HasSuffix(r.URL.Path, "/objects/batch") {
			var req struct {
				Operation string `json:"operation"`
				Objects   []struct {
					Oid  string `json:"oid"`
					Size int64  `json:"size"`
				} `json:"objects"`
			}
			json.Unmarshal(body, &req)
			var objs []map[string]interface{}
			mu.Lock()
			for _, o := range req.Objects {
				ob := map[string]interface{}{"oid": o.Oid, "size": o.Size}
				_, have := stored[o.Oid]
				mk := func(rel string, expiring bool) map[string]interface{} {
					nextID++
					id := nextID
					a := map[string]interface{}{"href": fmt.Sprintf("%s/act/%d/%s/%s", srv.URL, id, rel, o.Oid)}
					var exp int64
					if expiring {
						a["expires_in"] = int(life / time.Second)
						exp = time.Since(t0).Milliseconds() + 1 + life.Milliseconds()
					}
					enc.Encode(expEvent{Ev: "offer", ID: id, Oid: o.Oid[:8], Rel: rel, T: time.Since(t0).Milliseconds() + 1, Expires: exp})
					return a
				}
				switch {
				case req.Operation == "upload" && !have:
					ob["actions"] = map[string]interface{}{
						"upload": mk("upload", scenario == "upload-behind-slow-put"),
						"verify": mk("verify", scenario == "verify-after-slow-put")}
				case req.Operation == "download" && have:
					ob["actions"] = map[string]interface{}{"download": mk("download", true)}
				}
				objs = append(objs, ob)
			}
			mu.Unlock()
			w.Header().Set("Content-Type", "application/vnd.git-lfs+json")
			json.NewEncoder(w).Encode(map[string]interface{}{"transfer": "basic", "objects": objs})
			return
		}
		var id int
		var rel, oid string
		parts := strings.Split(strings.TrimPrefix(r.URL.Path, "/act/"), "/")
		if len(parts) == 3 {
			fmt.Sscanf(parts[0], "%d", &id)
			rel, oid = parts[1], parts[2]
		}
		emit(expEvent{Ev: "use", ID: id, Rel: rel, T: now()})
		mu.Lock()
		first := !slowDone && rel != "verify"
		if first {
			slowDone = true
		}
		mu.Unlock()
		if first {
			time.Sleep(slow) // the slow transfer: its answer is held back
		}
		switch rel {
		case "upload":
			mu.Lock()
			stored[oid] = body
			mu.Unlock()
			w.WriteHeader(200)
		case "verify":
			w.WriteHeader(200)
		case "download":
			mu.Lock()
			b := stored[oid]
			mu.Unlock()
			w.Header().Set("Content-Length", fmt.Sprint(len(b)))
			w.WriteHeader(200)
			w.Write(b)
		default:
			w.WriteHeader(404)
		}
	}))
	defer srv.Close()

	dir, _ := os.MkdirTemp(filepath.Dir(args[1]), "exp-")
	defer os.RemoveAll(dir)
	gitcfg := map[string]string{"lfs.url": srv.URL + "/api", "lfs.concurrenttransfers": "1",
		"lfs.transfer.maxretries": "4", "lfs.transfer.maxretrydelay": "1"}
	c, err := lfsapi.NewClient(lfshttp.NewContext(nil, nil, gitcfg))
	if err != nil {
		emit(expEvent{Ev: "done", Result: "infra: " + err.Error()})
		return
	}
	defer c.Close()
	lfsdir := filepath.Join(dir, "lfs")
	f := fs.New(c.OSEnv(), dir, dir, lfsdir, 0644)
	dirn := tq.Upload
	op := "upload"
	if scenario == "download-behind-slow" {
		dirn, op = tq.Download, "download"
	}
	m := tq.NewManifest(f, c, op, "origin")
	q := tq.NewTransferQueue(dirn, m, "origin")
	for i, oid := range order {
		p, _ := f.ObjectPath(oid)
		if dirn == tq.Upload {
			os.MkdirAll(filepath.Dir(p), 0755)
			os.WriteFile(p, objects[oid], 0644)
		}
		q.Add(fmt.Sprintf("obj-%d.bin", i), p, oid, int64(len(objects[oid])), false, nil)
	}
	q.Wait()
	res := "ok"
	for _, e := range q.Errors() {
		res = "fail: " + fmt.Sprintf("%.120s", e.Error())
	}
	// everything must have arrived all the same: expiry is no excuse for a lost transfer
	mu.Lock()
	for _, oid := range order {
		if dirn == tq.Upload {
			if _, ok := stored[oid]; !ok && res == "ok" {
				res = "fail: object not on the server although the queue reported no error"
			}
		} else {
			p, _ := f.ObjectPath(oid)
			if b, err := os.ReadFile(p); (err != nil || string(b) != string(objects[oid])) && res == "ok" {
				res = "fail: object not in local storage although the queue reported no error"
			}
		}
	}
	mu.Unlock()
	emit(expEvent{Ev: "done", Result: res, T: now()})
}
