//go:build verif

package main

// pointer sub-command: decodes each given byte string with lfs.DecodePointer
// and reports what came back; all judging happens in the orchestrator.

import (
	"bufio"
	"bytes"
	"encoding/base64"
	"encoding/json"
	"fmt"
	"os"

	"github.com/git-lfs/git-lfs/v3/lfs"
)

type ptrCase struct {
	ID  int    `json:"id"`
	B64 string `json:"b64"`
}
type ptrExt struct {
	P int    `json:"p"`
	N string `json:"n"` // base64 (names may be arbitrary bytes)
	O string `json:"o"`
	T string `json:"t"`
}
type ptrResult struct {
	ID        int      `json:"id"`
	Accepted  bool     `json:"accepted"`
	Err       string   `json:"err,omitempty"`
	Oid       string   `json:"oid,omitempty"`
	OidType   string   `json:"oidtype,omitempty"`
	Version   string   `json:"version,omitempty"`
	Size      int64    `json:"size"`
	Exts      []ptrExt `json:"exts,omitempty"`
	Canonical bool     `json:"canonical"`
	Encoded   string   `json:"encoded_b64"`
	Reenc     bool     `json:"reencode_roundtrip"` // Decode(Encoded(p)) == p with canonical flag set
	Panic     string   `json:"panic,omitempty"`
}

func decodeOne(c ptrCase) (r ptrResult) {
	r.ID = c.ID
	defer func() {
		if x := recover(); x != nil {
			r.Panic = fmt.Sprint(x)
		}
	}()
	b, _ := base64.StdEncoding.DecodeString(c.B64)
	p, err := lfs.DecodePointer(bytes.NewReader(b))
	if err != nil {
		r.Err = err.Error()
		if p != nil {
			r.Err = "error with non-nil pointer: " + r.Err
			r.Accepted = true
		}
		return
	}
	if p == nil {
		r.Err = "nil pointer without error"
		return
	}
	r.Accepted = true
	r.Oid, r.OidType, r.Version, r.Size, r.Canonical = p.Oid, p.OidType, p.Version, p.Size, p.Canonical
	for _, e := range p.Extensions {
		r.Exts = append(r.Exts, ptrExt{e.Priority, base64.StdEncoding.EncodeToString([]byte(e.Name)), e.Oid, e.OidType})
	}
	enc := p.Encoded()
	r.Encoded = base64.StdEncoding.EncodeToString([]byte(enc))
	if p2, err := lfs.DecodePointer(bytes.NewReader([]byte(enc))); err == nil && p2 != nil {
		same := p2.Oid == p.Oid && p2.Size == p.Size && len(p2.Extensions) == len(p.Extensions) && p2.Canonical
		for i := range p2.Extensions {
			if !same {
				break
			}
			a, b := p2.Extensions[i], p.Extensions[i]
			same = a.Priority == b.Priority && a.Name == b.Name && a.Oid == b.Oid
		}
		r.Reenc = same
	}
	return
}

func cmdPointer(args []string) {
	in, err := os.Open(args[0])
	if err != nil {
		fmt.Fprintln(os.Stderr, err)
		os.Exit(4)
	}
	out, _ := os.Create(args[1])
	defer out.Close()
	w := bufio.NewWriter(out)
	defer w.Flush()
	enc := json.NewEncoder(w)
	sc := bufio.NewScanner(in)
	sc.Buffer(make([]byte, 1<<20), 1<<24)
	for sc.Scan() {
		var c ptrCase
		if json.Unmarshal(sc.Bytes(), &c) != nil {
			continue
		}
		enc.Encode(decodeOne(c))
	}
}
