//go:build verif

// lfsdrv is the library-level driver: it links the packages of /repo (built
// with -tags verif at check time) and exposes one sub-command per binding.
package main

import (
	"bytes"
	"fmt"
	"io"
	"os"
)

func bytesReader(b []byte) io.Reader { return bytes.NewReader(b) }

func main() {
	if len(os.Args) < 2 {
		fmt.Fprintln(os.Stderr, "usage: lfsdrv <tq|...> args")
		os.Exit(4)
	}
	switch os.Args[1] {
	case "pointer":
		cmdPointer(os.Args[2:])
	case "cred":
		cmdCred(os.Args[2:])
	case "auth":
		cmdAuth(os.Args[2:])
	case "schema":
		cmdSchema(os.Args[2:])
	case "dl":
		cmdDL(os.Args[2:])
	case "expiry":
		cmdExpiry(os.Args[2:])
	case "workers":
		cmdWorkers(os.Args[2:])
	case "sshsrv":
		cmdSSHSrv(os.Args[2:])
	case "agent":
		cmdAgent(os.Args[2:])
	case "tq":
		cmdTQ(os.Args[2:])
	default:
		fmt.Fprintln(os.Stderr, "unknown sub-command", os.Args[1])
		os.Exit(4)
	}
}
