//go:build verif

package main

// dl sub-command: plays storage-server scripts generated from spec/Download.tla
// to the real transfer queue + basic download adapter and reports what was
// left on disk.

import (
	"bufio"
	"crypto/sha256"
	"encoding/hex"
	"encoding/json"
	"fmt"
	"net/http"
	"net/http/httptest"
	"os"
	"path/filepath"
	"sort"
	"strings"
	"sync"
	"time"

	"github.com/git-lfs/git-lfs/v3/fs"
	"github.com/git-lfs/git-lfs/v3/lfsapi"
	"github.com/git-lfs/git-lfs/v3/lfshttp"
	"github.com/git-lfs/git-lfs/v3/tq"
)

type dlAnswer struct {
	Status int    `json:"status"`
	Body   string `json:"body"`
	Range  string `json:"range"`
	Cut    int    `json:"cut"`
}
type dlScript struct {
	ID     int        `json:"id"`
	Part   string     `json:"part"`
	Script []dlAnswer `json:"script"`
	MaxReq int        `json:"maxreq"`
	Final0 string     `json:"final0"` // "stale": a file of the object's size with other bytes sits at the final place
	// custom adapter: the messages the transfer agent answers a download request with
	Adapter string     `json:"adapter"`
	Msgs    []agentMsg `json:"msgs"`
	// ssh adapter: the answers the far side gives to get-object
	Answers []sshAnswer `json:"answers"`
}
type agentMsg struct {
	Ev   string `json:"ev"`   // progress | complete | bogus | garbage | eof
	Oid  string `json:"oid"`  // right | wrong
	Err  bool   `json:"err"`
	File string `json:"file"` // exact | prefix | extra | flip | other | empty | nofile
}

// cmdAgent is the custom transfer agent: line-delimited JSON on stdin/stdout, answers every
// download request with the scripted messages, then (if the script did not complete the
// transfer) closes its output.
func cmdAgent(args []string) {
	var msgs []agentMsg
	b, _ := os.ReadFile(args[0])
	json.Unmarshal(b, &msgs)
	dir := args[1]
	content := dlContent()
	in := bufio.NewReader(os.Stdin)
	out := bufio.NewWriter(os.Stdout)
	for {
		line, err := in.ReadString('\n')
		if err != nil {
			return
		}
		var req struct {
			Event string `json:"event"`
			Oid   string `json:"oid"`
		}
		json.Unmarshal([]byte(line), &req)
		switch req.Event {
		case "init":
			out.WriteString("{}\n")
			out.Flush()
		case "terminate":
			return
		case "download":
			for _, m := range msgs {
				oid := req.Oid
				if m.Oid == "wrong" {
					oid = strings.Repeat("ab", 32)
				}
				switch m.Ev {
				case "progress":
					fmt.Fprintf(out, `{"event":"progress","oid":"%s","bytesSoFar":1000,"bytesSinceLast":1000}`+"\n", oid)
				case "complete":
					var body []byte
					switch m.File {
					case "exact":
						body = content
					case "prefix":
						body = content[:3*cell]
					case "extra":
						body = append(append([]byte{}, content...), make([]byte, cell)...)
					case "flip":
						body = append([]byte{}, content...)
						body[2*cell+500] ^= 1
					case "other":
						body = make([]byte, len(content))
					case "empty":
						body = []byte{}
					}
					path := filepath.Join(dir, "agent-file")
					os.Remove(path)
					if m.File != "nofile" {
						os.WriteFile(path, body, 0644)
					}
					msg := map[string]interface{}{"event": "complete", "oid": oid, "path": path}
					if m.Err {
						msg["error"] = map[string]interface{}{"code": 2, "message": "scripted failure"}
					}
					jb, _ := json.Marshal(msg)
					out.Write(jb)
					out.WriteString("\n")
				case "bogus":
					fmt.Fprintf(out, `{"event":"celebrate","oid":"%s"}`+"\n", oid)
				case "garbage":
					out.WriteString("this is not json\n")
				case "eof":
					out.Flush()
					return
				}
				out.Flush()
			}
			// script exhausted without completing: nothing more will come
			out.Flush()
			return
		}
	}
}
type dlResult struct {
	ID         int      `json:"id"`
	Result     string   `json:"result"`
	Final      string   `json:"final"` // absent | valid | corrupt
	FinalLen   int      `json:"final_len"`
	PartLen    int      `json:"part_len"` // -1: no .part
	Leftovers  []string `json:"leftovers"`
	Ranges     []int    `json:"ranges"` // start offset of each storage request (0: no Range header)
	Errors     []string `json:"errors"`
	StrayFiles []string `json:"stray_files"` // anything under lfs/ outside objects/ and incomplete/
	Ms         int      `json:"ms"`
}

const cell = 1000

// The object has five cells: four of 1000 bytes and a last one of a single byte, so that the
// abstract "part of size-1" (four cells) is exactly one byte short, as in `have < size-1`.
func dlContent() []byte {
	b := make([]byte, 4*cell+1)
	for i := range b {
		b[i] = byte(i*7 + i/13 + 1)
	}
	return b
}

func runDL(sc *dlScript, base string) dlResult {
	content := dlContent()
	sum := sha256.Sum256(content)
	oid := hex.EncodeToString(sum[:])
	res := dlResult{ID: sc.ID, PartLen: -1}
	var mu sync.Mutex
	i := 0
	var srv *httptest.Server
	srv = httptest.NewServer(http.HandlerFunc(func(w http.ResponseWriter, r *http.Request) {
		if strings.HasSuffix(r.URL.Path, "/objects/batch") {
			w.Header().Set("Content-Type", "application/vnd.git-lfs+json")
			transfer := "basic"
			if sc.Adapter == "custom" {
				transfer = "verifagent"
			}
			json.NewEncoder(w).Encode(map[string]interface{}{"transfer": transfer, "objects": []map[string]interface{}{{"oid": oid, "size": len(content),
				"actions": map[string]interface{}{"download": map[string]string{"href": srv.URL + "/store/" + oid}}}}})
			return
		}
		mu.Lock()
		from := 0
		fmt.Sscanf(r.Header.Get("Range"), "bytes=%d-", &from)
		res.Ranges = append(res.Ranges, from)
		if i >= len(sc.Script) {
			mu.Unlock()
			w.WriteHeader(500)
			return
		}
		s := sc.Script[i]
		i++
		mu.Unlock()
		var body []byte
		switch s.Body {
		case "exact":
			body = content
		case "suffix":
			body = content[from:]
		case "wrongsuffix":
			if from+cell <= len(content) {
				body = content[from+cell:]
			} else {
				body = []byte{}
			}
		case "prefix":
			body = content[:3*cell]
		case "extra":
			body = append(append([]byte{}, content...), make([]byte, cell)...)
		case "flip":
			body = append([]byte{}, content...)
			body[2*cell+500] ^= 1
		default:
			body = make([]byte, len(content))
		}
		switch s.Range {
		case "right":
			w.Header().Set("Content-Range", fmt.Sprintf("bytes %d-%d/%d", from, len(content)-1, len(content)))
		case "wrong":
			w.Header().Set("Content-Range", fmt.Sprintf("bytes %d-%d/%d", from+cell, len(content)-1, len(content)))
		case "malformed":
			w.Header().Set("Content-Range", "garbage")
		}
		if s.Status != 200 && s.Status != 206 {
			w.WriteHeader(s.Status)
			return
		}
		if s.Cut > 0 && len(body) > s.Cut*cell {
			w.Header().Set("Content-Length", fmt.Sprint(len(body)))
			w.WriteHeader(s.Status)
			w.Write(body[:s.Cut*cell])
			w.(http.Flusher).Flush()
			if hj, ok := w.(http.Hijacker); ok {
				c, _, _ := hj.Hijack()
				c.Close()
			}
			return
		}
		w.Header().Set("Content-Length", fmt.Sprint(len(body)))
		w.WriteHeader(s.Status)
		w.Write(body)
	}))
	defer srv.Close()
	dir, _ := os.MkdirTemp(base, "dl-")
	defer os.RemoveAll(dir)
	gitcfg := map[string]string{"lfs.url": srv.URL + "/api",
		"lfs.transfer.maxretries": fmt.Sprint(sc.MaxReq), "lfs.transfer.maxretrydelay": "0"}
	if sc.Adapter == "custom" {
		mb, _ := json.Marshal(sc.Msgs)
		mf := filepath.Join(dir, "agent-msgs.json")
		os.WriteFile(mf, mb, 0644)
		self, _ := os.Executable()
		agentDir := filepath.Join(dir, "agent")
		os.MkdirAll(agentDir, 0755)
		gitcfg["lfs.customtransfer.verifagent.path"] = self
		gitcfg["lfs.customtransfer.verifagent.args"] = "agent " + mf + " " + agentDir
		gitcfg["lfs.customtransfer.verifagent.concurrent"] = "false"
	}
	sshLog := ""
	if sc.Adapter == "ssh" {
		ab, _ := json.Marshal(sc.Answers)
		af := filepath.Join(dir, "ssh-answers.json")
		os.WriteFile(af, ab, 0644)
		sshLog = af + ".log"
		self, _ := os.Executable()
		gitcfg["lfs.url"] = "ssh://git@verif.invalid/repo.git"
		gitcfg["core.sshcommand"] = self + " sshsrv " + af
		gitcfg["lfs.concurrenttransfers"] = "1"
		gitcfg["lfs.ssh.automultiplex"] = "false"
	}
	c, err := lfsapi.NewClient(lfshttp.NewContext(nil, nil, gitcfg))
	if err != nil {
		res.Result = "infra: " + err.Error()
		return res
	}
	defer c.Close()
	lfsdir := filepath.Join(dir, "lfs")
	f := fs.New(c.OSEnv(), dir, dir, lfsdir, 0644)
	inc := filepath.Join(lfsdir, "incomplete")
	os.MkdirAll(inc, 0755)
	partFile := filepath.Join(inc, oid+".part")
	switch sc.Part {
	case "prefix":
		os.WriteFile(partFile, content[:2*cell], 0644)
	case "garbage":
		os.WriteFile(partFile, make([]byte, 2*cell), 0644)
	case "almost":
		os.WriteFile(partFile, content[:4*cell], 0644)
	case "longer":
		os.WriteFile(partFile, append(append([]byte{}, content...), make([]byte, cell)...), 0644)
	}
	if sc.Final0 == "stale" {
		dstp, _ := f.ObjectPath(oid)
		os.MkdirAll(filepath.Dir(dstp), 0755)
		stale := make([]byte, len(content))
		for i := range stale {
			stale[i] = 0x55
		}
		os.WriteFile(dstp, stale, 0444)
	}
	t0 := time.Now()
	m := tq.NewManifest(f, c, "download", "origin")
	q := tq.NewTransferQueue(tq.Download, m, "origin")
	dst, _ := f.ObjectPath(oid)
	q.Add("object.bin", dst, oid, int64(len(content)), false, nil)
	q.Wait()
	res.Ms = int(time.Since(t0).Milliseconds())
	res.Result = "ok"
	for _, e := range q.Errors() {
		res.Result = "fail"
		res.Errors = append(res.Errors, fmt.Sprintf("%.160s", e.Error()))
	}
	res.Final = "absent"
	if b, err := os.ReadFile(dst); err == nil {
		res.FinalLen = len(b)
		s := sha256.Sum256(b)
		if hex.EncodeToString(s[:]) == oid {
			res.Final = "valid"
		} else if sc.Final0 == "stale" && len(b) == len(content) && b[0] == 0x55 && b[len(b)-1] == 0x55 {
			res.Final = "stale" // the file that was there before, untouched
		} else {
			res.Final = "corrupt"
		}
	}
	if sshLog != "" {
		if lb, err := os.ReadFile(sshLog); err == nil {
			for _, l := range strings.Split(string(lb), "\n") {
				if strings.HasPrefix(l, "get-object ") {
					res.Ranges = append(res.Ranges, 0)
				}
			}
		} else {
			res.Result = "infra: the scripted far side was never started: " + err.Error()
		}
	}
	if st, err := os.Stat(partFile); err == nil {
		res.PartLen = int(st.Size())
	}
	filepath.Walk(lfsdir, func(p string, info os.FileInfo, err error) error {
		if err != nil || info.IsDir() {
			return nil
		}
		rel, _ := filepath.Rel(lfsdir, p)
		switch {
		case p == dst || p == partFile:
		case strings.HasPrefix(rel, "incomplete"+string(filepath.Separator)):
			res.Leftovers = append(res.Leftovers, rel)
		case strings.HasPrefix(rel, "objects"+string(filepath.Separator)), strings.HasPrefix(rel, "tmp"+string(filepath.Separator)):
			res.StrayFiles = append(res.StrayFiles, rel)
		default:
			res.StrayFiles = append(res.StrayFiles, rel)
		}
		return nil
	})
	sort.Strings(res.Leftovers)
	return res
}

func cmdDL(args []string) {
	in, err := os.Open(args[0])
	if err != nil {
		fmt.Fprintln(os.Stderr, err)
		os.Exit(4)
	}
	out, _ := os.Create(args[1])
	defer out.Close()
	w := bufio.NewWriter(out)
	defer w.Flush()
	enc := json.NewEncoder(w)
	base, _ := filepath.Abs(filepath.Dir(args[1]))
	sc := bufio.NewScanner(in)
	sc.Buffer(make([]byte, 1<<20), 1<<24)
	for sc.Scan() {
		var s dlScript
		if json.Unmarshal(sc.Bytes(), &s) != nil {
			continue
		}
		enc.Encode(runDL(&s, base))
	}
}
