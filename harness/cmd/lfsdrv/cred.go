//go:build verif

package main

// cred sub-command: pushes credential maps through the exported path of the
// creds package (NewCredentialHelperContext -> GetCredentialHelper ->
// FillCreds / Approve / Reject) with a recording `git` shim first on PATH,
// and reports the raw bytes the shim received on stdin.

import (
	"bufio"
	"encoding/base64"
	"encoding/json"
	"fmt"
	"net/url"
	"os"
	"path/filepath"

	"github.com/git-lfs/git-lfs/v3/config"
	"github.com/git-lfs/git-lfs/v3/creds"
)

type credCase struct {
	ID      int               `json:"id"`
	Protect bool              `json:"protect"`
	Op      string            `json:"op"`
	Fields  map[string]string `json:"fields"` // base64 values; keys: protocol host path username password wwwauth[] state[]
	ViaURL  bool              `json:"via_url"`
	Prior   bool              `json:"prior"` // the context first serves another URL whose URL-scoped setting switches protection off
	Shape   map[string][]int  `json:"shape"` // multi-valued field -> [n, k]: n entries, the given value being entry k (1-based), "x" elsewhere
}

// entries expands a multi-valued field into its list
func (c credCase) entries(k, v string) []string {
	sh, ok := c.Shape[k]
	if !ok || len(sh) != 2 {
		return []string{v}
	}
	out := make([]string, sh[0])
	for i := range out {
		out[i] = "x"
	}
	out[sh[1]-1] = v
	return out
}
type credResult struct {
	ID       int    `json:"id"`
	Err      string `json:"err,omitempty"`
	Captured bool   `json:"captured"`
	Stdin    string `json:"stdin_b64"`
	Sub      string `json:"sub"`
	Panic    string `json:"panic,omitempty"`
	URLErr   string `json:"url_err,omitempty"`
}

func b64d(s string) string { b, _ := base64.StdEncoding.DecodeString(s); return string(b) }

func credOne(c credCase, shimDir string) (r credResult) {
	r.ID = c.ID
	defer func() {
		if x := recover(); x != nil {
			r.Panic = fmt.Sprint(x)
		}
	}()
	for _, sub := range []string{"fill", "approve", "reject"} {
		os.Remove(filepath.Join(shimDir, "capture."+sub))
	}
	f := map[string]string{}
	for k, v := range c.Fields {
		f[k] = b64d(v)
	}
	genv := map[string][]string{"lfs.cachecredentials": {"false"}}
	if !c.Protect {
		genv["credential.protectprotocol"] = []string{"false"}
	}
	if _, ok := f["path"]; ok {
		genv["credential.usehttppath"] = []string{"true"}
	}
	if c.Prior {
		genv["credential.https://prior.example.com.protectprotocol"] = []string{"false"}
	}
	home, _ := os.MkdirTemp(shimDir, "home-")
	defer os.RemoveAll(home)
	osEnv := config.EnvironmentOf(config.MapFetcher(map[string][]string{"HOME": {home}}))
	ctx := creds.NewCredentialHelperContext(config.EnvironmentOf(config.MapFetcher(genv)), osEnv)
	var u *url.URL
	if c.ViaURL {
		s := f["protocol"] + "://"
		if un, ok := f["username"]; ok {
			s += url.User(un).String() + "@"
		}
		s += f["host"] + "/" + (&url.URL{Path: f["path"]}).EscapedPath()
		var err error
		u, err = url.Parse(s)
		if err != nil {
			r.URLErr = err.Error()
			return
		}
	} else {
		u = &url.URL{Scheme: f["protocol"], Host: f["host"], Path: "/" + f["path"]}
		if un, ok := f["username"]; ok {
			u.User = url.User(un)
		}
	}
	if v, ok := f["wwwauth[]"]; ok {
		ctx.SetWWWAuthHeaders(c.entries("wwwauth[]", v))
	}
	if v, ok := f["state[]"]; ok {
		ctx.SetStateFields(c.entries("state[]", v))
	}
	if c.Prior {
		pu, _ := url.Parse("https://prior.example.com/other/repo.git")
		ctx.GetCredentialHelper(nil, pu)
	}
	w := ctx.GetCredentialHelper(nil, u)
	var err error
	switch c.Op {
	case "fill":
		err = w.FillCreds()
	default:
		in := creds.Creds{}
		for k, v := range w.Input {
			in[k] = append([]string{}, v...)
		}
		if pw, ok := f["password"]; ok {
			in["password"] = []string{pw}
		}
		if c.Op == "approve" {
			err = w.CredentialHelper.Approve(in)
		} else {
			err = w.CredentialHelper.Reject(in)
		}
	}
	if err != nil {
		r.Err = err.Error()
	}
	for _, sub := range []string{"fill", "approve", "reject"} {
		if b, e := os.ReadFile(filepath.Join(shimDir, "capture."+sub)); e == nil {
			r.Captured = true
			r.Sub = sub
			r.Stdin = base64.StdEncoding.EncodeToString(b)
		}
	}
	return
}

// lfsdrv cred <cases.jsonl> <results.jsonl>   (env VERIF_SHIM_DIR; PATH must start with the shim)
func cmdCred(args []string) {
	shimDir := os.Getenv("VERIF_SHIM_DIR")
	in, err := os.Open(args[0])
	if err != nil || shimDir == "" {
		fmt.Fprintln(os.Stderr, "cred: bad input or VERIF_SHIM_DIR unset", err)
		os.Exit(4)
	}
	out, _ := os.Create(args[1])
	defer out.Close()
	w := bufio.NewWriter(out)
	defer w.Flush()
	enc := json.NewEncoder(w)
	sc := bufio.NewScanner(in)
	sc.Buffer(make([]byte, 1<<20), 1<<24)
	for sc.Scan() {
		var c credCase
		if json.Unmarshal(sc.Bytes(), &c) != nil {
			continue
		}
		enc.Encode(credOne(c, shimDir))
	}
}
