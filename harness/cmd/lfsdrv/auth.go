//go:build verif

package main

// auth sub-command: plays server scripts generated from spec/HttpAuth.tla to the
// real lfsapi.Client over four listeners (three TLS identities and the API host
// over plain http) and records every request the servers receive.

import (
	"bufio"
	"crypto/sha256"
	"encoding/base64"
	"encoding/hex"
	"path/filepath"
	"encoding/json"
	"fmt"
	"net/http"
	"net/http/httptest"
	"os"
	"strings"
	"sync"

	"github.com/git-lfs/git-lfs/v3/creds"
	"github.com/git-lfs/git-lfs/v3/fs"
	"github.com/git-lfs/git-lfs/v3/tq"
	"github.com/git-lfs/git-lfs/v3/lfsapi"
	"github.com/git-lfs/git-lfs/v3/lfshttp"
)

type authScript struct {
	ID      int                   `json:"id"`
	Mode    string                `json:"mode"`
	Source  string                `json:"source"`
	Answers map[string][][]string `json:"answers"`
	Kind    string                `json:"kind"`    // api (a batch request) | storage (a download through a batch action) | authd (the same, the action marked authenticated)
	ActHost string                `json:"acthost"` // storage: the identity the action's href names
	Form    string                `json:"form"`    // how redirects spell Location: abs | netpath | path
	Cache   bool                  `json:"cache"`   // the in-process credential cache stands in front of the helper
}

type authEvent struct {
	Ev     string `json:"ev"`
	ID     int    `json:"id,omitempty"`
	Kind   string `json:"kind,omitempty"`
	ActHost string `json:"acthost,omitempty"`
	Host   string `json:"host,omitempty"`
	Scheme string `json:"scheme,omitempty"`
	Auth   string `json:"auth,omitempty"`
	Result string `json:"result,omitempty"`
	After  string `json:"after,omitempty"` // the answer the previous request of this run got: start | unauth | redir
	N      int    `json:"n"`
}

type recHelper struct {
	names map[string]string // host:port -> abstract host
	emit  func(ev, host string)
}

func (h *recHelper) name(c creds.Creds) string { return h.names[creds.FirstEntryForKey(c, "host")] }

func (h *recHelper) Fill(in creds.Creds) (creds.Creds, error) {
	host := creds.FirstEntryForKey(in, "host")
	h.emit("fill", h.names[host])
	out := creds.Creds{}
	for k, v := range in {
		out[k] = v
	}
	out["username"] = []string{"u-" + h.names[host]}
	out["password"] = []string{"p"}
	return out, nil
}
func (h *recHelper) Reject(c creds.Creds) error  { h.emit("reject", h.name(c)); return nil }
func (h *recHelper) Approve(c creds.Creds) error { h.emit("approve", h.name(c)); return nil }

var storeContent = []byte("the bytes of the object a storage request downloads\n")
var storeOid = func() string { h := sha256.Sum256(storeContent); return hex.EncodeToString(h[:]) }()

func cmdAuth(args []string) {
	in, err := os.Open(args[0])
	if err != nil {
		fmt.Fprintln(os.Stderr, err)
		os.Exit(4)
	}
	out, _ := os.Create(args[1])
	defer out.Close()
	w := bufio.NewWriter(out)
	defer w.Flush()
	enc := json.NewEncoder(w)

	var mu sync.Mutex
	var cur *authScript
	cursor := map[string]int{}
	nreq := 0
	after := "start"
	urls := map[string]string{}
	names := map[string]string{}
	mk := func(name string, tls bool, useLocalhost bool) {
		h := http.HandlerFunc(func(rw http.ResponseWriter, r *http.Request) {
			mu.Lock()
			defer mu.Unlock()
			if cur != nil && (cur.Kind == "storage" || cur.Kind == "authd") && strings.HasSuffix(r.URL.Path, "/objects/batch") {
				// the batch call that hands out the action is not under test: always answered, never logged
				spell := []string{"Authorization", "authorization", "AUTHORIZATION"}[cur.ID%3]
				rw.Header().Set("Content-Type", "application/vnd.git-lfs+json")
				json.NewEncoder(rw).Encode(map[string]interface{}{"transfer": "basic", "objects": []map[string]interface{}{{"oid": storeOid, "size": len(storeContent), "authenticated": cur.Kind == "authd",
					"actions": map[string]interface{}{"download": map[string]interface{}{"href": urls[cur.ActHost] + "/store/" + storeOid,
						"header": map[string]string{spell: "Basic " + base64.StdEncoding.EncodeToString([]byte("u-act:p"))}}}}}})
				return
			}
			nreq++
			auth := "none"
			if a := r.Header.Get("Authorization"); strings.HasPrefix(a, "Basic ") {
				if b, err := base64.StdEncoding.DecodeString(a[6:]); err == nil {
					u := strings.SplitN(string(b), ":", 2)[0]
					auth = strings.TrimPrefix(u, "u-")
				}
			} else if a != "" {
				auth = "other-scheme"
			}
			scheme := "http"
			if tls {
				scheme = "https"
			}
			enc.Encode(authEvent{Ev: "req", Host: name, Scheme: scheme, Auth: auth, N: nreq, After: after})
			ans := []string{"ok", "-"}
			if cur != nil {
				l := cur.Answers[name]
				k := cursor[name]
				if k < len(l) {
					ans = l[k]
				} else if len(l) > 0 && l[len(l)-1][0] == "redir" {
					ans = l[len(l)-1] // a server that redirects keeps redirecting
				}
				cursor[name]++
			}
			if nreq > 50 {
				ans = []string{"ok", "-"} // budget: an unbounded chain is cut here and judged by the acceptor
			}
			after = ans[0]
			rw.Header().Set("Content-Type", "application/vnd.git-lfs+json")
			switch ans[0] {
			case "unauth":
				rw.Header().Set("Lfs-Authenticate", `Basic realm="verif"`)
				rw.Header().Set("WWW-Authenticate", `Basic realm="verif"`)
				rw.WriteHeader(401)
				rw.Write([]byte(`{"message":"credentials needed"}`))
			case "redir":
				loc := urls[ans[1]] + r.URL.Path
				if cur != nil {
					tgtTLS := strings.HasPrefix(urls[ans[1]], "https://")
					switch {
					case cur.Form == "path" && ans[1] == name:
						loc = r.URL.Path // same scheme, host and port
					case cur.Form == "netpath" && tgtTLS == tls:
						loc = "//" + strings.SplitN(urls[ans[1]], "://", 2)[1] + r.URL.Path // same scheme, this host and port
					}
				}
				rw.Header().Set("Location", loc)
				rw.WriteHeader(307)
			default:
				if cur != nil && (cur.Kind == "storage" || cur.Kind == "authd") {
					rw.Header().Set("Content-Type", "application/octet-stream")
					rw.Header().Set("Content-Length", fmt.Sprint(len(storeContent)))
					rw.WriteHeader(200)
					rw.Write(storeContent)
					return
				}
				rw.WriteHeader(200)
				rw.Write([]byte(`{"objects":[]}`))
			}
		})
		var s *httptest.Server
		if tls {
			s = httptest.NewTLSServer(h)
		} else {
			s = httptest.NewServer(h)
		}
		u := s.URL
		if useLocalhost {
			u = strings.Replace(u, "127.0.0.1", "localhost", 1)
		}
		urls[name] = u
		hostport := strings.SplitN(u, "://", 2)[1]
		names[hostport] = name
	}
	mk("api", true, false)
	mk("api2", true, false)
	mk("other", true, true)
	mk("plain", false, false)

	sc := bufio.NewScanner(in)
	sc.Buffer(make([]byte, 1<<20), 1<<24)
	for sc.Scan() {
		var s authScript
		if json.Unmarshal(sc.Bytes(), &s) != nil {
			continue
		}
		mu.Lock()
		cur = &s
		cursor = map[string]int{}
		nreq = 0
		after = "start"
		if s.Kind == "" {
			s.Kind = "api"
		}
		if s.ActHost == "" {
			s.ActHost = "api"
		}
		enc.Encode(authEvent{Ev: "reset", ID: s.ID, Kind: s.Kind, ActHost: s.ActHost})
		mu.Unlock()
		api := urls["api"] + "/repo.git/info/lfs"
		if s.Source == "urluser" {
			api = strings.Replace(api, "https://", "https://u-api:p@", 1)
		}
		cfg := map[string]string{"lfs.url": api, "http.sslverify": "false", "lfs.cachecredentials": "false",
			"lfs.transfer.maxretries": "1", "lfs.transfer.maxretrydelay": "1"}
		if s.Mode == "basic" {
			cfg["lfs."+urls["api"]+"/repo.git/info/lfs.access"] = "basic"
		}
		c, err := lfsapi.NewClient(lfshttp.NewContext(nil, map[string]string{"GIT_TERMINAL_PROMPT": "0"}, cfg))
		if err != nil {
			fmt.Fprintln(os.Stderr, "client:", err)
			os.Exit(4)
		}
		rec := &recHelper{names: names, emit: func(ev, host string) {
			mu.Lock()
			defer mu.Unlock()
			enc.Encode(authEvent{Ev: ev, Host: host, N: nreq})
		}}
		c.Credentials = rec
		if s.Cache {
			c.Credentials = creds.NewCredentialHelpers([]creds.CredentialHelper{creds.NewCredentialCacher(), rec})
		}
		result := "ok"
		func() {
			defer func() {
				if x := recover(); x != nil {
					result = fmt.Sprintf("panic: %v", x)
				}
			}()
			if s.Kind == "storage" || s.Kind == "authd" {
				dir, _ := os.MkdirTemp("", "authstore-")
				defer os.RemoveAll(dir)
				lfsdir := filepath.Join(dir, "lfs")
				f := fs.New(c.OSEnv(), dir, dir, lfsdir, 0644)
				m := tq.NewManifest(f, c, "download", "origin")
				q := tq.NewTransferQueue(tq.Download, m, "origin")
				dst, _ := f.ObjectPath(storeOid)
				q.Add("object.bin", dst, storeOid, int64(len(storeContent)), false, nil)
				q.Wait()
				if errs := q.Errors(); len(errs) > 0 {
					result = "error: " + errs[0].Error()
				} else {
					result = "status 200"
				}
				return
			}
			ep := c.Endpoints.Endpoint("download", "origin")
			req, err := c.NewRequest("POST", ep, "objects/batch", map[string]interface{}{"operation": "download", "objects": []interface{}{}})
			if err != nil {
				result = "newrequest: " + err.Error()
				return
			}
			res, err := c.DoAPIRequestWithAuth("origin", req)
			if err != nil {
				result = "error: " + err.Error()
			} else if res != nil {
				result = fmt.Sprintf("status %d", res.StatusCode)
				res.Body.Close()
			}
		}()
		mu.Lock()
		enc.Encode(authEvent{Ev: "done", ID: s.ID, Result: result, N: nreq})
		cur = nil
		mu.Unlock()
		c.Close()
	}
}
