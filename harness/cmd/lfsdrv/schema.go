//go:build verif

package main

// schema sub-command: validates request bodies against the JSON schemas that
// ship with the repository (tq/schemas, locking/schemas), using the JSON-schema
// library the repository itself vendors for its tests.

import (
	"bufio"
	"encoding/json"
	"fmt"
	"os"
	"path/filepath"

	"github.com/xeipuuv/gojsonschema"
)

type schemaIn struct {
	ID   int             `json:"id"`
	Kind string          `json:"kind"` // batch | lock | unlock
	Body json.RawMessage `json:"body"`
}

func cmdSchema(args []string) {
	repo := args[0]
	files := map[string]string{
		"batch":  filepath.Join(repo, "tq", "schemas", "http-batch-request-schema.json"),
		"lock":   filepath.Join(repo, "locking", "schemas", "http-lock-create-request-schema.json"),
		"unlock": filepath.Join(repo, "locking", "schemas", "http-lock-delete-request-schema.json"),
	}
	schemas := map[string]*gojsonschema.Schema{}
	for k, f := range files {
		s, err := gojsonschema.NewSchema(gojsonschema.NewReferenceLoader("file://" + f))
		if err != nil {
			fmt.Fprintln(os.Stderr, "schema", f, err)
			os.Exit(4)
		}
		schemas[k] = s
	}
	in, err := os.Open(args[1])
	if err != nil {
		fmt.Fprintln(os.Stderr, err)
		os.Exit(4)
	}
	out, _ := os.Create(args[2])
	defer out.Close()
	w := bufio.NewWriter(out)
	defer w.Flush()
	enc := json.NewEncoder(w)
	sc := bufio.NewScanner(in)
	sc.Buffer(make([]byte, 1<<20), 1<<24)
	for sc.Scan() {
		var x schemaIn
		if json.Unmarshal(sc.Bytes(), &x) != nil {
			continue
		}
		s, ok := schemas[x.Kind]
		if !ok {
			enc.Encode(map[string]interface{}{"id": x.ID, "ok": true, "note": "no schema"})
			continue
		}
		res, err := s.Validate(gojsonschema.NewBytesLoader(x.Body))
		if err != nil {
			enc.Encode(map[string]interface{}{"id": x.ID, "ok": false, "errors": []string{err.Error()}})
			continue
		}
		errs := []string{}
		for _, e := range res.Errors() {
			errs = append(errs, e.String())
		}
		enc.Encode(map[string]interface{}{"id": x.ID, "ok": res.Valid(), "errors": errs})
	}
}
