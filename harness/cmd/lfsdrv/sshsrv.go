//go:build verif

package main

// sshsrv sub-command: the far side of a pure-SSH connection.  git-lfs starts it
// through core.sshCommand in place of `ssh <host> git-lfs-transfer <path> <op>`;
// it speaks the git-lfs-transfer pkt-line protocol on stdin/stdout and answers
// every get-object with the next scripted answer of spec/SshDownload.tla.

import (
	"bufio"
	"encoding/json"
	"fmt"
	"io"
	"os"
	"strings"
)

type sshAnswer struct {
	Status int    `json:"status"`
	Size   string `json:"size"`  // right | other | missing | twice | bad | negative
	Frame  string `json:"frame"` // ok | nodelim | nostatus | eof
	Body   string `json:"body"`  // exact | prefix | extra | flip | other | empty
}

type pktIO struct {
	r *bufio.Reader
	w *bufio.Writer
}

func (p *pktIO) text(s string) { p.data([]byte(s + "\n")) }
func (p *pktIO) data(b []byte) { fmt.Fprintf(p.w, "%04x", len(b)+4); p.w.Write(b) }
func (p *pktIO) flush()        { p.w.WriteString("0000"); p.w.Flush() }
func (p *pktIO) delim()        { p.w.WriteString("0001") }

// read returns the next packet: kind 0 flush, 1 delim, 2 data.
func (p *pktIO) read() (int, []byte, error) {
	var hdr [4]byte
	if _, err := io.ReadFull(p.r, hdr[:]); err != nil {
		return 0, nil, err
	}
	var n int
	if _, err := fmt.Sscanf(string(hdr[:]), "%04x", &n); err != nil {
		return 0, nil, err
	}
	switch {
	case n == 0:
		return 0, nil, nil
	case n == 1:
		return 1, nil, nil
	case n < 4:
		return 0, nil, fmt.Errorf("bad length %d", n)
	}
	b := make([]byte, n-4)
	if _, err := io.ReadFull(p.r, b); err != nil {
		return 0, nil, err
	}
	return 2, b, nil
}

// request reads one request: command line, arguments, and (after a delimiter) lines.
func (p *pktIO) request() (cmd string, args, lines []string, err error) {
	seenDelim := false
	first := true
	for {
		k, b, e := p.read()
		if e != nil {
			return "", nil, nil, e
		}
		switch k {
		case 0:
			return cmd, args, lines, nil
		case 1:
			seenDelim = true
		default:
			s := strings.TrimSuffix(string(b), "\n")
			switch {
			case first:
				cmd = s
				first = false
			case seenDelim:
				lines = append(lines, s)
			default:
				args = append(args, s)
			}
		}
	}
}

func cmdSSHSrv(args []string) {
	var script []sshAnswer
	b, _ := os.ReadFile(args[0])
	json.Unmarshal(b, &script)
	logf, _ := os.OpenFile(args[0]+".log", os.O_APPEND|os.O_CREATE|os.O_WRONLY, 0644)
	defer logf.Close()
	// the cursor is shared by all connections of one scenario
	cursorFile := args[0] + ".cursor"
	next := func() (sshAnswer, bool) {
		n := 0
		if cb, err := os.ReadFile(cursorFile); err == nil {
			fmt.Sscanf(string(cb), "%d", &n)
		}
		os.WriteFile(cursorFile, []byte(fmt.Sprint(n+1)), 0644)
		if n >= len(script) {
			return sshAnswer{}, false
		}
		return script[n], true
	}
	content := dlContent()
	p := &pktIO{bufio.NewReader(os.Stdin), bufio.NewWriter(os.Stdout)}
	p.text("version=1")
	p.flush()
	for {
		cmd, cargs, lines, err := p.request()
		if err != nil {
			return
		}
		fmt.Fprintf(logf, "%s\n", cmd)
		switch {
		case cmd == "version 1":
			p.text("status 200")
			p.flush()
		case cmd == "quit":
			p.text("status 200")
			p.flush()
			return
		case cmd == "batch":
			_ = cargs
			p.text("status 200")
			p.text("hash-algo=sha256")
			p.delim()
			for _, l := range lines {
				p.text(l + " download")
			}
			p.flush()
		case strings.HasPrefix(cmd, "get-object "):
			a, ok := next()
			if !ok {
				a = sshAnswer{Status: 500, Size: "right", Frame: "ok", Body: "exact"}
			}
			if a.Frame == "nostatus" {
				p.text("size=4001") // an answer that does not begin with a status line
				p.delim()
				p.data(content)
				p.flush()
				continue
			}
			p.text(fmt.Sprintf("status %d", a.Status))
			if a.Status != 200 && a.Status != 206 {
				if a.Frame == "nodelim" {
					p.flush()
					continue
				}
				p.delim()
				p.data([]byte("scripted "))
				if a.Frame == "eof" {
					p.w.Flush()
					os.Exit(0)
				}
				p.data([]byte("failure"))
				p.flush()
				continue
			}
			switch a.Size {
			case "right":
				p.text(fmt.Sprintf("size=%d", len(content)))
			case "other":
				p.text("size=123")
			case "twice":
				p.text(fmt.Sprintf("size=%d", len(content)))
				p.text(fmt.Sprintf("size=%d", len(content)))
			case "bad":
				p.text("size=40x1")
			case "negative":
				p.text("size=-1")
			}
			if a.Frame == "nodelim" {
				p.flush()
				continue
			}
			p.delim()
			var body []byte
			switch a.Body {
			case "exact":
				body = content
			case "prefix":
				body = content[:3*cell]
			case "extra":
				body = append(append([]byte{}, content...), make([]byte, cell)...)
			case "flip":
				body = append([]byte{}, content...)
				body[2*cell+500] ^= 1
			case "other":
				body = make([]byte, len(content))
			case "empty":
				body = []byte{}
			}
			if a.Frame == "eof" {
				p.data(body[:2*cell])
				p.w.Flush()
				os.Exit(0)
			}
			for off := 0; off < len(body); off += cell {
				end := off + cell
				if end > len(body) {
					end = len(body)
				}
				p.data(body[off:end])
			}
			p.flush()
		default:
			p.text("status 400")
			p.flush()
		}
	}
}
