package main

// C19, directories: spec/TrackDirs.tla enumerates track / track again / untrack
// run from the root or from a sub-directory with patterns with and without a
// slash; after every step `git check-attr` over the whole universe of paths must
// report filter=lfs for exactly the paths the specification lists.

import (
	"encoding/json"
	"fmt"
	"os"
	"path/filepath"
	"sort"
	"strings"
	"sync"
	"time"

	"verif/harness/internal/core"
	"verif/harness/internal/gitenv"
)

type trackDirStep struct {
	A     string     `json:"a"`
	Dir   []string   `json:"dir"`
	Anch  bool       `json:"anch"`
	Comps []string   `json:"comps"`
	Lfs   [][]string `json:"lfs"`
}
type trackDirBehaviour struct {
	Steps []trackDirStep `json:"steps"`
	raw   []byte
}

var trackDirPaths = []string{"x.bin", "data/x.bin", "a/x.bin", "a/data/x.bin", "a/b/x.bin", "a/y.txt"}

func patternText(s trackDirStep) string {
	p := strings.Join(s.Comps, "/")
	if s.Anch && len(s.Comps) == 1 {
		p = "/" + p
	}
	return p
}

func replayTrackDirs(c *core.Ctx, lfsBin string, b *trackDirBehaviour, idx int) (*core.Violation, error) {
	root := filepath.Join(c.Work, fmt.Sprintf("td%d", idx))
	defer os.RemoveAll(root)
	env, err := gitenv.New(root, filepath.Dir(lfsBin))
	if err != nil {
		return nil, err
	}
	repo := filepath.Join(root, "repo")
	if err := env.InitRepo(repo, false); err != nil {
		return nil, err
	}
	for _, p := range trackDirPaths {
		os.MkdirAll(filepath.Dir(filepath.Join(repo, p)), 0o755)
		os.WriteFile(filepath.Join(repo, p), []byte("content of "+p+"\n"), 0o644)
	}
	readAttrs := func() string {
		var sb strings.Builder
		for _, d := range []string{"", "a"} {
			by, err := os.ReadFile(filepath.Join(repo, d, ".gitattributes"))
			if err == nil {
				fmt.Fprintf(&sb, "== %s/.gitattributes\n%s", d, by)
			}
		}
		return sb.String()
	}
	var cmds []string
	for i, s := range b.Steps {
		pat := patternText(s)
		dir := filepath.Join(append([]string{repo}, s.Dir...)...)
		args := []string{"track", pat}
		if s.A == "untrack" {
			args = []string{"untrack", pat}
		}
		before := readAttrs()
		r := env.RunIn(dir, []string{"GIT_LFS_TRACK_NO_INSTALL_HOOKS=1"}, nil, 60*time.Second, "git-lfs", args...)
		cmds = append(cmds, fmt.Sprintf("(in /%s) git lfs %s %q -> exit %d", strings.Join(s.Dir, "/"), args[0], pat, r.Code))
		after := readAttrs()
		mk := func(assertion, why string) *core.Violation {
			return &core.Violation{Assertion: assertion, Fields: map[string]string{"op": s.A, "layer": "directories", "from": "/" + strings.Join(s.Dir, "/"), "anchored": fmt.Sprint(s.Anch)},
				Detail: map[string]interface{}{"why": why, "behaviour": json.RawMessage(b.raw), "step": i, "commands": cmds, "gitattributes": after, "output": core.Tail(r.All(), 600)}}
		}
		if r.Code == -2 {
			return mk("command-terminates", "command did not finish"), nil
		}
		if s.A == "track-again" && before != after {
			return mk("track-twice-equals-once", "repeating the same track command changed a .gitattributes file"), nil
		}
		ca := env.RunIn(repo, nil, nil, 60*time.Second, "git", append([]string{"check-attr", "filter", "--"}, trackDirPaths...)...)
		if !ca.OK() {
			return nil, fmt.Errorf("check-attr: %s", ca.All())
		}
		got := []string{}
		for _, l := range strings.Split(strings.TrimSpace(ca.Stdout), "\n") {
			if strings.HasSuffix(l, ": filter: lfs") {
				got = append(got, strings.TrimSuffix(l, ": filter: lfs"))
			}
		}
		want := []string{}
		for _, p := range s.Lfs {
			want = append(want, strings.Join(p, "/"))
		}
		sort.Strings(got)
		sort.Strings(want)
		if strings.Join(got, ",") != strings.Join(want, ",") {
			v := mk("lfs-for-exactly-the-requested-paths", fmt.Sprintf("Git reports filter=lfs for %v, the user asked for %v", got, want))
			// classify what was observed, so that a recorded finding is matched on its own mechanism only
			cause := "unclassified"
			if s.A == "track" && strings.Contains(r.All(), "already supported") {
				cause = "already-supported-unexplained"
				for _, e := range b.Steps[:i] {
					if e.A == "track" && strings.Join(e.Dir, "/") == strings.Join(s.Dir, "/") && strings.Join(e.Comps, "/") == strings.Join(s.Comps, "/") && e.Anch && !s.Anch {
						cause = "already-supported-after-anchored-twin-in-same-directory"
					}
				}
			}
			v.Fields["cause"] = cause
			return v, nil
		}
	}
	return nil, nil
}

// runTrackDirs returns the number of behaviours replayed.
func runTrackDirs(c *core.Ctx, lfsBin string) int {
	cfg := "TrackDirs_q.cfg"
	if !c.Quick() {
		cfg = "TrackDirs_t.cfg"
	}
	r := c.TLC(core.TLCOpts{Module: "TrackDirs", Cfg: cfg, Workers: 4, Timeout: 20 * time.Minute})
	c.MustPass(r, "TrackDirs/"+cfg)
	var bs []*trackDirBehaviour
	if _, err := core.ReadBehaviours(r.OutFile, func(raw []byte) error {
		var b trackDirBehaviour
		if err := json.Unmarshal(raw, &b); err != nil {
			return err
		}
		b.raw = append([]byte{}, raw...)
		bs = append(bs, &b)
		return nil
	}); err != nil {
		c.Infra("read TrackDirs behaviours: %v", err)
	}
	if len(bs) < 50 {
		c.Infra("only %d TrackDirs behaviours", len(bs))
	}
	sort.Slice(bs, func(i, j int) bool { return fnvStr(string(bs[i].raw), c.Seed) < fnvStr(string(bs[j].raw), c.Seed) })
	if len(bs) > 1500 {
		bs = bs[:1500]
	}
	var mu sync.Mutex
	var infra error
	core.Parallel(len(bs), 14, func(i int) {
		v, err := replayTrackDirs(c, lfsBin, bs[i], i)
		if err != nil {
			mu.Lock()
			if infra == nil {
				infra = fmt.Errorf("TrackDirs behaviour %s: %v", bs[i].raw, err)
			}
			mu.Unlock()
			return
		}
		if v != nil {
			c.Report(*v)
		}
	})
	if infra != nil {
		c.Infra("%v", infra)
	}
	c.Set("directory_behaviours_replayed", len(bs))
	c.Set("directory_rule", "behaviours = per-edge output of spec/TrackDirs.tla: <= MaxOps of track / track again / untrack run from / or /a with patterns *.bin, x.bin, /x.bin, data/*.bin, data/x.bin; after every step git check-attr over six paths in four directories")
	return len(bs)
}
