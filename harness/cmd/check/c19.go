package main

// C19: track / untrack.  spec/Track.tla enumerates operation sequences over
// file names built from every character with a meaning in .gitattributes and
// lists, after every step, exactly which names must have filter=lfs; the
// harness runs the real commands and asks `git check-attr` about every name.

import (
	"bytes"
	"encoding/json"
	"fmt"
	"hash/fnv"
	"os"
	"path/filepath"
	"sort"
	"strings"
	"sync"
	"time"

	"verif/harness/internal/core"
	"verif/harness/internal/gitenv"
)

var trackChar = map[string]string{"a": "a", "sp": " ", "hash": "#", "bang": "!", "quote": "\"", "star": "*", "qmark": "?",
	"lbr": "[", "rbr": "]", "bslash": "\\", "tab": "\t", "nonascii": "é", "dot": ".", "uspace": "\u3000"}
var trackCharOrder = []string{"a", "sp", "hash", "bang", "quote", "star", "qmark", "lbr", "rbr", "bslash", "tab", "nonascii", "dot", "uspace"}

func renderName(cs []string) string {
	var sb strings.Builder
	for _, c := range cs {
		sb.WriteString(trackChar[c])
	}
	return sb.String()
}

type trackStep struct {
	A    string     `json:"a"`
	Name []string   `json:"name"`
	Kind string     `json:"kind"` // trackfails: which failing invocation
	Lfs  [][]string `json:"lfs"`
}
type trackBehaviour struct {
	Pre   string      `json:"pre"`
	Steps []trackStep `json:"steps"`
	raw   []byte
	hash  uint64
}

func allTrackNames(maxLen int) []string {
	var out []string
	var rec func(prefix []string)
	rec = func(prefix []string) {
		if len(prefix) > 0 {
			n := renderName(prefix)
			if n != "." && n != ".." {
				out = append(out, n)
			}
		}
		if len(prefix) == maxLen {
			return
		}
		for _, c := range trackCharOrder {
			rec(append(append([]string{}, prefix...), c))
		}
	}
	rec(nil)
	return out
}

const preCommented = "# a comment line\n[attr]mymacro text eol=lf\n*.txt mymacro\n\n*.md text\n"

// probes for the assignments of the patterns that were in .gitattributes beforehand
var otherProbes = []string{"x.txt", "y.md", "z.other", "w.zz"}

const preOneLine = "*.zz filter=lfs diff=lfs merge=lfs -text" // a file of a single line that is not terminated

// checkAttr returns the set of names with filter=lfs and a digest of the other probes' attributes.
func checkAttr(env *gitenv.Env, repo string, names []string) (map[string]bool, string, error) {
	var in bytes.Buffer
	for _, n := range names {
		in.WriteString(n)
		in.WriteByte(0)
	}
	for _, n := range otherProbes {
		in.WriteString(n)
		in.WriteByte(0)
	}
	r := env.RunIn(repo, nil, in.Bytes(), 60*time.Second, "git", "check-attr", "-z", "--stdin", "filter", "text", "eol")
	if !r.OK() {
		return nil, "", fmt.Errorf("check-attr: %s", r.All())
	}
	parts := strings.Split(r.Stdout, "\x00")
	lfs := map[string]bool{}
	var others []string
	for i := 0; i+2 < len(parts); i += 3 {
		path, attr, val := parts[i], parts[i+1], parts[i+2]
		if path == "x.txt" || path == "y.md" || path == "z.other" || path == "w.zz" {
			others = append(others, path+":"+attr+"="+val)
			continue
		}
		if attr == "filter" && val == "lfs" {
			lfs[path] = true
		}
	}
	return lfs, strings.Join(others, ";"), nil
}

func replayTrack(c *core.Ctx, lfsBin string, b *trackBehaviour, idx int, names []string) (*core.Violation, error) {
	root := filepath.Join(c.Work, fmt.Sprintf("t%d", idx))
	defer os.RemoveAll(root)
	env, err := gitenv.New(root, filepath.Dir(lfsBin))
	if err != nil {
		return nil, err
	}
	repo := filepath.Join(root, "repo")
	if err := env.InitRepo(repo, false); err != nil {
		return nil, err
	}
	attrs := filepath.Join(repo, ".gitattributes")
	switch b.Pre {
	case "commented":
		os.WriteFile(attrs, []byte(preCommented), 0o644)
	case "crlf":
		os.WriteFile(attrs, []byte(strings.ReplaceAll(preCommented, "\n", "\r\n")), 0o644)
	case "noeol": // the last line is not terminated
		os.WriteFile(attrs, []byte(strings.TrimSuffix(preCommented, "\n")), 0o644)
	case "oneline": // one unterminated line that tracks another pattern
		os.WriteFile(attrs, []byte(preOneLine), 0o644)
	case "oneline-plain": // one unterminated line without any LFS attribute
		os.WriteFile(attrs, []byte("*.md text"), 0o644)
	}
	_, othersBefore, err := checkAttr(env, repo, nil)
	if err != nil {
		return nil, err
	}
	var cmds []string
	for i, s := range b.Steps {
		name := renderName(s.Name)
		var args []string
		switch s.A {
		case "trackfile", "trackfile-again":
			args = []string{"track", "--filename", name}
		case "trackpattern", "trackpattern-again":
			args = []string{"track", name}
		case "untrackfile", "untrackpattern":
			args = []string{"untrack", name}
		case "trackfails":
			name = map[string]string{"dotgitattributes": ".gitattributes", "dotgitstar": ".git*", "missingfile": "*.dat"}[s.Kind]
			args = []string{"track", name}
			// .gitattributes is a file Git knows (that is what makes the pattern forbidden); gone.dat is in
			// the index and not in the work tree
			os.WriteFile(filepath.Join(repo, "gone.dat"), []byte("data\n"), 0o644)
			if r := env.Git(repo, "add", "--", ".gitattributes", "gone.dat"); !r.OK() {
				return nil, fmt.Errorf("git add: %s", r.All())
			}
			os.Remove(filepath.Join(repo, "gone.dat"))
		}
		prev, _ := os.ReadFile(attrs)
		r := env.RunIn(repo, []string{"GIT_LFS_TRACK_NO_INSTALL_HOOKS=1"}, nil, 60*time.Second, "git-lfs", args...)
		cmds = append(cmds, fmt.Sprintf("git lfs %q -> exit %d", args, r.Code))
		cur, _ := os.ReadFile(attrs)
		mk := func(assertion, why string, extra map[string]interface{}) *core.Violation {
			d := map[string]interface{}{"why": why, "behaviour": json.RawMessage(b.raw), "step": i, "name": name, "commands": cmds,
				"gitattributes": string(cur), "output": core.Tail(r.All(), 600)}
			for k, v := range extra {
				d[k] = v
			}
			return &core.Violation{Assertion: assertion, Fields: map[string]string{"op": s.A, "chars": strings.Join(s.Name, ","), "pre": b.Pre}, Detail: d}
		}
		got, others, err := checkAttr(env, repo, names)
		if err != nil {
			return nil, err
		}
		want := map[string]bool{}
		for _, n := range s.Lfs {
			want[renderName(n)] = true
		}
		var missing, extra []string
		for _, n := range names {
			if want[n] && !got[n] {
				missing = append(missing, n)
			}
			if !want[n] && got[n] {
				extra = append(extra, n)
			}
		}
		if len(missing) > 0 || len(extra) > 0 {
			a := "lfs-for-exactly-the-requested-paths"
			if strings.HasPrefix(s.A, "untrack") {
				a = "untrack-removes-exactly-the-requested"
			}
			v := mk(a, "git check-attr disagrees with what was asked for", map[string]interface{}{"should_be_lfs_but_is_not": missing, "is_lfs_but_should_not": extra})
			v.Fields["cause"] = trackCause(s.A, s.Name, name, missing, extra)
			if v.Fields["cause"] == "unclassified" && s.A == "trackfile" && i > 0 && len(missing) == 1 && missing[0] == name && len(extra) == 0 &&
				strings.Contains(r.All(), "already supported") && allChar(s.Name, "bslash") && allChar(b.Steps[i-1].Name, "bslash") && len(b.Steps[i-1].Name) == 2*len(s.Name) {
				// the name is, character for character, the escaped spelling of the name tracked just before
				v.Fields["cause"] = "backslashes-taken-for-the-escaped-spelling-of-a-tracked-name"
			}
			return v, nil
		}
		if others != othersBefore {
			return mk("other-patterns-unchanged", "attributes of unrelated patterns changed", map[string]interface{}{"before": othersBefore, "after": others}), nil
		}
		if strings.HasSuffix(s.A, "-again") && !bytes.Equal(prev, cur) {
			v := mk("track-is-idempotent", "re-running track with the same argument changed .gitattributes", map[string]interface{}{"before": string(prev)})
			v.Fields["cause"] = "unclassified"
			if s.A == "trackfile-again" && strings.Count(string(cur), "\n") == strings.Count(string(prev), "\n")+1 && (hasChar(s.Name, "hash") || hasChar(s.Name, "bslash")) {
				v.Fields["cause"] = "retrack-appends-duplicate-line-for-escaped-name"
			}
			return v, nil
		}
	}
	return nil, nil
}

func init() {
	registry["C19"] = func(c *core.Ctx, replay string) {
		c.Level = "exploration"
		lfs := c.BuildLFS()
		cfg, budget, maxLen := "Track_q.cfg", 700, 2
		if !c.Quick() {
			cfg, budget, maxLen = "Track_t.cfg", 12000, 3
		}
		r := c.TLC(core.TLCOpts{Module: "Track_MC", Cfg: cfg, Workers: 8, Timeout: 60 * time.Minute, HeapGB: 12})
		c.MustPass(r, "Track/"+cfg)
		c.Set("states", r.Distinct)
		c.Set("transitions", r.Generated)
		names := allTrackNames(maxLen)
		// all one-step behaviours; two-step behaviours stratified by (op1, op2, pre, character classes of the second name)
		var single []*trackBehaviour
		byClass := map[string][]*trackBehaviour{}
		total := 0
		if _, err := core.ReadBehaviours(r.OutFile, func(raw []byte) error {
			var b trackBehaviour
			if err := json.Unmarshal(raw, &b); err != nil {
				return err
			}
			total++
			b.raw = raw
			f := fnv.New64a()
			fmt.Fprintf(f, "%d|", c.Seed)
			f.Write(raw)
			b.hash = f.Sum64()
			if len(b.Steps) == 1 {
				if maxLen <= 2 || b.hash%4 == 0 {
					single = append(single, &b)
				}
				return nil
			}
			last := b.Steps[len(b.Steps)-1]
			cs := append([]string{}, last.Name...)
			sort.Strings(cs)
			// "the same again" and "track X, untrack X" are the two-step classes the property names; for them
			// the pre-existing file is folded into the class (its member is chosen by hash)
			pre := b.Pre
			same := fmt.Sprint(b.Steps[0].Name) == fmt.Sprint(last.Name)
			if strings.HasSuffix(last.A, "-again") || (same && strings.HasPrefix(last.A, "untrack")) {
				pre = "*"
			}
			// two names of which one begins with the other: a reader that cuts a pattern short confuses them
			fn, ln := b.Steps[0].Name, last.Name
			if !same && len(fn) != len(ln) && len(fn) > 0 && len(ln) > 0 {
				short, long := fn, ln
				if len(short) > len(long) {
					short, long = long, short
				}
				if fmt.Sprint(long[:len(short)]) == fmt.Sprint(short) {
					pre = "*"
					cs = append(cs, "prefix-of:"+strings.Join(long[len(short):], ","))
				}
			}
			k := b.Steps[0].A + "|" + last.A + "|" + pre + "|" + strings.Join(cs, ",")
			l := append(byClass[k], &b)
			if len(l) > 6 {
				sort.Slice(l, func(i, j int) bool { return l[i].hash < l[j].hash })
				l = l[:3]
			}
			byClass[k] = l
			return nil
		}); err != nil {
			c.Infra("read behaviours: %v", err)
		}
		bs := single
		keys := []string{}
		for k := range byClass {
			keys = append(keys, k)
		}
		sort.Slice(keys, func(i, j int) bool {
			return fnvStr(keys[i], c.Seed) < fnvStr(keys[j], c.Seed)
		})
		// the budget is for the two-step behaviours (every one-step behaviour is replayed anyway); classes
		// that end in the same command once more (idempotence, per character class) go first
		budget += len(single)
		for pass := 0; pass < 2; pass++ {
			for _, k := range keys {
				if len(bs) >= budget {
					break
				}
				named := strings.SplitN(k, "|", 4)[2] == "*"
				if named != (pass == 0) {
					continue
				}
				l := byClass[k]
				sort.Slice(l, func(i, j int) bool { return l[i].hash < l[j].hash })
				bs = append(bs, l[0])
			}
		}
		if len(bs) < 100 {
			c.Infra("only %d behaviours", len(bs))
		}
		c.Set("behaviours_emitted", total)
		c.Set("classes_two_step", len(byClass))
		c.Logf("replaying %d of %d behaviours over %d probe names", len(bs), total, len(names))
		var mu sync.Mutex
		var infra error
		core.Parallel(len(bs), 14, func(i int) {
			v, err := replayTrack(c, lfs, bs[i], i, names)
			if err != nil {
				mu.Lock()
				if infra == nil {
					infra = fmt.Errorf("behaviour %s: %v", bs[i].raw, err)
				}
				mu.Unlock()
				return
			}
			if v != nil {
				c.Report(*v)
			}
		})
		if infra != nil {
			c.Infra("%v", infra)
		}
		ndirs := runTrackDirs(c, lfs)
		c.Set("evaluations", len(bs)+ndirs)
		c.Set("distinct_nontrivial", len(bs))
		c.Set("probe_names", len(names))
		c.Set("rule", "behaviours = per-edge output of spec/Track.tla (sequences of <= MaxOps track/untrack operations over all names of <= MaxLen characters from 14 character classes and 4 glob patterns, 6 pre-existing .gitattributes classes: absent, comments and macros with LF or CRLF, last line unterminated, a single unterminated line with or without LFS attributes); every one-step behaviour is replayed, two-step ones stratified by (ops, pre-class, character classes); after each step git check-attr is asked about every name")
		for i := 0; i < len(bs); i += len(bs)/4 + 1 {
			c.Sample(json.RawMessage(bs[i].raw))
		}
		c.Assume("Git's own attribute lookup (git check-attr, git 2.39) is the authority on what a .gitattributes line means; names contain no '/' (nested directories and invocation from sub-directories are not yet modelled)")
	}
}

func hasChar(cs []string, c string) bool {
	for _, x := range cs {
		if x == c {
			return true
		}
	}
	return false
}

// trackCause classifies an observed disagreement so that known findings are matched on what was
// observed, not only on the input class: anything that does not fit a listed cause stays "unclassified".
func trackCause(op string, chars []string, name string, missing, extra []string) string {
	only := func(l []string, x string) bool { return len(l) == 1 && l[0] == x }
	switch {
	case strings.HasPrefix(op, "untrack"):
		if len(missing) == 0 && only(extra, name) && (hasChar(chars, "star") || hasChar(chars, "qmark") || hasChar(chars, "lbr") ||
			hasChar(chars, "rbr") || hasChar(chars, "bslash")) {
			return "untrack-cannot-name-literal-with-glob-characters"
		}
		if len(missing) == 0 && only(extra, name) && len(chars) >= 2 && chars[0] == "dot" && chars[1] == "hash" {
			return "untrack-trims-dot-backslash-of-escaped-line"
		}
	case op == "trackfile" || op == "trackpattern":
		if hasChar(chars, "tab") {
			return "tab-in-name-not-escaped"
		}
		if op == "trackfile" && chars[0] == "bang" && only(missing, name) && len(extra) == 0 {
			return "leading-bang-not-escaped"
		}
		if op == "trackfile" && chars[0] == "quote" && only(missing, name) && len(extra) == 0 {
			return "leading-quote-read-as-c-quoting"
		}
		if op == "trackfile" && len(chars) >= 2 && chars[0] == "dot" && chars[1] == "bslash" && only(missing, name) && len(extra) == 0 {
			return "dot-backslash-trimmed-as-current-directory"
		}
		if hasChar(chars, "sp") && len(missing) == 0 && len(extra) > 0 {
			ok := true
			for _, e := range extra {
				if !strings.Contains(e, "\t") {
					ok = false
				}
			}
			if ok {
				return "space-escape-also-matches-tab"
			}
		}
	}
	return "unclassified"
}

func allChar(l []string, x string) bool {
	for _, c := range l {
		if c != x {
			return false
		}
	}
	return len(l) > 0
}

func fnvStr(s string, seed int64) uint64 {
	f := fnv.New64a()
	fmt.Fprintf(f, "%d|%s", seed, s)
	return f.Sum64()
}
