package main

// C14: filter-process sessions.  spec/FilterProcess.tla generates request
// programs that obey Git's client grammar; the harness plays each to the real
// `git-lfs filter-process` through the pkt-line client, then plays Git's second
// phase (list_available_blobs / retrieve until the list is empty), and the
// recorded exchanges are validated by TLC against spec/FilterProcessTrace.tla.

import (
	"bufio"
	"encoding/json"
	"fmt"
	"math/rand"
	"os"
	"os/exec"
	"path/filepath"
	"sort"
	"strings"
	"sync"
	"time"

	"verif/harness/internal/core"
	"verif/harness/internal/gitenv"
	"verif/harness/internal/lfsserver"
	"verif/harness/internal/pkt"
)

type fpReq struct {
	Cmd   string `json:"cmd"`
	What  string `json:"what"`
	Delay bool   `json:"delay"`
}
type fpProg struct {
	Prog     []fpReq `json:"prog"`
	CapDelay bool    `json:"capDelay"`
	SkipErr  bool    `json:"skipErr"`
	Off      string  `json:"off"` // smudging switched off for the session: no | skip | exclude
	hash     uint64
	raw      string
}

func fpObject(name string, seed int64) []byte {
	rng := rand.New(rand.NewSource(seed*977 + int64(len(name))*31 + int64(name[len(name)-1])))
	b := make([]byte, 2500+rng.Intn(500))
	rng.Read(b)
	return b
}

func framing(r pkt.Response, timedOut bool) string {
	switch {
	case timedOut:
		return "timeout"
	case r.Died:
		return "died"
	case r.ProtoErr != "":
		return "bad: " + r.ProtoErr
	}
	return "ok"
}

func runFPSession(c *core.Ctx, lfsBin string, p *fpProg, idx int) ([]map[string]interface{}, error) {
	root := filepath.Join(c.Work, fmt.Sprintf("p%d", idx))
	defer os.RemoveAll(root)
	env, err := gitenv.New(root, filepath.Dir(lfsBin))
	if err != nil {
		return nil, err
	}
	srv, err := lfsserver.New()
	if err != nil {
		return nil, err
	}
	defer srv.Close()
	repo := filepath.Join(root, "repo")
	if err := env.InitRepo(repo, false); err != nil {
		return nil, err
	}
	os.WriteFile(filepath.Join(repo, ".git", "info", "attributes"), []byte("*.bin filter=lfs diff=lfs merge=lfs -text\n"), 0o644)
	for _, a := range [][]string{{"config", "lfs.url", srv.LFSURL("fp", "")}, {"config", "lfs.transfer.maxretries", "1"}, {"config", "lfs.transfer.maxretrydelay", "0"},
		{"config", "lfs.skipdownloaderrors", fmt.Sprint(p.SkipErr)}, {"remote", "add", "origin", "https://example.invalid/x.git"}} {
		if r := env.Git(repo, a...); !r.OK() {
			return nil, fmt.Errorf("setup: %s", r.All())
		}
	}
	content := map[string][]byte{}
	hexOf := map[string]string{}
	for _, o := range []string{"oL", "oS", "oS2", "oM"} {
		content[o] = fpObject(o, c.Seed)
		hexOf[o] = core.Sha(content[o])
	}
	for _, o := range []string{"oL", "oS", "oS2"} {
		srv.Put("fp", content[o])
	}
	lp := gitenv.LocalObjectPath(filepath.Join(repo, ".git"), hexOf["oL"])
	os.MkdirAll(filepath.Dir(lp), 0o755)
	os.WriteFile(lp, content["oL"], 0o444)
	ptr := func(o string) []byte { return []byte(canonPointer(hexOf[o], len(content[o]))) }

	caps := []string{"clean", "smudge"}
	if p.CapDelay {
		caps = append(caps, "delay")
	}
	cmd := exec.Command(filepath.Join(env.BinDir, "git-lfs"), "filter-process")
	cmd.Dir = repo
	cmd.Env = append(env.Environ(), "GIT_TERMINAL_PROMPT=0")
	switch p.Off {
	case "skip":
		cmd.Env = append(cmd.Env, "GIT_LFS_SKIP_SMUDGE=1")
	case "exclude":
		if r := env.Git(repo, "config", "lfs.fetchexclude", "*.bin"); !r.OK() {
			return nil, fmt.Errorf("setup: %s", r.All())
		}
	}
	sess, err := pkt.Start(cmd, caps)
	if err != nil {
		return nil, err
	}
	events := []map[string]interface{}{{"ev": "reset", "capDelay": p.CapDelay, "skipErr": p.SkipErr, "off": p.offOrNo(), "prog": p.raw}}
	classify := func(b []byte, o string, input []byte) string {
		switch {
		case o != "" && string(b) == string(content[o]):
			return "content"
		case o != "" && string(b) == string(ptr(o)):
			return "pointer"
		case input != nil && len(input) > 0 && string(b) == canonPointer(core.Sha(input), len(input)):
			return "pointer-of-input"
		case input != nil && string(b) == string(input) && len(input) > 0:
			return "same-as-input"
		case len(b) == 0:
			return "empty"
		}
		return "other"
	}
	dead := false
	anyDelayed := false
	lastOid := ""
	pathOid := map[string]string{}
	for i, rq := range p.Prog {
		if dead {
			break
		}
		path := fmt.Sprintf("f%d.bin", i+1)
		if rq.Cmd == "clean" {
			var input []byte
			switch rq.What {
			case "data":
				input = fpObject("input"+path, c.Seed)
			case "pointer":
				input = ptr("oS")
			}
			r, to := sess.RequestT(60*time.Second, "clean", path, nil, input, 0, true)
			events = append(events, map[string]interface{}{"ev": "clean", "path": path, "what": rq.What, "status": r.Status, "final": r.FinalStatus,
				"out": classify(r.Content, "", input), "framing": framing(r, to)})
			dead = r.Died || to
			continue
		}
		o := map[string]string{"local": "oL", "server": "oS", "server2": "oS2", "missing": "oM", "shared": lastOid}[rq.What]
		lastOid = o
		pathOid[path] = o
		var extra []string
		if rq.Delay {
			extra = []string{"can-delay=1"}
		}
		r, to := sess.RequestT(60*time.Second, "smudge", path, extra, ptr(o), 0, true)
		events = append(events, map[string]interface{}{"ev": "smudge", "path": path, "oid": o, "candelay": rq.Delay, "status": r.Status, "final": r.FinalStatus,
			"out": classify(r.Content, o, nil), "framing": framing(r, to)})
		if r.Status == "delayed" {
			anyDelayed = true
		}
		dead = r.Died || to
	}
	// Git's second phase
	for round := 0; anyDelayed && !dead && round < 12; round++ {
		r, to := sess.RequestT(60*time.Second, "list_available_blobs", "", nil, nil, 0, false)
		paths := append([]string{}, r.Paths...)
		events = append(events, map[string]interface{}{"ev": "list", "paths": paths, "status": r.Status, "framing": framing(r, to)})
		if r.Died || to {
			dead = true
			break
		}
		if len(paths) == 0 {
			break
		}
		for _, pth := range paths {
			rr, to2 := sess.RequestT(60*time.Second, "smudge", pth, nil, nil, 0, true)
			o := pathOid[pth]
			events = append(events, map[string]interface{}{"ev": "retrieve", "path": pth, "oid": o, "status": rr.Status, "final": rr.FinalStatus,
				"out": classify(rr.Content, o, nil), "framing": framing(rr, to2)})
			if rr.Died || to2 {
				dead = true
				break
			}
		}
	}
	code := sess.Close()
	events = append(events, map[string]interface{}{"ev": "end", "exit": code, "stderr": core.Tail(sess.Stderr.String(), 300)})
	return events, nil
}

func init() {
	registry["C14"] = func(c *core.Ctx, replay string) {
		c.Level = "model_checking"
		lfs := c.BuildLFS()
		cfg, budget := "FilterProcess_q.cfg", 1300
		if !c.Quick() {
			cfg, budget = "FilterProcess_t.cfg", 12000
		}
		r := c.TLC(core.TLCOpts{Module: "FilterProcess", Cfg: cfg, Workers: 4, Timeout: 30 * time.Minute})
		c.MustPass(r, "FilterProcess/"+cfg)
		c.Set("states", r.Distinct)
		c.Set("transitions", r.Generated)
		seen := map[string]bool{}
		var progs []*fpProg
		if _, err := core.ReadBehaviours(r.OutFile, func(raw []byte) error {
			if seen[string(raw)] {
				return nil
			}
			seen[string(raw)] = true
			var p fpProg
			if err := json.Unmarshal(raw, &p); err != nil {
				return err
			}
			p.raw = string(raw)
			p.hash = fnvStr(p.raw, c.Seed)
			progs = append(progs, &p)
			return nil
		}); err != nil {
			c.Infra("read programs: %v", err)
		}
		total := len(progs)
		// keep every program with a delay or a missing object, fill with the rest by hash
		sort.Slice(progs, func(i, j int) bool {
			wi, wj := fpWeight(progs[i]), fpWeight(progs[j])
			if wi != wj {
				return wi > wj
			}
			return progs[i].hash < progs[j].hash
		})
		// sessions with smudging switched off take a quarter of the budget, heaviest first
		var on, offp []*fpProg
		for _, p := range progs {
			if p.offOrNo() == "no" {
				on = append(on, p)
			} else {
				offp = append(offp, p)
			}
		}
		if len(offp) > budget/4 {
			offp = offp[:budget/4]
		}
		if len(on) > budget-len(offp) {
			on = on[:budget-len(offp)]
		}
		progs = append(on, offp...)
		c.Logf("playing %d of %d programs", len(progs), total)
		all := make([][]map[string]interface{}, len(progs))
		var mu sync.Mutex
		var infra error
		core.Parallel(len(progs), 14, func(i int) {
			ev, err := runFPSession(c, lfs, progs[i], i)
			if err != nil {
				mu.Lock()
				if infra == nil {
					infra = err
				}
				mu.Unlock()
				return
			}
			all[i] = ev
		})
		if infra != nil {
			c.Infra("session: %v", infra)
		}
		trace := filepath.Join(c.Work, "fp.trace")
		var runOf []int
		{
			f, _ := os.Create(trace)
			w := bufio.NewWriter(f)
			enc := json.NewEncoder(w)
			for i, evs := range all {
				for _, e := range evs {
					enc.Encode(e)
					runOf = append(runOf, i)
				}
			}
			w.Flush()
			f.Close()
		}
		kinds := map[string]int{}
		for _, evs := range all {
			for _, e := range evs {
				kinds[fmt.Sprint(e["ev"])+":"+fmt.Sprint(e["status"])]++
			}
		}
		c.Set("exchanges_by_kind_and_status", kinds)
		if kinds["smudge:delayed"] == 0 || kinds["retrieve:success"] == 0 || kinds["list:success"] == 0 {
			c.Infra("vacuity: no delayed exchange was exercised: %v", kinds)
		}
		skip := map[int]bool{}
		validated := 0
		for iter := 0; iter < 30; iter++ {
			cur := filepath.Join(c.Work, fmt.Sprintf("fp-%d.trace", iter))
			idxMap := filterByRun(trace, cur, runOf, skip)
			ok, vr := c.ValidateTrace("FilterProcessTrace", "FilterProcessTrace.cfg", cur, false)
			if ok {
				validated = len(progs) - len(skip)
				break
			}
			if vr.Depth < 1 || vr.Depth-1 >= len(idxMap) {
				c.Infra("cannot attribute rejection at line %d", vr.Depth)
			}
			ri := runOf[idxMap[vr.Depth-1]]
			skip[ri] = true
			evb, _ := os.ReadFile(cur)
			var ev map[string]interface{}
			json.Unmarshal([]byte(strings.Split(string(evb), "\n")[vr.Depth-1]), &ev)
			assertion := "exchange-conforms"
			fr := fmt.Sprint(ev["framing"])
			switch {
			case strings.HasPrefix(fr, "bad"):
				assertion = "well-formed-status-content-status"
			case fr == "died" || fr == "timeout":
				assertion = "filter-stays-alive"
			case ev["ev"] == "list":
				assertion = "delayed-blobs-announced-exactly-once"
			case ev["ev"] == "retrieve":
				assertion = "retrieval-returns-the-content"
			case ev["ev"] == "end":
				assertion = "every-delayed-blob-completes"
			case ev["ev"] == "clean" || ev["ev"] == "smudge":
				assertion = "content-equals-one-shot-filter"
			}
			c.Report(core.Violation{Assertion: assertion, Fields: map[string]string{"event": fmt.Sprint(ev["ev"]), "capDelay": fmt.Sprint(progs[ri].CapDelay), "skipErr": fmt.Sprint(progs[ri].SkipErr), "off": progs[ri].offOrNo()},
				Detail: map[string]interface{}{"program": json.RawMessage(progs[ri].raw), "rejected_event": ev, "session": all[ri],
					"note": "the acceptor FilterProcessTrace has no action matching this exchange in the state reached by the session's earlier exchanges"}})
		}
		c.Set("traces_validated_against_impl", validated)
		c.Set("trace_events", len(runOf))
		c.Set("evaluations", len(progs))
		c.Set("distinct_nontrivial", len(progs))
		c.Set("rule", "programs = every sequence of <= MaxReq requests of spec/FilterProcess.tla (clean of data / pointer / empty input; smudge of a local, server-only, second server-only, missing or shared object, with and without can-delay) x delay capability x lfs.skipdownloaderrors; programs with a delay or a missing object first, the rest by hash; each followed by Git's list/retrieve phase")
		for i := 0; i < len(progs); i += len(progs)/4 + 1 {
			c.Sample(map[string]interface{}{"program": json.RawMessage(progs[i].raw), "session": all[i]})
		}
		c.Assume("payloads are sent in maximal packets here (packetisation is covered by C01/C08); equality with the one-shot filters is transitive through the shared byte-level oracle of C01/C08; programs of up to 4 requests, not 40")
	}
}

func (p *fpProg) offOrNo() string {
	if p.Off == "" {
		return "no"
	}
	return p.Off
}

func fpWeight(p *fpProg) int {
	w := 0
	if p.offOrNo() != "no" {
		// switched-off sessions matter where the object is at hand and Git allows a delay
		for _, r := range p.Prog {
			if r.Cmd == "smudge" && r.What == "local" {
				w++
				if r.Delay {
					w += 2
				}
			}
		}
		return w
	}
	for _, r := range p.Prog {
		if r.Delay {
			w += 2
		}
		if r.What == "missing" || r.What == "shared" {
			w++
		}
	}
	return w
}
