package main

// C13: fsck.  spec/Fsck.tla computes, for every explored history and damage,
// exactly which objects and pointers fsck must report, whether it must
// succeed, and what may move to lfs/bad; behaviours ending in an fsck are
// replayed and the command's output, exit status and the before/after state of
// the object store are compared.

import (
	"bytes"
	"encoding/json"
	"fmt"
	"os"
	"path/filepath"
	"regexp"
	"sort"
	"strings"
	"time"

	"verif/harness/internal/core"
	"verif/harness/internal/gitenv"
)

var (
	reFsckObj = regexp.MustCompile(`(?m)^objects: (openError|corruptObject): .*\(([0-9a-f]{64})\)`)
	reFsckPtr = regexp.MustCompile(`(?m)^pointer: (nonCanonicalPointer|unexpectedGitObject): (.*)$`)
)

func replayFsck(c *core.Ctx, lfsBin string, b *behaviour, idx int) (*core.Violation, error) {
	root := filepath.Join(c.Work, fmt.Sprintf("w%d", idx))
	defer os.RemoveAll(root)
	w, err := NewWorldOpts(root, filepath.Dir(lfsBin), c.Seed, WorldOpts{CommitAttrs: true, RawBig: b.hash%2 == 1, AttrsBig: (b.hash/2)%2 == 1})
	if err != nil {
		return nil, err
	}
	defer w.Close()
	for i, s := range b.steps {
		handled, err := applyRepoStep(w, s)
		if err != nil {
			return nil, fmt.Errorf("step %d %v: %v", i, s, err)
		}
		if handled {
			continue
		}
		if s.str("a") == "stage" {
			if err := w.Stage(s.str("p"), s.str("oid")); err != nil {
				return nil, fmt.Errorf("step %d %v: %v", i, s, err)
			}
			continue
		}
		if s.str("a") != "fsck" {
			return nil, fmt.Errorf("unknown step %v", s)
		}
		if ex := toStrings(s["excl"]); len(ex) > 0 {
			var pats []string
			for _, p := range ex {
				pats = append(pats, PathFile(p))
			}
			w.logf("git config lfs.fetchexclude %s", strings.Join(pats, ","))
			w.Env.Git(w.Clone, "config", "lfs.fetchexclude", strings.Join(pats, ","))
		}
		if in := toStrings(s["incl"]); len(in) > 0 {
			var pats []string
			for _, p := range in {
				pats = append(pats, PathFile(p))
			}
			w.logf("git config lfs.fetchinclude %s", strings.Join(pats, ","))
			w.Env.Git(w.Clone, "config", "lfs.fetchinclude", strings.Join(pats, ","))
		}
		// make sure no later git command re-cleans work-tree files (racy git): refresh the index
		w.Env.Git(w.Clone, "update-index", "-q", "--refresh")
		before := gitenv.ListObjects(w.GitDir())
		args := []string{"lfs", "fsck"}
		switch s.str("flag") {
		case "objects":
			args = append(args, "--objects")
		case "pointers":
			args = append(args, "--pointers")
		case "dry-run":
			args = append(args, "--dry-run")
		}
		switch s.str("scope") {
		case "tip":
			args = append(args, "HEAD^..HEAD")
		case "tip2":
			args = append(args, "HEAD~2..HEAD")
		}
		w.logf("git %s", strings.Join(args, " "))
		r := w.Env.RunIn(w.Clone, nil, nil, 120*time.Second, "git", args...)
		after := gitenv.ListObjects(w.GitDir())
		out := r.All()
		mk := func(assertion, why string) *core.Violation {
			return &core.Violation{Assertion: assertion, Fields: map[string]string{"flag": s.str("flag"), "scope": s.str("scope")},
				Detail: map[string]interface{}{"why": why, "behaviour": json.RawMessage(b.raw), "exit": r.Code, "output": core.Tail(out, 1500), "commands": w.Log}}
		}
		if r.Code == -2 {
			return mk("fsck-terminates", "fsck did not finish"), nil
		}
		// reported objects
		reported := map[string]string{}
		for _, m := range reFsckObj.FindAllStringSubmatch(out, -1) {
			reported[w.Abstract(m[2])] = m[1]
		}
		wantMissing, wantCorrupt := toSet(toStrings(s["missing"])), toSet(toStrings(s["corrupt"]))
		sharedTree := toSet(toStrings(s["sharedTree"]))
		unreported := func(o, kind string) *core.Violation {
			v := mk("reports-every-damaged-object", kind+" object "+o+" was not reported")
			v.Fields["cause"] = "unclassified"
			if sharedTree[o] {
				// the same pointer blob sits at an excluded and at a checked path of HEAD's tree
				v.Fields["cause"] = "same-pointer-blob-at-an-excluded-path-of-the-tree"
			}
			return v
		}
		for o := range wantMissing {
			if reported[o] == "" {
				return unreported(o, "missing"), nil
			}
		}
		for o := range wantCorrupt {
			if reported[o] == "" {
				return unreported(o, "corrupt"), nil
			}
		}
		mayReport, mayMove := toSet(toStrings(s["mayReport"])), toSet(toStrings(s["mayMove"]))
		for o := range reported {
			if !wantMissing[o] && !wantCorrupt[o] && !mayReport[o] {
				return mk("reports-nothing-else", "object "+o+" was reported ("+reported[o]+") although it is intact or out of scope"), nil
			}
		}
		// reported pointers
		nptr := len(reFsckPtr.FindAllStringSubmatch(out, -1))
		wantPtr := toStrings(s["badPointers"])
		mayPtr := toStrings(s["mayBadPointers"])
		if nptr < len(wantPtr) || nptr > len(wantPtr)+len(mayPtr) {
			// count paths: a path is reported once per tree entry
			return mk("reports-exactly-the-bad-pointers", fmt.Sprintf("%d pointer problems reported, the specification lists %v", nptr, wantPtr)), nil
		}
		ok, _ := s["ok"].(bool)
		reportedMay := false
		for o := range reported {
			if mayReport[o] {
				reportedMay = true // damage the range may or may not cover was reported: the exit status follows it
			}
		}
		if nptr > len(wantPtr) {
			reportedMay = true
		}
		if ok != (r.Code == 0) && !(ok && reportedMay) {
			return mk("exit-status-iff-clean", fmt.Sprintf("specification says ok=%v, exit code %d", ok, r.Code)), nil
		}
		// the store: intact objects untouched, corrupt ones moved (not deleted) unless --dry-run
		moved := toSet(toStrings(s["moved"]))
		bad := w.BadOids()
		for rel, by := range before {
			o := w.Abstract(filepath.Base(rel))
			now, still := after[rel]
			switch {
			case mayMove[o] && !still:
				// a corrupt object the range may cover was repaired: it must be under lfs/bad all the same
				if bb, ok := bad[o]; !ok || !bytes.Equal(bb, by) {
					return mk("corrupt-objects-moved-aside", "corrupt object "+o+" was removed but not preserved byte-identically under lfs/bad"), nil
				}
			case moved[o]:
				if still {
					return mk("corrupt-objects-moved-aside", "corrupt object "+o+" is still in the object store after the repair"), nil
				}
				if bb, ok := bad[o]; !ok || !bytes.Equal(bb, by) {
					return mk("corrupt-objects-moved-aside", "corrupt object "+o+" was not preserved byte-identically under lfs/bad"), nil
				}
			default:
				if !still || !bytes.Equal(now, by) {
					return mk("other-objects-untouched", "object "+o+" was changed or removed although it is not a corrupt object in scope (or --dry-run was given)"), nil
				}
			}
		}
		for rel := range after {
			if _, ok := before[rel]; !ok {
				return mk("other-objects-untouched", "fsck created "+rel), nil
			}
		}
	}
	return nil, nil
}

func init() {
	registry["C13"] = func(c *core.Ctx, replay string) {
		if replayBehaviourOnly(c, replay, replayFsck, "model_checking") {
			return
		}
		c.Level = "model_checking"
		lfs := c.BuildLFS()
		cfg, budget := "Fsck_q.cfg", 320
		if !c.Quick() {
			cfg, budget = "Fsck_t.cfg", 3000
		}
		gcfg := writeCfgVariant(c, cfg, "Fsck_gen.cfg", map[string]string{"Emit = FALSE": "Emit = TRUE"})
		r := c.TLC(core.TLCOpts{Module: "Fsck", Cfg: gcfg, Workers: 8, Timeout: 40 * time.Minute, HeapGB: 12})
		c.MustPass(r, "Fsck/"+cfg)
		c.Set("states", r.Distinct)
		c.Set("transitions", r.Generated)
		actionsSeen = map[string]int{}
		bs, total, nclasses := sampleFsck(c, r.OutFile, budget)
		requireActions(c, "commit", "damage", "stage", "fsck")
		c.Set("fsck_edges_emitted", total)
		c.Set("behaviour_classes", nclasses)
		c.Logf("replaying %d of %d fsck-edge behaviours (%d classes)", len(bs), total, nclasses)
		runBehaviours(c, lfs, bs, replayFsck, 14)
		c.Set("traces_validated_against_impl", len(bs))
		c.Set("evaluations", len(bs))
		c.Set("distinct_nontrivial", len(bs))
		c.Set("rule", "behaviours = per-edge output of spec/Fsck.tla for every edge ending in an fsck; one per class (flag x scope {HEAD + index, HEAD^..HEAD, HEAD~2..HEAD} x numbers of missing / corrupt / bad-pointer findings x damage kinds used x features incl. a staged new version, lfs.fetchexclude naming a path)")
		for i := 0; i < len(bs); i += len(bs)/4 + 1 {
			c.Sample(json.RawMessage(bs[i].raw))
		}
		c.Assume("tracking through a committed .gitattributes; work tree holds pointer files and the index is refreshed before fsck so that Git does not re-run the clean filter; revision arguments: none and HEAD^..HEAD (objects only); lfs.fetchexclude names nothing or the first path")
	}
}

func sampleFsck(c *core.Ctx, file string, budget int) ([]*behaviour, int, int) {
	byClass := map[string][]*behaviour{}
	total := 0
	if _, err := core.ReadBehaviours(file, func(raw []byte) error {
		var st []step
		if err := json.Unmarshal(raw, &st); err != nil {
			return err
		}
		if len(st) == 0 {
			return nil
		}
		total++
		feat := map[string]bool{}
		for _, s := range st {
			actionsSeen[s.str("a")]++
			switch s.str("a") {
			case "damage":
				feat["d:"+s.str("how")] = true
			case "merge":
				feat["merge"] = true
			case "stage":
				feat["stage"] = true
			case "commit":
				if s.str("b") != "main" {
					feat["branch"] = true
				}
				if s.str("blob") == "raw" || s.str("blob") == "none" || IsNonCanon(s.str("blob")) {
					feat["b:"+s.str("blob")] = true
				}
			}
		}
		last := st[len(st)-1]
		if len(toStrings(last["incl"])) > 0 {
			feat["incl"] = true
		}
		if len(toStrings(last["excl"])) > 0 {
			feat["excl"] = true
			badSet := toSet(toStrings(last["badObjects"]))
			for _, o := range toStrings(last["shared"]) {
				if badSet[o] {
					feat["excl-shared-bad"] = true // a damaged object of a checked file that also belongs to an excluded file
				}
			}
		}
		fs := []string{}
		for k := range feat {
			fs = append(fs, k)
		}
		sort.Strings(fs)
		k := fmt.Sprintf("%s|%s|m%d|c%d|p%d|%s", last.str("flag"), last.str("scope"), len(toStrings(last["missing"])), len(toStrings(last["corrupt"])),
			len(toStrings(last["badPointers"])), strings.Join(fs, ","))
		b := &behaviour{steps: st, raw: raw, class: k, hash: fnvStr(string(raw), c.Seed)}
		l := append(byClass[k], b)
		if len(l) > 4 {
			sort.Slice(l, func(i, j int) bool { return l[i].hash < l[j].hash })
			l = l[:2]
		}
		byClass[k] = l
		return nil
	}); err != nil {
		c.Infra("read behaviours: %v", err)
	}
	keys := []string{}
	for k := range byClass {
		keys = append(keys, k)
	}
	sort.Slice(keys, func(i, j int) bool { return fnvStr(keys[i], c.Seed) < fnvStr(keys[j], c.Seed) })
	var out []*behaviour
	for _, k := range keys {
		if len(out) >= budget {
			break
		}
		l := byClass[k]
		sort.Slice(l, func(i, j int) bool { return l[i].hash < l[j].hash })
		out = append(out, l[0])
	}
	return out, total, len(keys)
}
