package main

// C01 / C08: clean and smudge as functions of the input bytes.  spec/Filter.tla
// enumerates (content class x delivery x front-end x work-tree state) with the
// branch the filter must take; each case is concretised into bytes and run
// through the real git-lfs (one-shot filters fed through a pipe with real
// short reads, filter-process through the pkt-line client, git add/checkout).

import (
	"encoding/base64"
	"compress/gzip"
	"bytes"
	"encoding/json"
	"fmt"
	"io"
	"math/rand"
	"os"
	"os/exec"
	"path/filepath"
	"strings"
	"sync"
	"time"

	"verif/harness/internal/core"
	"verif/harness/internal/gitenv"
	"verif/harness/internal/pkt"
)

type filterCase struct {
	Content struct {
		Name string `json:"name"`
		Kind string `json:"kind"`
		Len  int    `json:"len"`
		WF   bool   `json:"wf"`
	} `json:"content"`
	Delivery string `json:"delivery"`
	Frontend string `json:"frontend"`
	Wt       string `json:"wt"`
	Ext      string `json:"ext"` // pointer extensions configured: none | rot13 | gzip | base64 | rot13+gzip
	Prev     string `json:"prev"` // what the same filter process cleaned just before: none | empty | shortdata | ptr
	Branch   string `json:"branch"`
}

// prevInput gives the bytes of the file the filter process served before the case's own, and what
// clean has to answer for it.
func prevInput(kind string) (in []byte, want []byte) {
	switch kind {
	case "empty":
		return []byte{}, []byte{}
	case "shortdata":
		in = []byte("ten bytes\n")
		return in, []byte(canonPointer(core.Sha(in), len(in)))
	case "ptr":
		in = []byte(canonPointer(core.Sha([]byte("the previous file")), 4711))
		return in, in
	}
	return nil, nil
}

// ---- pointer extensions (docs/extensions.md) ------------------------------------------------
// Each extension class is a chain of programs; undo is the inverse of the clean program, computed
// here in Go so that the oracle does not depend on the programs' exact output bytes.
type extProg struct {
	name, clean, smudge string
	undo                func([]byte) ([]byte, error)
	redo                func([]byte) []byte // nil: output not reproducible here (only allowed for the last of a chain)
}

func rot13(b []byte) []byte {
	o := make([]byte, len(b))
	for i, c := range b {
		switch {
		case c >= 'a' && c <= 'z':
			c = 'a' + (c-'a'+13)%26
		case c >= 'A' && c <= 'Z':
			c = 'A' + (c-'A'+13)%26
		}
		o[i] = c
	}
	return o
}

var extProgs = map[string]extProg{
	"rot13": {"rot", "/usr/bin/tr A-Za-z N-ZA-Mn-za-m", "/usr/bin/tr A-Za-z N-ZA-Mn-za-m",
		func(b []byte) ([]byte, error) { return rot13(b), nil }, rot13},
	"gzip": {"zip", "/usr/bin/gzip -n -c", "/usr/bin/gzip -d -c", func(b []byte) ([]byte, error) {
		zr, err := gzip.NewReader(bytes.NewReader(b))
		if err != nil {
			return nil, err
		}
		return io.ReadAll(zr)
	}, nil},
	"base64": {"b64", "/usr/bin/base64", "/usr/bin/base64 -d", func(b []byte) ([]byte, error) {
		return base64.StdEncoding.DecodeString(strings.ReplaceAll(string(b), "\n", ""))
	}, nil},
}

func extChain(class string) []extProg {
	var out []extProg
	if class == "" || class == "none" {
		return nil
	}
	for _, n := range strings.Split(class, "+") {
		out = append(out, extProgs[n])
	}
	return out
}

// checkExtPointer judges the clean output for content cleaned through a chain of extensions: ""
// if it is what docs/extensions.md prescribes, else what is wrong.  It returns the object's id.
func checkExtPointer(cleaned, input []byte, chain []extProg, objects map[string][]byte) (string, string) {
	lines := strings.Split(string(cleaned), "\n")
	if len(lines) < 4 || lines[len(lines)-1] != "" || lines[0] != "version https://git-lfs.github.com/spec/v1" {
		return "", "not a pointer in canonical form"
	}
	lines = lines[1 : len(lines)-1]
	var oid string
	var size int
	if _, err := fmt.Sscanf(lines[len(lines)-2]+" "+lines[len(lines)-1], "oid sha256:%64s size %d", &oid, &size); err != nil || len(oid) != 64 {
		return "", "oid / size lines missing or out of place"
	}
	stored, ok := objects[filepath.Join(oid[0:2], oid[2:4], oid)]
	if !ok {
		return oid, "no object under the pointer's id in local storage"
	}
	if core.Sha(stored) != oid || len(stored) != size {
		return oid, fmt.Sprintf("the pointer says (%s, %d), the stored object is (%s, %d)", oid[:12], size, core.Sha(stored)[:12], len(stored))
	}
	// undoing the chain on the stored object gives the input
	v := stored
	for i := len(chain) - 1; i >= 0; i-- {
		u, err := chain[i].undo(v)
		if err != nil {
			return oid, fmt.Sprintf("the stored object is not the output of extension %s: %v", chain[i].name, err)
		}
		v = u
	}
	if !bytes.Equal(v, input) {
		return oid, "undoing the extensions on the stored object does not give the input"
	}
	// one line per extension, naming the hash of that extension's input; pass-through ones may be left out
	extLines := lines[:len(lines)-2]
	in := input
	k := 0
	for i, e := range chain {
		// the number in the key gives the order of invocation: the documentation numbers its example by
		// priority; when a pass-through extension is left out, counting the written lines is as good
		want := fmt.Sprintf("ext-%d-%s sha256:%s", i, e.name, core.Sha(in))
		alt := fmt.Sprintf("ext-%d-%s sha256:%s", k, e.name, core.Sha(in))
		var outp []byte
		if e.redo != nil {
			outp = e.redo(in)
		}
		switch {
		case k < len(extLines) && (extLines[k] == want || extLines[k] == alt):
			k++
		case outp != nil && bytes.Equal(outp, in):
			// pass-through: the line may be omitted
		default:
			return oid, fmt.Sprintf("line %q missing or different (extension lines: %q)", want, extLines)
		}
		if outp == nil && i != len(chain)-1 {
			return oid, "harness: unreproducible extension in the middle of a chain"
		}
		in = outp
	}
	if k != len(extLines) {
		return oid, fmt.Sprintf("unexpected extension lines %q", extLines[k:])
	}
	return oid, ""
}

func canonPointer(oid string, size int) string {
	return fmt.Sprintf("version https://git-lfs.github.com/spec/v1\noid sha256:%s\nsize %d\n", oid, size)
}

// concretise returns the bytes of a content class and, for pointer classes, the length of the leading pointer text.
func concretise(name string, kind string, n int, seed int64) ([]byte, int) {
	rng := rand.New(rand.NewSource(seed*131 + int64(len(name))*7 + int64(n)))
	data := func(k int) []byte {
		b := make([]byte, k)
		rng.Read(b)
		return b
	}
	if kind == "data" {
		if strings.HasPrefix(name, "blank") {
			ws := " \t\r\n \n\n\n"
			if n == 1 {
				return []byte("\n"), 0
			}
			return []byte(strings.Repeat(ws, n/len(ws)+1)[:n]), 0
		}
		if strings.HasPrefix(name, "text") {
			var sb strings.Builder
			for sb.Len() < n {
				fmt.Fprintf(&sb, "line %d of some text file, seed %d\n", sb.Len(), seed)
			}
			return []byte(sb.String()[:n]), 0
		}
		return data(n), 0
	}
	oid := core.Sha([]byte(fmt.Sprintf("some other object %d", seed)))
	canon := canonPointer(oid, 12345)
	pl := len(canon)
	pad := func(total int) []byte {
		return []byte(canon + strings.Repeat("\n", total-len(canon)))
	}
	switch name {
	case "ptr_canon":
		return []byte(canon), pl
	case "ptr_crlf":
		return []byte(strings.ReplaceAll(canon, "\n", "\r\n")), pl + 3
	case "ptr_pad1023":
		return pad(1023), pl
	case "ptr_pad1024":
		return pad(1024), pl
	case "ptr_pad1025":
		return pad(1025), pl
	case "ptr_plus_byte":
		return []byte(canon + "x"), pl
	case "ptr_plus_line":
		return []byte(canon + "foo bar\n"), pl
	case "ptr_plus_64k":
		return append([]byte(canon), data(66000-pl)...), pl
	case "ptr_then_data_1500":
		return append([]byte(canon), data(1500-pl)...), pl
	case "ptr_upper_oid":
		return []byte(canonPointer(strings.ToUpper(oid), 12345)), pl
	case "ptr_short_oid":
		return []byte(canonPointer(oid[:63], 12345)), pl - 1
	case "ptr_md5_oid":
		return []byte(strings.Replace(canonPointer(oid[:32], 12345), "oid sha256:", "oid md5:", 1)), pl - 35
	case "ptr_neg_size":
		return []byte(strings.Replace(canon, "size 12345", "size -12345", 1)), pl + 1
	case "ptr_nonnum_size":
		return []byte(strings.Replace(canon, "size 12345", "size 12e45", 1)), pl
	case "ptr_ext_dash": // an extension whose name uses the other characters keys may use: . and -
		return []byte(fmt.Sprintf("version https://git-lfs.github.com/spec/v1\next-0-my-ext.v2 sha256:%s\noid sha256:%s\nsize 12345\n", core.Sha([]byte("ext")), oid)), pl
	case "ptr_ext":
		return []byte(fmt.Sprintf("version https://git-lfs.github.com/spec/v1\next-0-foo sha256:%s\noid sha256:%s\nsize 12345\n", core.Sha([]byte("ext")), oid)), pl
	case "ptr_legacy":
		return []byte(strings.Replace(canon, "https://git-lfs.github.com/spec/v1", "https://hawser.github.com/spec/v1", 1)), pl
	}
	return nil, 0
}

func chunksFor(delivery string, b []byte, ptrLen int) [][]byte {
	cut := func(at ...int) [][]byte {
		var out [][]byte
		prev := 0
		for _, a := range at {
			if a > prev && a < len(b) {
				out = append(out, b[prev:a])
				prev = a
			}
		}
		return append(out, b[prev:])
	}
	switch delivery {
	case "split1":
		return cut(1)
	case "split_mid":
		if ptrLen > 0 {
			return cut(ptrLen)
		}
		return cut(len(b) / 2)
	case "split1023":
		return cut(1023)
	case "split1024":
		return cut(1024)
	case "split1025":
		return cut(1025)
	case "bytes1":
		var at []int
		// single bytes through the pointer-sized prefix and around the 1024 cutoff
		for i := 1; i <= 140 && i < len(b); i++ {
			at = append(at, i)
		}
		for i := 1018; i <= 1030 && i < len(b); i++ {
			at = append(at, i)
		}
		return cut(at...)
	}
	return [][]byte{b}
}

// runPiped runs a one-shot filter feeding stdin in the given chunks with pauses, so that the
// filter really sees short reads.
func runPiped(env *gitenv.Env, dir string, chunks [][]byte, args ...string) (stdout []byte, stderr string, code int) {
	cmd := exec.Command(filepath.Join(env.BinDir, "git-lfs"), args...)
	cmd.Dir = dir
	cmd.Env = env.Environ()
	in, _ := cmd.StdinPipe()
	var so, se bytes.Buffer
	cmd.Stdout, cmd.Stderr = &so, &se
	if err := cmd.Start(); err != nil {
		return nil, err.Error(), -1
	}
	go func() {
		for i, c := range chunks {
			if len(chunks) > 1 {
				// deliver each chunk only once the filter is blocked in read(0): a real short read
				waitBlockedOnStdin(cmd.Process.Pid, 3*time.Second)
			}
			if _, err := in.Write(c); err != nil {
				break
			}
			if len(chunks) > 1 && i < len(chunks)-1 {
				// let the reader wake up and consume exactly this chunk before the next one is written
				waitNotBlockedOnStdin(cmd.Process.Pid, 50*time.Millisecond)
			}
		}
		in.Close()
	}()
	done := make(chan error, 1)
	go func() { done <- cmd.Wait() }()
	select {
	case err := <-done:
		code = 0
		if err != nil {
			code = -1
			if ee, ok := err.(*exec.ExitError); ok {
				code = ee.ExitCode()
			}
		}
	case <-time.After(60 * time.Second):
		cmd.Process.Kill()
		<-done
		code = -2
	}
	return so.Bytes(), se.String(), code
}

// waitBlockedOnStdin polls /proc/<pid>/task/*/syscall until some thread sits in read(fd 0).
func waitBlockedOnStdin(pid int, max time.Duration) bool {
	deadline := time.Now().Add(max)
	dir := fmt.Sprintf("/proc/%d/task", pid)
	for time.Now().Before(deadline) {
		ents, err := os.ReadDir(dir)
		if err != nil {
			return false
		}
		for _, e := range ents {
			b, err := os.ReadFile(filepath.Join(dir, e.Name(), "syscall"))
			if err == nil && strings.HasPrefix(string(b), "0 0x0 ") {
				return true
			}
		}
		time.Sleep(200 * time.Microsecond)
	}
	return false
}

func waitNotBlockedOnStdin(pid int, max time.Duration) {
	deadline := time.Now().Add(max)
	dir := fmt.Sprintf("/proc/%d/task", pid)
	for time.Now().Before(deadline) {
		ents, err := os.ReadDir(dir)
		if err != nil {
			return
		}
		blocked := false
		for _, e := range ents {
			b, err := os.ReadFile(filepath.Join(dir, e.Name(), "syscall"))
			if err == nil && strings.HasPrefix(string(b), "0 0x0 ") {
				blocked = true
			}
		}
		if !blocked {
			return
		}
		time.Sleep(100 * time.Microsecond)
	}
}

func pktSize(delivery string) int {
	switch delivery {
	case "pkt1":
		return 1
	case "pkt7":
		return 7
	case "pkt1024":
		return 1024
	}
	return pkt.MaxData
}

// runMergeDriverCase: `git merge` of a text file tracked by LFS through `git lfs merge-driver`,
// which cleans the merged text over the file holding the previous pointer.  wt = "shorter": the new
// pointer is longer than the previous one; "longer": it is shorter (fewer size digits).
func runMergeDriverCase(c *core.Ctx, lfsBin string, fc *filterCase, idx int) (*core.Violation, error) {
	root := filepath.Join(c.Work, fmt.Sprintf("m%d", idx))
	defer os.RemoveAll(root)
	env, err := gitenv.New(root, filepath.Dir(lfsBin))
	if err != nil {
		return nil, err
	}
	repo := filepath.Join(root, "repo")
	if err := env.InitRepo(repo, false); err != nil {
		return nil, err
	}
	os.WriteFile(filepath.Join(repo, ".git", "info", "attributes"), []byte("*.bin filter=lfs diff=lfs merge=lfs -text\n"), 0o644)
	env.Git(repo, "config", "merge.lfs.name", "LFS merge driver")
	env.Git(repo, "config", "merge.lfs.driver", "git lfs merge-driver --ancestor %O --current %A --other %B --marker-size %L --output %A")
	lines := func(n int, tag string) []string {
		var l []string
		for i := 0; i < n; i++ {
			l = append(l, fmt.Sprintf("%s line %04d of the merged text, seed %d", tag, i, c.Seed))
		}
		return l
	}
	// base has 250 lines (~11 kB, 5 size digits).  "longer": theirs drops lines so that the merge result is
	// < 10 000 bytes (4 digits, shorter pointer); "shorter": base is small (3-4 digits) and theirs adds lines (5 digits)
	var base, ours, theirs []string
	if fc.Wt == "longer" {
		base = lines(250, "base")
		theirs = append([]string{}, base[:120]...)
	} else {
		base = lines(100, "base")
		theirs = append(append([]string{}, base...), lines(200, "added")...)
	}
	ours = append([]string{"changed first line on our side"}, base[1:]...)
	join := func(l []string) []byte { return []byte(strings.Join(l, "\n") + "\n") }
	file := filepath.Join(repo, "f.bin")
	step := func(args ...string) error {
		if r := env.Git(repo, args...); !r.OK() {
			return fmt.Errorf("git %v: %s", args, r.All())
		}
		return nil
	}
	env.WriteFile(file, join(base), 0o644)
	for _, a := range [][]string{{"add", "f.bin"}, {"commit", "-q", "-m", "base"}, {"checkout", "-q", "-b", "theirs"}} {
		if err := step(a...); err != nil {
			return nil, err
		}
	}
	env.WriteFile(file, join(theirs), 0o644)
	for _, a := range [][]string{{"commit", "-q", "-am", "theirs"}, {"checkout", "-q", "main"}} {
		if err := step(a...); err != nil {
			return nil, err
		}
	}
	env.WriteFile(file, join(ours), 0o644)
	if err := step("commit", "-q", "-am", "ours"); err != nil {
		return nil, err
	}
	// the expected merge result, computed on the plain contents
	td := filepath.Join(root, "mf")
	os.MkdirAll(td, 0o755)
	os.WriteFile(filepath.Join(td, "o"), join(ours), 0o644)
	os.WriteFile(filepath.Join(td, "b"), join(base), 0o644)
	os.WriteFile(filepath.Join(td, "t"), join(theirs), 0o644)
	mr := env.RunIn(td, nil, nil, 0, "git", "merge-file", "-p", "o", "b", "t")
	if mr.Code != 0 {
		return nil, fmt.Errorf("expected merge is not clean: %s", mr.All())
	}
	merged := []byte(mr.Stdout)
	r := env.RunIn(repo, nil, nil, 120*time.Second, "git", "merge", "-q", "-m", "merge", "theirs")
	fields := map[string]string{"content": fc.Content.Name, "delivery": fc.Delivery, "frontend": fc.Frontend, "wt": fc.Wt, "branch": fc.Branch}
	mk := func(assertion, why string, extra map[string]interface{}) *core.Violation {
		d := map[string]interface{}{"why": why, "case": fc, "merged_len": len(merged), "merge_exit": r.Code, "merge_output": core.Tail(r.All(), 600)}
		for k, v := range extra {
			d[k] = v
		}
		return &core.Violation{Assertion: assertion, Fields: fields, Detail: d}
	}
	if !r.OK() {
		return mk("clean-succeeds", "git merge through the LFS merge driver failed", nil), nil
	}
	blob := env.RunIn(repo, nil, nil, 0, "git", "cat-file", "blob", "HEAD:f.bin")
	want := canonPointer(core.Sha(merged), len(merged))
	if blob.Stdout != want {
		return mk("pointer-names-sha256-and-length", "the merged file's blob is not the canonical pointer of the merged text",
			map[string]interface{}{"blob": fmt.Sprintf("%.400q", blob.Stdout), "want": want}), nil
	}
	oid := core.Sha(merged)
	got, _ := os.ReadFile(gitenv.LocalObjectPath(filepath.Join(repo, ".git"), oid))
	if !bytes.Equal(got, merged) {
		return mk("stored-object-is-the-input", "local storage does not hold the merged text under the pointer's id", nil), nil
	}
	os.Remove(file)
	if rr := env.Git(repo, "checkout", "--", "f.bin"); !rr.OK() {
		return mk("smudge-succeeds", "checkout of the merged file failed", map[string]interface{}{"stderr": core.Tail(rr.All(), 600)}), nil
	}
	if wtb, _ := os.ReadFile(file); !bytes.Equal(wtb, merged) {
		return mk("smudge-returns-original", "the checked-out file differs from the merged text", nil), nil
	}
	return nil, nil
}

func runFilterCase(c *core.Ctx, lfsBin string, fc *filterCase, idx int) (*core.Violation, error) {
	if fc.Frontend == "mergedriver" {
		return runMergeDriverCase(c, lfsBin, fc, idx)
	}
	root := filepath.Join(c.Work, fmt.Sprintf("f%d", idx))
	defer os.RemoveAll(root)
	env, err := gitenv.New(root, filepath.Dir(lfsBin))
	if err != nil {
		return nil, err
	}
	// ambient environment is a concretisation-only dimension: every other case runs with a progress
	// file requested (GIT_LFS_PROGRESS), which gives the copy loops a progress callback
	if idx%2 == 1 {
		env.Extra = append(env.Extra, "GIT_LFS_PROGRESS="+filepath.Join(root, "progress.log"))
	}
	repo := filepath.Join(root, "repo")
	if err := env.InitRepo(repo, false); err != nil {
		return nil, err
	}
	os.WriteFile(filepath.Join(repo, ".git", "info", "attributes"), []byte("*.bin filter=lfs diff=lfs merge=lfs -text\n"), 0o644)
	input, ptrLen := concretise(fc.Content.Name, fc.Content.Kind, fc.Content.Len, c.Seed)
	if input == nil && fc.Content.Len != 0 {
		return nil, fmt.Errorf("cannot concretise %s", fc.Content.Name)
	}
	chain := extChain(fc.Ext)
	for i, e := range chain {
		for k, v := range map[string]string{"clean": e.clean, "smudge": e.smudge, "priority": fmt.Sprint(i)} {
			if r := env.Git(repo, "config", "lfs.extension."+e.name+"."+k, v); !r.OK() {
				return nil, fmt.Errorf("config extension: %s", r.All())
			}
		}
	}
	file := filepath.Join(repo, "f.bin")
	other := []byte(canonPointer(core.Sha([]byte("unrelated")), 777))
	switch fc.Wt {
	case "same":
		env.WriteFile(file, input, 0o644)
	case "shorter":
		env.WriteFile(file, input[:len(input)/2], 0o644)
	case "longer":
		env.WriteFile(file, append(append([]byte{}, input...), bytes.Repeat([]byte("z"), 500)...), 0o644)
	case "pointer":
		env.WriteFile(file, other, 0o644)
	}
	gitDir := filepath.Join(repo, ".git")
	before := gitenv.ListObjects(gitDir)
	fields := map[string]string{"content": fc.Content.Name, "delivery": fc.Delivery, "frontend": fc.Frontend, "wt": fc.Wt, "branch": fc.Branch}
	if len(chain) > 0 {
		fields["ext"] = fc.Ext
	}
	if fc.Prev != "" && fc.Prev != "none" {
		fields["prev"] = fc.Prev
	}
	prevIn, prevWant := prevInput(fc.Prev)
	mk := func(assertion, why string, extra map[string]interface{}) *core.Violation {
		d := map[string]interface{}{"why": why, "case": fc, "input_len": len(input), "input_sha256": core.Sha(input)}
		for k, v := range extra {
			d[k] = v
		}
		return &core.Violation{Assertion: assertion, Fields: fields, Detail: d}
	}
	var cleaned, smudgeIn []byte
	var sess *pkt.Session
	var stderrTxt string
	switch fc.Frontend {
	case "oneshot":
		out, se, code := runPiped(env, repo, chunksFor(fc.Delivery, input, ptrLen), "clean", "f.bin")
		if code != 0 {
			return mk("clean-succeeds", fmt.Sprintf("git-lfs clean exited %d", code), map[string]interface{}{"stderr": core.Tail(se, 800)}), nil
		}
		cleaned, stderrTxt = out, se
	case "process":
		cmd := exec.Command(filepath.Join(env.BinDir, "git-lfs"), "filter-process")
		cmd.Dir = repo
		cmd.Env = env.Environ()
		s, err := pkt.Start(cmd, []string{"clean", "smudge", "delay"})
		if err != nil {
			return nil, err
		}
		sess = s
		defer sess.Close()
		if prevIn != nil {
			pr, timedOut := sess.RequestT(60*time.Second, "clean", "a.bin", nil, prevIn, pktSize(fc.Delivery), true)
			if timedOut || pr.Died || pr.ProtoErr != "" || pr.Status != "success" || !bytes.Equal(pr.Content, prevWant) {
				return mk("filter-process-clean-exchange", fmt.Sprintf("the request before (%s): timeout=%v died=%v proto=%q status=%q output %.200q", fc.Prev, timedOut, pr.Died, pr.ProtoErr, pr.Status, pr.Content),
					map[string]interface{}{"stderr": core.Tail(sess.Stderr.String(), 800)}), nil
			}
		}
		r, timedOut := sess.RequestT(60*time.Second, "clean", "f.bin", nil, input, pktSize(fc.Delivery), true)
		if timedOut || r.Died || r.ProtoErr != "" || r.Status != "success" || (r.FinalStatus != "" && r.FinalStatus != "success") {
			return mk("filter-process-clean-exchange", fmt.Sprintf("timeout=%v died=%v proto=%q status=%q final=%q", timedOut, r.Died, r.ProtoErr, r.Status, r.FinalStatus),
				map[string]interface{}{"stderr": core.Tail(sess.Stderr.String(), 800), "transcript": sess.Log}), nil
		}
		cleaned = r.Content
	case "gitadd":
		addArgs := []string{"add", "--", "f.bin"}
		if prevIn != nil {
			// one `git add` of two files: one filter process, a.bin first
			env.WriteFile(filepath.Join(repo, "a.bin"), prevIn, 0o644)
			addArgs = []string{"add", "--", "a.bin", "f.bin"}
		}
		if r := env.Git(repo, addArgs...); !r.OK() {
			return mk("clean-succeeds", "git add failed", map[string]interface{}{"stderr": core.Tail(r.All(), 800)}), nil
		}
		r := env.RunIn(repo, nil, nil, 0, "git", "cat-file", "blob", ":f.bin")
		if !r.OK() {
			return nil, fmt.Errorf("cat-file: %s", r.All())
		}
		cleaned = []byte(r.Stdout)
	}
	after := gitenv.ListObjects(gitDir)
	newObjs := []string{}
	prevRel := ""
	if fc.Prev == "shortdata" {
		o := core.Sha(prevIn)
		prevRel = filepath.Join(o[0:2], o[2:4], o)
		if got, ok := after[prevRel]; !ok || !bytes.Equal(got, prevIn) {
			return mk("stored-object-is-the-input", "the file cleaned before this one is not in local storage", nil), nil
		}
	}
	for k := range after {
		if _, ok := before[k]; !ok && k != prevRel {
			newObjs = append(newObjs, k)
		}
	}
	if prevIn != nil && fc.Frontend == "gitadd" {
		if r := env.RunIn(repo, nil, nil, 0, "git", "cat-file", "blob", ":a.bin"); !r.OK() || r.Stdout != string(prevWant) {
			return mk("clean-succeeds", fmt.Sprintf("the file added before this one (%s) was staged as %.200q", fc.Prev, r.Stdout), nil), nil
		}
	}
	ex := map[string]interface{}{"clean_output": fmt.Sprintf("%.300q", cleaned), "clean_output_len": len(cleaned), "new_objects": newObjs, "stderr": core.Tail(stderrTxt, 400)}
	switch fc.Branch {
	case "empty":
		if len(cleaned) != 0 || len(newObjs) != 0 {
			return mk("empty-maps-to-empty", "empty input must give an empty pointer and store nothing", ex), nil
		}
		smudgeIn = cleaned
	case "passthrough":
		if !bytes.Equal(cleaned, input) {
			return mk("pointer-passes-through-clean", "a well-formed pointer (<1024 bytes) was not written back unchanged", ex), nil
		}
		if len(newObjs) != 0 {
			return mk("pointer-not-stored", "cleaning a pointer added an object to local storage", ex), nil
		}
		return nil, nil // the object it names is not available: nothing to smudge
	case "content":
		if len(chain) > 0 {
			oid, bad := checkExtPointer(cleaned, input, chain, after)
			if bad != "" {
				return mk("pointer-names-sha256-and-length-of-what-is-stored", "with extensions "+fc.Ext+": "+bad, ex), nil
			}
			rel := filepath.Join(oid[0:2], oid[2:4], oid)
			for _, k := range newObjs {
				if k != rel {
					return mk("nothing-else-stored", "clean created another object: "+k, ex), nil
				}
			}
			smudgeIn = cleaned
			break
		}
		oid := core.Sha(input)
		want := canonPointer(oid, len(input))
		if string(cleaned) != want {
			return mk("pointer-names-sha256-and-length", "clean output is not the canonical pointer of (SHA-256, length) of the input", ex), nil
		}
		rel := filepath.Join(oid[0:2], oid[2:4], oid)
		got, ok := after[rel]
		if !ok || !bytes.Equal(got, input) {
			return mk("stored-object-is-the-input", "local storage does not hold exactly the input bytes under the pointer's id",
				map[string]interface{}{"stored_len": len(got), "present": ok, "new_objects": newObjs}), nil
		}
		for _, k := range newObjs {
			if k != rel {
				return mk("nothing-else-stored", "clean created another object: "+k, ex), nil
			}
		}
		smudgeIn = cleaned
	}
	// smudge what clean produced
	var smudged []byte
	switch fc.Frontend {
	case "oneshot":
		out, se, code := runPiped(env, repo, [][]byte{smudgeIn}, "smudge", "f.bin")
		if code != 0 {
			return mk("smudge-succeeds", fmt.Sprintf("git-lfs smudge exited %d", code), map[string]interface{}{"stderr": core.Tail(se, 800)}), nil
		}
		smudged = out
	case "process":
		r, timedOut := sess.RequestT(60*time.Second, "smudge", "f.bin", nil, smudgeIn, pktSize(fc.Delivery), true)
		if timedOut || r.Died || r.ProtoErr != "" || r.Status != "success" {
			return mk("filter-process-smudge-exchange", fmt.Sprintf("timeout=%v died=%v proto=%q status=%q", timedOut, r.Died, r.ProtoErr, r.Status),
				map[string]interface{}{"stderr": core.Tail(sess.Stderr.String(), 800), "transcript": sess.Log}), nil
		}
		smudged = r.Content
	case "gitadd":
		os.Remove(file)
		if r := env.Git(repo, "checkout", "--", "f.bin"); !r.OK() {
			return mk("smudge-succeeds", "git checkout failed", map[string]interface{}{"stderr": core.Tail(r.All(), 800)}), nil
		}
		smudged, _ = os.ReadFile(file)
	}
	if !bytes.Equal(smudged, input) {
		return mk("smudge-returns-original", "smudging the pointer did not return the original bytes",
			map[string]interface{}{"smudged_len": len(smudged), "smudged_sha256": core.Sha(smudged)}), nil
	}
	return nil, nil
}

// smudgePassthrough: bytes that do not parse as a pointer pass through smudge unchanged (C08, third sentence).
func smudgePassthrough(c *core.Ctx, lfsBin string, name string, n int, idx int) (*core.Violation, error) {
	root := filepath.Join(c.Work, fmt.Sprintf("s%d", idx))
	defer os.RemoveAll(root)
	env, err := gitenv.New(root, filepath.Dir(lfsBin))
	if err != nil {
		return nil, err
	}
	repo := filepath.Join(root, "repo")
	if err := env.InitRepo(repo, false); err != nil {
		return nil, err
	}
	kind := "data"
	if strings.HasPrefix(name, "ptr") {
		kind = "ptr"
	}
	input, pl := concretise(name, kind, n, c.Seed)
	for _, d := range []string{"whole", "split_mid"} {
		out, se, code := runPiped(env, repo, chunksFor(d, input, pl), "smudge", "f.bin")
		if code != 0 || !bytes.Equal(out, input) {
			return &core.Violation{Assertion: "non-pointer-passes-through-smudge", Fields: map[string]string{"content": name, "delivery": d, "frontend": "oneshot"},
				Detail: map[string]interface{}{"why": "smudge changed bytes that are not a pointer", "exit": code, "stderr": core.Tail(se, 600),
					"input_len": len(input), "output_len": len(out)}}, nil
		}
	}
	// the long-running filter, with and without the delay capability on offer
	for _, caps := range [][]string{{"clean", "smudge"}, {"clean", "smudge", "delay"}} {
		cmd := exec.Command(filepath.Join(env.BinDir, "git-lfs"), "filter-process")
		cmd.Dir = repo
		cmd.Env = env.Environ()
		sess, err := pkt.Start(cmd, caps)
		if err != nil {
			return nil, err
		}
		var extra []string
		if len(caps) == 3 {
			extra = []string{"can-delay=1"}
		}
		r, timedOut := sess.RequestT(60*time.Second, "smudge", "f.bin", extra, input, 65516, true)
		bad := timedOut || r.Died || r.ProtoErr != "" || r.Status != "success" || (r.FinalStatus != "" && r.FinalStatus != "success") || !bytes.Equal(r.Content, input)
		stderr := sess.Stderr.String()
		sess.Close()
		if bad {
			return &core.Violation{Assertion: "non-pointer-passes-through-smudge", Fields: map[string]string{"content": name, "delivery": "pktmax", "frontend": "process", "delay": fmt.Sprint(len(caps) == 3)},
				Detail: map[string]interface{}{"why": "filter-process did not answer a smudge of bytes that are not a pointer with status=success and the same bytes",
					"timeout": timedOut, "died": r.Died, "proto": r.ProtoErr, "status": r.Status, "final_status": r.FinalStatus, "stderr": core.Tail(stderr, 600),
					"input_len": len(input), "output_len": len(r.Content)}}, nil
		}
	}
	return nil, nil
}

func runFilterProperty(c *core.Ctx, kind string) {
	c.Level = "exploration"
	lfs := c.BuildLFS()
	cfg := "Filter_q.cfg"
	if !c.Quick() {
		cfg = "Filter_t.cfg"
	}
	r := c.TLC(core.TLCOpts{Module: "Filter_MC", Cfg: cfg, Workers: 4, Timeout: 20 * time.Minute})
	c.MustPass(r, "Filter/"+cfg)
	c.Set("states", r.Distinct)
	c.Set("transitions", r.Generated)
	seen := map[string]bool{}
	var cases []*filterCase
	branches := map[string]int{}
	if _, err := core.ReadBehaviours(r.OutFile, func(raw []byte) error {
		if seen[string(raw)] {
			return nil
		}
		seen[string(raw)] = true
		var fc filterCase
		if err := json.Unmarshal(raw, &fc); err != nil {
			return err
		}
		if fc.Content.Kind == kind || (kind == "data" && (fc.Content.Name == "empty" || fc.Content.Kind == "merge")) {
			cases = append(cases, &fc)
			branches[fc.Branch]++
		}
		return nil
	}); err != nil {
		c.Infra("read cases: %v", err)
	}
	if len(cases) < 50 {
		c.Infra("only %d cases", len(cases))
	}
	if kind == "ptr" && (branches["passthrough"] == 0 || branches["content"] == 0) {
		c.Infra("vacuity: branches %v", branches)
	}
	c.Set("branches", branches)
	c.Logf("running %d filter cases", len(cases))
	var mu sync.Mutex
	var infra error
	core.Parallel(len(cases), 12, func(i int) {
		v, err := runFilterCase(c, lfs, cases[i], i)
		if err == nil && v != nil {
			// re-execute once from scratch
			v2, err2 := runFilterCase(c, lfs, cases[i], i+1000000)
			if err2 == nil && v2 != nil && v2.Assertion == v.Assertion {
				c.Report(*v)
			} else {
				err = fmt.Errorf("candidate %s did not reproduce for case %v", v.Assertion, *cases[i])
			}
		}
		if err != nil {
			mu.Lock()
			if infra == nil {
				infra = err
			}
			mu.Unlock()
		}
	})
	if infra != nil {
		c.Infra("%v", infra)
	}
	n := len(cases)
	if kind == "ptr" {
		// third sentence of C08: non-pointers pass through smudge
		names := []struct {
			n string
			l int
		}{{"one", 1}, {"text200", 200}, {"bin1023", 1023}, {"bin1024", 1024}, {"bin5000", 5000}, {"ptr_plus_byte", 131}, {"ptr_plus_line", 140},
			{"ptr_upper_oid", 130}, {"ptr_then_data_1500", 1500}, {"ptr_pad1025", 1025},
			{"ptr_short_oid", 129}, {"ptr_md5_oid", 127}, {"ptr_neg_size", 131}, {"ptr_nonnum_size", 130}, {"blank_mix", 8}}
		core.Parallel(len(names), 8, func(i int) {
			v, err := smudgePassthrough(c, lfs, names[i].n, names[i].l, i)
			if err != nil {
				mu.Lock()
				infra = err
				mu.Unlock()
			} else if v != nil {
				c.Report(*v)
			}
		})
		if infra != nil {
			c.Infra("%v", infra)
		}
		n += len(names) * 4
	}
	c.Set("evaluations", n)
	c.Set("distinct_nontrivial", len(cases))
	c.Set("exhaustive", true)
	c.Set("rule", "cases = the complete product content class x delivery x front-end x work-tree state of spec/Filter.tla restricted by Meaningful; each is distinct; bytes are generated from VERIF_SEED")
	for i := 0; i < len(cases); i += len(cases)/5 + 1 {
		c.Sample(cases[i])
	}
	c.Assume("short reads are produced by writing the chunks with pauses once the filter is blocked in read; git itself chooses the delivery for the git add / git checkout front-end; pointer extensions are coreutils programs (tr as rot13: same length; gzip: shorter or longer; base64: longer; tr then gzip as a chain of two), run with 4 of the deliveries and work-tree states none / same")
	_ = io.EOF
}

func init() {
	registry["C01"] = func(c *core.Ctx, replay string) { runFilterProperty(c, "data") }
	registry["C08"] = func(c *core.Ctx, replay string) { runFilterProperty(c, "ptr") }
}
