package main

// C16: file locking.  spec/Locking.tla enumerates command sequences of two
// users; each behaviour is replayed with two real clones, the real git-lfs and
// the harness's lock server (ownership from the Basic-auth user), and after
// every step the lock table, the cached own locks, the write bits and the
// command's verdict are compared with what the specification demands.

import (
	"encoding/json"
	"fmt"
	"os"
	"path/filepath"
	"sort"
	"strings"
	"time"

	"verif/harness/internal/core"
	"verif/harness/internal/gitenv"
	"verif/harness/internal/lfsserver"
)

type lockStep struct {
	A           string            `json:"a"`
	U           string            `json:"u"`
	P           string            `json:"p"`
	Kind        string            `json:"kind"` // hook: how the hook run comes about (checkout | merge)
	Ps          []string          `json:"ps"` // lockmany / unlockmany: the paths in the order given
	OK          bool              `json:"ok"`
	Force       bool              `json:"force"`
	ByID        bool              `json:"byid"`
	CacheHas    []string          `json:"cacheHas"`
	CacheLacks  []string          `json:"cacheLacks"`
	CacheExact  bool              `json:"cacheExact"`
	CacheIs     []string          `json:"cacheIs"`
	WritableIs  []string          `json:"writableIs"`
	ReadonlyIs  []string          `json:"readonlyIs"`
	ServerAfter map[string]string `json:"serverAfter"`
	Page        int               `json:"page"` // locks per page of the server's list / verify answers (0: all)
}

// mergeUnrelated builds, without touching the work tree, a commit on top of HEAD that adds a file no
// lock pattern matches, and merges it with --no-ff.
func mergeUnrelated(env *gitenv.Env, dir string, n int) gitenv.Result {
	name := fmt.Sprintf("notes-%d.txt", n)
	idx := filepath.Join(dir, ".git", fmt.Sprintf("side-index-%d", n))
	defer os.Remove(idx)
	blob := env.RunIn(dir, nil, []byte(fmt.Sprintf("notes %d\n", n)), 30*time.Second, "git", "hash-object", "-w", "--stdin")
	if !blob.OK() {
		return blob
	}
	xe := []string{"GIT_INDEX_FILE=" + idx}
	if r := env.RunIn(dir, xe, nil, 30*time.Second, "git", "read-tree", "HEAD"); !r.OK() {
		return r
	}
	if r := env.RunIn(dir, xe, nil, 30*time.Second, "git", "update-index", "--add", "--cacheinfo", "100644,"+strings.TrimSpace(blob.Stdout)+","+name); !r.OK() {
		return r
	}
	tree := env.RunIn(dir, xe, nil, 30*time.Second, "git", "write-tree")
	if !tree.OK() {
		return tree
	}
	commit := env.RunIn(dir, nil, nil, 30*time.Second, "git", "commit-tree", strings.TrimSpace(tree.Stdout), "-p", "HEAD", "-m", "side change "+name)
	if !commit.OK() {
		return commit
	}
	return env.RunIn(dir, nil, nil, 60*time.Second, "git", "merge", "-q", "--no-ff", "-m", "merge "+name, strings.TrimSpace(commit.Stdout))
}

const zeroSha = "0000000000000000000000000000000000000000"

func replayLocking(c *core.Ctx, lfsBin string, b *behaviour, idx int) (*core.Violation, error) {
	root := filepath.Join(c.Work, fmt.Sprintf("l%d", idx))
	defer os.RemoveAll(root)
	env, err := gitenv.New(root, filepath.Dir(lfsBin))
	if err != nil {
		return nil, err
	}
	srv, err := lfsserver.New()
	if err != nil {
		return nil, err
	}
	defer srv.Close()
	srv.RequireAuth = true
	remote := filepath.Join(root, "remote.git")
	if err := env.InitRepo(remote, true); err != nil {
		return nil, err
	}
	clones := map[string]string{"u1": filepath.Join(root, "clone1"), "u2": filepath.Join(root, "clone2")}
	paths := []string{"l1", "l2"}
	run := func(dir string, name string, args ...string) gitenv.Result {
		return env.RunIn(dir, nil, nil, 60*time.Second, name, args...)
	}
	must := func(r gitenv.Result, what string) error {
		if !r.OK() {
			return fmt.Errorf("%s: exit %d: %s", what, r.Code, r.All())
		}
		return nil
	}
	// clone1: create history and publish
	if err := env.InitRepo(clones["u1"], false); err != nil {
		return nil, err
	}
	setup := func(u string) error {
		d := clones[u]
		for _, a := range [][]string{{"config", "lfs.url", srv.LFSURL("lockrepo", u)}, {"config", "lfs.locksverify", "true"},
			{"config", "user.name", u}, {"lfs", "install", "--local"}} {
			if err := must(run(d, "git", a...), "setup "+strings.Join(a, " ")); err != nil {
				return err
			}
		}
		return nil
	}
	d1 := clones["u1"]
	if err := must(run(d1, "git", "remote", "add", "origin", remote), "remote add"); err != nil {
		return nil, err
	}
	if err := setup("u1"); err != nil {
		return nil, err
	}
	os.WriteFile(filepath.Join(d1, ".gitattributes"), []byte("*.bin filter=lfs diff=lfs merge=lfs -text lockable\n"), 0o644)
	for _, p := range paths {
		env.WriteFile(filepath.Join(d1, p+".bin"), []byte("content of "+p+"\n"), 0o644)
	}
	for _, a := range [][]string{{"add", "."}, {"commit", "-q", "-m", "initial"}, {"-c", "lfs.locksverify=false", "push", "-q", "origin", "main"}} {
		if err := must(run(d1, "git", a...), "publish "+strings.Join(a, " ")); err != nil {
			return nil, err
		}
	}
	if err := must(run(root, "git", "clone", "-q", "-c", "lfs.url="+srv.LFSURL("lockrepo", "u2"), remote, clones["u2"]), "clone"); err != nil {
		return nil, err
	}
	if err := setup("u2"); err != nil {
		return nil, err
	}
	hook := func(u string) gitenv.Result {
		head := strings.TrimSpace(run(clones[u], "git", "rev-parse", "HEAD").Stdout)
		return run(clones[u], "git-lfs", "post-checkout", zeroSha, head, "1")
	}
	for _, u := range []string{"u1", "u2"} {
		if err := must(hook(u), "initial hook"); err != nil {
			return nil, err
		}
	}
	cacheOf := func(u string) ([]string, error) {
		r := run(clones[u], "git-lfs", "locks", "--local", "--json")
		if !r.OK() {
			return nil, fmt.Errorf("locks --local: %s", r.All())
		}
		var l []struct {
			Path string `json:"path"`
		}
		json.Unmarshal([]byte(r.Stdout), &l)
		out := []string{}
		for _, x := range l {
			out = append(out, strings.TrimSuffix(x.Path, ".bin"))
		}
		sort.Strings(out)
		return out, nil
	}
	writableOf := func(u string) map[string]bool {
		m := map[string]bool{}
		for _, p := range paths {
			st, err := os.Stat(filepath.Join(clones[u], p+".bin"))
			m[p] = err == nil && st.Mode().Perm()&0o200 != 0
		}
		return m
	}
	serverTable := func() map[string]string {
		m := map[string]string{}
		for _, p := range paths {
			m[p] = "none"
		}
		for _, l := range srv.LocksOf("lockrepo") {
			m[strings.TrimSuffix(l.Path, ".bin")] = l.Owner
		}
		return m
	}
	var cmds []string
	if len(b.steps) > 0 {
		srv.PageSize = b.steps[0].num("page")
	}
	for i, raw := range b.steps {
		var s lockStep
		bb, _ := json.Marshal(raw)
		json.Unmarshal(bb, &s)
		d := clones[s.U]
		file := s.P + ".bin"
		var r gitenv.Result
		switch s.A {
		case "lock":
			r = run(d, "git-lfs", "lock", file)
		case "unlock":
			args := []string{"unlock"}
			if s.Force {
				args = append(args, "--force")
			}
			if s.ByID {
				id := ""
				for _, l := range srv.LocksOf("lockrepo") {
					if l.Path == file {
						id = l.ID
					}
				}
				args = append(args, "--id", id)
			} else {
				args = append(args, file)
			}
			r = run(d, "git-lfs", args...)
		case "lockmany":
			args := []string{"lock"}
			for _, q := range s.Ps {
				args = append(args, q+".bin")
			}
			r = run(d, "git-lfs", args...)
		case "unlockmany":
			args := []string{"unlock"}
			if s.Force {
				args = append(args, "--force")
			}
			for _, q := range s.Ps {
				args = append(args, q+".bin")
			}
			r = run(d, "git-lfs", args...)
		case "verify":
			r = run(d, "git-lfs", "locks", "--verify")
		case "hook":
			if s.Kind == "merge" {
				// a real merge of a commit that adds an unrelated file: Git runs the installed post-merge hook
				r = mergeUnrelated(env, d, i)
				if r.Code != 0 {
					return nil, fmt.Errorf("merge of an unrelated change failed: %s", r.All())
				}
			} else {
				r = hook(s.U)
			}
		case "edit":
			f, err := os.OpenFile(filepath.Join(d, file), os.O_APPEND|os.O_WRONLY, 0)
			if err != nil {
				return nil, fmt.Errorf("edit of a file the spec says is writable failed: %v", err)
			}
			f.WriteString("edited by " + s.U + "\n")
			f.Close()
			if s.Kind == "staged" || s.Kind == "both" {
				if err := must(run(d, "git", "add", "--", file), "git add"); err != nil {
					return nil, err
				}
			}
			if s.Kind == "both" {
				f, _ := os.OpenFile(filepath.Join(d, file), os.O_APPEND|os.O_WRONLY, 0)
				f.WriteString("and once more after staging\n")
				f.Close()
			}
		case "push":
			os.Chmod(filepath.Join(d, file), 0o644)
			os.WriteFile(filepath.Join(d, file), []byte(fmt.Sprintf("new content pushed by %s step %d\n", s.U, i)), 0o644)
			// commit this path only: other files the user edited earlier stay uncommitted
			if err := must(run(d, "git", "commit", "-q", "-m", "change "+file, "--", file), "commit"); err != nil {
				return nil, err
			}
			r = run(d, "git", "push", "origin", "main")
		}
		cmds = append(cmds, fmt.Sprintf("%s: %s %s%s force=%v byid=%v -> exit %d", s.U, s.A, s.P, strings.Join(s.Ps, " "), s.Force, s.ByID, r.Code))
		cache, err := cacheOf(s.U)
		if err != nil {
			return nil, err
		}
		wr := writableOf(s.U)
		table := serverTable()
		mk := func(assertion, why string) *core.Violation {
			return &core.Violation{Assertion: assertion, Fields: map[string]string{"op": s.A, "force": fmt.Sprint(s.Force), "byid": fmt.Sprint(s.ByID)},
				Detail: map[string]interface{}{"why": why, "behaviour": json.RawMessage(b.raw), "step": i, "commands": cmds, "cached_own_locks": cache,
					"writable": wr, "server_table": table, "output": core.Tail(r.All(), 700)}}
		}
		if r.Code == -2 {
			return mk("command-terminates", "command did not finish"), nil
		}
		// the server's table is the ground truth of who holds what
		for _, p := range paths {
			if table[p] != s.ServerAfter[p] {
				if (s.A == "unlock" || s.A == "unlockmany") && !s.Force && s.ServerAfter[p] != "none" && table[p] == "none" {
					return mk("unlock-without-force-keeps-lock-of-modified-file", "a lock was released although the file has uncommitted changes (or is not the user's) and --force was not given"), nil
				}
				return mk("lock-table-as-specified", fmt.Sprintf("server says %s is held by %s, the specification says %s", p, table[p], s.ServerAfter[p])), nil
			}
		}
		switch s.A {
		case "lock", "unlock", "lockmany", "unlockmany":
			if s.OK != (r.Code == 0) {
				return mk("command-verdict", fmt.Sprintf("specification says ok=%v, exit code %d", s.OK, r.Code)), nil
			}
		case "push":
			if s.OK && r.Code != 0 {
				return mk("own-locks-do-not-block-push", "push touching only unlocked or own-locked paths was rejected"), nil
			}
			if !s.OK && r.Code == 0 {
				return mk("their-lock-blocks-push", "push modifying a path locked by the other user was accepted"), nil
			}
		}
		cs := toSet(cache)
		for _, p := range s.CacheHas {
			if !cs[p] {
				return mk("cache-follows-server", "own lock on "+p+" was granted but is not in the cached list"), nil
			}
		}
		for _, p := range s.CacheLacks {
			if cs[p] {
				return mk("cache-follows-server", "lock on "+p+" was released but is still in the cached list of own locks"), nil
			}
		}
		if s.CacheExact {
			want := append([]string{}, s.CacheIs...)
			sort.Strings(want)
			if fmt.Sprint(want) != fmt.Sprint(cache) {
				v := mk("cache-equals-own-locks-after-verify", fmt.Sprintf("cached own locks %v, server-side own locks %v", cache, want))
				// classify what was observed: only "all own locks present, every extra entry is a lock the
				// other user holds" is the recorded finding
				ws := toSet(want)
				cause := "theirs-cached"
				for _, p := range want {
					if !cs[p] {
						cause = "unclassified"
					}
				}
				for _, p := range cache {
					if !ws[p] && (table[p] == "none" || table[p] == s.U) {
						cause = "unclassified"
					}
				}
				v.Fields["cause"] = cause
				return v, nil
			}
		}
		for _, p := range s.WritableIs {
			if !wr[p] {
				return mk("writable-iff-held", p+" is held (cached) by the user but read-only"), nil
			}
		}
		for _, p := range s.ReadonlyIs {
			if wr[p] {
				return mk("writable-iff-held", p+" is not held by the user but writable"), nil
			}
		}
	}
	return nil, nil
}

func init() {
	registry["C16"] = func(c *core.Ctx, replay string) {
		if replayBehaviourOnly(c, replay, replayLocking, "model_checking") {
			return
		}
		c.Level = "model_checking"
		lfs := c.BuildLFS()
		cfg, budget := "Locking_q.cfg", 420
		if !c.Quick() {
			cfg, budget = "Locking_t.cfg", 4000
		}
		gcfg := writeCfgVariant(c, cfg, "Locking_gen.cfg", map[string]string{"Emit = FALSE": "Emit = TRUE"})
		r := c.TLC(core.TLCOpts{Module: "Locking", Cfg: gcfg, Workers: 6, Timeout: 30 * time.Minute})
		c.MustPass(r, "Locking/"+cfg)
		if rm := c.TLC(core.TLCOpts{Module: "Locking", Cfg: "Locking_clearperpage.cfg", Workers: 4, Timeout: 10 * time.Minute}); rm.Violated == "" {
			c.Infra("non-vacuity: the variant that clears the cache for every page of the verify answer violates nothing")
		} else {
			c.Set("spec_mutant_violates", rm.Violated)
		}
		c.Set("states", r.Distinct)
		c.Set("transitions", r.Generated)
		actionsSeen = map[string]int{}
		bs, total, nclasses := sampleLockBehaviours(c, r.OutFile, budget)
		requireActions(c, "lock", "unlock", "lockmany", "unlockmany", "verify", "hook", "edit", "push")
		c.Set("edges_emitted", total)
		c.Set("behaviour_classes", nclasses)
		c.Logf("replaying %d of %d behaviours", len(bs), total)
		runBehaviours(c, lfs, bs, replayLocking, 12)
		c.Set("traces_validated_against_impl", len(bs))
		c.Set("evaluations", len(bs))
		c.Set("distinct_nontrivial", len(bs))
		c.Set("rule", "behaviours = per-edge output of spec/Locking.tla: sequences of <= MaxOps commands of two users over two lockable paths against a server that pages lock lists by {0 (never), 1} (lock, unlock by path / by id with and without --force, lock and unlock of two paths in one command, locks --verify, hook run, edit, final commit+push with lock verification); sampled round-robin over classes (sequence of action kinds with flags and verdicts)")
		for i := 0; i < len(bs); i += len(bs)/4 + 1 {
			c.Sample(json.RawMessage(bs[i].raw))
		}
		c.Assume("the lock server derives ownership from the Basic-auth user of each clone's lfs.url; the server pages its lock lists by 1 or not at all, fixed per behaviour; server faults (403/404/5xx), lfs.setlockablereadonly=false and locksverify unset/false are not yet in the model; at most one push per behaviour")
	}
}

func sampleLockBehaviours(c *core.Ctx, file string, budget int) ([]*behaviour, int, int) {
	byClass := map[string][]*behaviour{}
	total := 0
	if _, err := core.ReadBehaviours(file, func(raw []byte) error {
		var st []step
		if err := json.Unmarshal(raw, &st); err != nil {
			return err
		}
		if len(st) == 0 {
			return nil
		}
		total++
		var k []string
		for _, s := range st {
			actionsSeen[s.str("a")]++
			k = append(k, fmt.Sprintf("%s%s/%v/%v/%v/%s", s.str("a"), s.str("kind"), s["ok"], s["force"], s["byid"], s.str("u")))
		}
		k = append(k, fmt.Sprintf("page=%d", st[0].num("page")))
		b := &behaviour{steps: st, raw: raw, class: strings.Join(k, ";"), hash: fnvStr(string(raw), c.Seed)}
		l := append(byClass[b.class], b)
		if len(l) > 4 {
			sort.Slice(l, func(i, j int) bool { return l[i].hash < l[j].hash })
			l = l[:2]
		}
		byClass[b.class] = l
		return nil
	}); err != nil {
		c.Infra("read behaviours: %v", err)
	}
	keys := []string{}
	for k := range byClass {
		keys = append(keys, k)
	}
	sort.Slice(keys, func(i, j int) bool { return fnvStr(keys[i], c.Seed) < fnvStr(keys[j], c.Seed) })
	var out []*behaviour
	// classes in which an unlock follows a change that is staged take up to a quarter of the budget first
	taken := map[string]bool{}
	for _, k := range keys {
		if len(out) >= budget/4 {
			break
		}
		if i := strings.Index(k, "editstaged"); i >= 0 && strings.Contains(k[i:], "unlock") {
			l := byClass[k]
			sort.Slice(l, func(i, j int) bool { return l[i].hash < l[j].hash })
			out = append(out, l[0])
			taken[k] = true
		}
	}
	for _, k := range keys {
		if len(out) >= budget {
			break
		}
		if taken[k] {
			continue
		}
		l := byClass[k]
		sort.Slice(l, func(i, j int) bool { return l[i].hash < l[j].hash })
		out = append(out, l[0])
	}
	return out, total, len(keys)
}
