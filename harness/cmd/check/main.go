// check is the orchestrator: `check <ID> --tier quick|thorough [--replay path]`.
// It never imports packages of /repo; everything that links the code under
// test (git-lfs itself, the library driver) is rebuilt from /repo's working
// tree with -tags verif on every invocation.
package main

import (
	"fmt"
	"os"
	"os/exec"
	"path/filepath"

	"verif/harness/internal/core"
)

type checkFn func(c *core.Ctx, replay string)

var registry = map[string]checkFn{}

func main() {
	if len(os.Args) < 2 {
		fmt.Fprintln(os.Stderr, "usage: check <ID> --tier quick|thorough [--replay path]")
		os.Exit(core.ExitInfra)
	}
	id := os.Args[1]
	tier := core.Getenv("VERIF_TIER", "quick")
	replay := ""
	for i := 2; i < len(os.Args); i++ {
		switch os.Args[i] {
		case "--tier":
			if i+1 < len(os.Args) {
				tier = os.Args[i+1]
				i++
			}
		case "--replay":
			if i+1 < len(os.Args) {
				replay = os.Args[i+1]
				i++
			}
		}
	}
	fn, ok := registry[id]
	if !ok {
		fmt.Fprintf(os.Stderr, "unknown property %s\n", id)
		os.Exit(core.ExitInfra)
	}
	c := core.New(id, tier)
	defer func() {
		if r := recover(); r != nil {
			c.Infra("orchestrator panic: %v", r)
		}
	}()
	fn(c, replay)
	c.Finish()
}

// driverCmd runs the library driver in an empty directory of its own below the check's work
// directory, with a private HOME and a ceiling, so that nothing it does through git can reach a
// repository or configuration outside (the harness's own checkout lies above the work directory).
func driverCmd(c *core.Ctx, drv string, args ...string) *exec.Cmd {
	dir := filepath.Join(c.Work, "drvcwd")
	os.MkdirAll(filepath.Join(dir, "home"), 0o755)
	cmd := exec.Command(drv, args...)
	cmd.Dir = dir
	cmd.Env = append(os.Environ(), "HOME="+filepath.Join(dir, "home"), "XDG_CONFIG_HOME="+filepath.Join(dir, "home", ".config"), "GIT_CONFIG_NOSYSTEM=1",
		"GIT_CEILING_DIRECTORIES="+dir+":"+c.Work+":"+filepath.Dir(c.Work)+":"+filepath.Dir(filepath.Dir(c.Work)))
	return cmd
}
