package main

import "verif/harness/internal/core"

func init() {
	registry["C06"] = func(c *core.Ctx, replay string) {
		g := tqGen{cfg: "TQ_small.cfg", pinned: "TQ_pinned.cfg", budget: 600, perts: 2, conc: []int{1, 3, 8}, extraCfg: "TQ_pair.cfg", extraBudget: 300}
		if !c.Quick() {
			g = tqGen{cfg: "TQ_mid.cfg", pinned: "TQ_pinned.cfg", budget: 5000, perts: 4, conc: []int{1, 2, 3, 8},
				simulate: "num=3000", simCfg: "TQ_big.cfg"}
		}
		c.Assume("environment = scripted batch server + scripted fake adapter; schedules of the real goroutines are sampled by seeded perturbation at every hook, only the model's interleavings are exhausted")
		c.Assume("hang = no hook event for 5 s while the driver is blocked in Add/Wait (all scripted waits are <= 1 s); panic = child process exit status 2 with a Go panic on stderr")
		runTQ(c, c06Owner, g)
	}
	registry["C15"] = func(c *core.Ctx, replay string) {
		g := tqGen{cfg: "TQ_retry.cfg", pinned: "TQ_pinned.cfg", budget: 500, perts: 2, conc: []int{1, 2, 8}, extraCfg: "TQ_pair.cfg", extraBudget: 250}
		if !c.Quick() {
			g = tqGen{cfg: "TQ_retry3.cfg", pinned: "TQ_pinned.cfg", budget: 4000, perts: 4, conc: []int{1, 2, 4, 8},
				simulate: "num=3000", simCfg: "TQ_big.cfg"}
		}
		c.Assume("overlap and attempt counts are observed at the fake adapter (the point of truth); Retry-After is a lower bound on real time only; the back-off delay is read from the retry.delay hook event")
		runTQ(c, c15Owner, g)
	}
}
