package main

import (
	"bufio"
	"encoding/json"
	"fmt"
	"os"
	"path/filepath"
	"strings"
	"sync"

	"verif/harness/internal/core"
)

// expiryPhase: the real basic adapters with time passing between the hand-out of an action and its
// use (lfsdrv expiry); the server's log of offers and uses is validated by TLC against
// spec/ActionExpiry.tla.  Three scenarios of about 7 s each, run side by side.
func expiryPhase(c *core.Ctx) {
	drv := c.BuildDriver()
	scenarios := []string{"verify-after-slow-put", "upload-behind-slow-put", "download-behind-slow"}
	traces := make([]string, len(scenarios))
	var mu sync.Mutex
	var infra error
	core.Parallel(len(scenarios), len(scenarios), func(i int) {
		dir := filepath.Join(c.Work, "expiry-"+scenarios[i])
		os.MkdirAll(dir, 0o755)
		out := filepath.Join(dir, "trace")
		if b, err := driverCmd(c, drv, "expiry", scenarios[i], out).CombinedOutput(); err != nil {
			mu.Lock()
			infra = fmt.Errorf("expiry driver %s: %v\n%s", scenarios[i], err, core.Tail(string(b), 1500))
			mu.Unlock()
		}
		traces[i] = out
	})
	if infra != nil {
		c.Infra("%v", infra)
	}
	merged := filepath.Join(c.Work, "expiry-all.trace")
	mf, _ := os.Create(merged)
	w := bufio.NewWriter(mf)
	type line struct {
		scenario string
		raw      string
	}
	var lines []line
	nOffer, nUse, nLateOffers := 0, 0, 0
	for i, t := range traces {
		f, err := os.Open(t)
		if err != nil {
			c.Infra("expiry trace: %v", err)
		}
		sc := bufio.NewScanner(f)
		maxT := int64(0)
		var expiries []int64
		for sc.Scan() {
			var ev map[string]interface{}
			if json.Unmarshal(sc.Bytes(), &ev) != nil {
				continue
			}
			if tt, ok := ev["t"].(float64); ok && int64(tt) > maxT {
				maxT = int64(tt)
			}
			switch ev["ev"] {
			case "done":
				if res, _ := ev["result"].(string); res != "ok" {
					if strings.HasPrefix(res, "infra") {
						c.Infra("expiry scenario %s: %s", scenarios[i], res)
					}
					c.Report(core.Violation{Assertion: "expiry-is-no-excuse-for-a-lost-transfer", Fields: map[string]string{"scenario": scenarios[i], "layer": "action-expiry"},
						Detail: map[string]interface{}{"why": res, "trace": t}})
				}
				continue
			case "offer":
				nOffer++
				if e, _ := ev["expires"].(float64); e > 0 {
					expiries = append(expiries, int64(e))
				}
			case "use":
				nUse++
			}
			w.WriteString(sc.Text() + "\n")
			lines = append(lines, line{scenarios[i], sc.Text()})
		}
		f.Close()
		for _, e := range expiries {
			if e < maxT {
				nLateOffers++ // an advertised expiry passed while the scenario was still running
			}
		}
	}
	w.Flush()
	mf.Close()
	if nLateOffers < len(scenarios) || nUse < 5 {
		c.Infra("expiry phase is vacuous: %d offers, %d uses, %d offers whose expiry passed during their scenario", nOffer, nUse, nLateOffers)
	}
	ok, vr := c.ValidateTrace("ActionExpiry", "ActionExpiry.cfg", merged, false)
	if !ok {
		at := vr.Depth
		if at >= 1 && at <= len(lines) {
			c.Report(core.Violation{Assertion: "expired-action-never-used", Fields: map[string]string{"scenario": lines[at-1].scenario, "layer": "action-expiry"},
				Detail: map[string]interface{}{"why": "the acceptor ActionExpiry has no action for this line: a request used an action after the instant its offer advertised (or one never handed out)",
					"rejected_line": json.RawMessage(lines[at-1].raw), "trace_line": at}})
		} else {
			c.Infra("cannot attribute the rejection of the expiry trace at depth %d", at)
		}
	}
	c.Set("expiry_scenarios", scenarios)
	c.Set("expiry_offers", nOffer)
	c.Set("expiry_uses", nUse)
	c.Set("expiry_offers_that_ran_out_during_their_scenario", nLateOffers)
	c.Assume("action expiry with the real basic adapters: three scenarios (verify after a slow PUT, upload and download waiting behind a slow transfer on one worker), 6 s action life time, times by the server's clock")
}

func init() {
	registry["C06"] = func(c *core.Ctx, replay string) {
		g := tqGen{cfg: "TQ_small.cfg", pinned: "TQ_pinned.cfg", budget: 600, perts: 2, conc: []int{1, 3, 8}, extraCfg: "TQ_pair.cfg", extraBudget: 300}
		if !c.Quick() {
			g = tqGen{cfg: "TQ_mid.cfg", pinned: "TQ_pinned.cfg", budget: 5000, perts: 4, conc: []int{1, 2, 3, 8},
				simulate: "num=3000", simCfg: "TQ_big.cfg"}
		}
		c.Assume("environment = scripted batch server + scripted fake adapter; schedules of the real goroutines are sampled by seeded perturbation at every hook, only the model's interleavings are exhausted")
		c.Assume("hang = no hook event for 5 s while the driver is blocked in Add/Wait (all scripted waits are <= 1 s); panic = child process exit status 2 with a Go panic on stderr")
		workersPhase(c)
		runTQ(c, c06Owner, g)
	}
	registry["C15"] = func(c *core.Ctx, replay string) {
		g := tqGen{cfg: "TQ_retry.cfg", pinned: "TQ_pinned.cfg", budget: 500, perts: 2, conc: []int{1, 2, 8}, extraCfg: "TQ_pair.cfg", extraBudget: 250}
		if !c.Quick() {
			g = tqGen{cfg: "TQ_retry3.cfg", pinned: "TQ_pinned.cfg", budget: 4000, perts: 4, conc: []int{1, 2, 4, 8},
				simulate: "num=3000", simCfg: "TQ_big.cfg"}
		}
		c.Assume("overlap and attempt counts are observed at the fake adapter (the point of truth); Retry-After is a lower bound on real time only; the back-off delay is read from the retry.delay hook event")
		expiryPhase(c)
		runTQ(c, c15Owner, g)
	}
}
