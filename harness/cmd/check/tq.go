package main

// Transfer-queue binding shared by C06, C15 (and feeding C18): model-check
// spec/TransferQueue.tla, let TLC emit one environment script per
// environment edge, replay the scripts against the real tq.TransferQueue in
// child processes (panic / hang are observed directly), validate every
// recorded trace against the acceptor spec/TQAcct.tla.

import (
	"bufio"
	"encoding/json"
	"fmt"
	"hash/fnv"
	"os"
	"os/exec"
	"path/filepath"
	"sort"
	"strings"
	"sync"
	"time"

	"verif/harness/internal/core"
)

type tqScript struct {
	ID     int                 `json:"id"`
	Adds   []string            `json:"adds"`
	Resp   map[string][]string `json:"resp"`
	Ad     map[string][]string `json:"ad"`
	BCall  map[string][]string `json:"bcall"`
	BS     int                 `json:"bs"`
	MaxRet int                 `json:"maxret"`
	Upload bool                `json:"upload"`
	Pert   int64               `json:"pert"`
	Conc   int                 `json:"conc,omitempty"`
	Watch  int                 `json:"watch,omitempty"`
	Sched  string              `json:"sched,omitempty"`
}

func (s *tqScript) key() string {
	c := *s
	c.ID, c.Pert, c.Sched = 0, 0, ""
	b, _ := json.Marshal(c)
	return string(b)
}

// classes of environment choices present in a script (for stratified sampling
// and for matching known findings)
func (s *tqScript) classes() []string {
	set := map[string]bool{}
	for _, v := range s.Resp {
		for _, k := range v {
			set["resp:"+k] = true
		}
	}
	for _, v := range s.Ad {
		for _, k := range v {
			set["ad:"+k] = true
		}
	}
	for _, v := range s.BCall {
		for _, k := range v {
			set["bcall:"+k] = true
		}
	}
	seen := map[string]bool{}
	for _, a := range s.Adds {
		if seen[a] {
			set["adds:dup"] = true
		}
		seen[a] = true
	}
	out := []string{}
	for k := range set {
		out = append(out, k)
	}
	sort.Strings(out)
	return out
}

type tqOwner struct {
	name   string          // property id
	events map[string]bool // acceptor event kinds whose rejection this property owns
	direct map[string]bool // direct observations owned: "hang", "panic"
}

var c06Owner = tqOwner{
	name:   "C06",
	events: map[string]bool{"wg.add": true, "wg.done": true, "wg.done.aborted": true, "wg.abort": true, "remember.new": true, "remember.dup": true,
		"remember.dupdone": true, "obj.noaction": true, "obj.error": true, "obj.relerr": true, "batch.objfail": true,
		"obj.unknown": true, "obj.unanswered": true, "result.ok": true, "result.fail": true, "consume": true, "wait.ret": true, "hang": true, "reset": true},
	direct: map[string]bool{"hang": true, "panic": true},
}
var c15Owner = tqOwner{
	name:   "C15",
	events: map[string]bool{"retry": true, "retry.delay": true, "xfer.start": true, "xfer.end.ok": true, "xfer.end.retriable": true,
		"xfer.end.fatal": true, "xfer.end.unproc": true, "xfer.end.later": true, "srv.obj": true, "srv.later": true, "obj.xfer": true, "col.sleep": true},
	direct: map[string]bool{},
}

type tqGen struct {
	cfg      string // exhaustive config (also used for generation with Emit=TRUE)
	pinned   string // config transcribing the pinned code: must be violated (non-vacuity)
	simulate string // optional: second generation pass in simulation mode with this cfg
	simCfg   string
	extraCfg    string // optional: a second exhaustive config (other constants), model-checked and generated from as well
	extraBudget int
	budget   int // scripts to replay
	perts    int // perturbed schedules per script
	conc     []int
}

type tqRunResult struct {
	status string // ok | hang | panic
	script *tqScript
	stderr string
}

func writeCfgVariant(c *core.Ctx, base, name string, repl map[string]string) string {
	b, err := os.ReadFile(filepath.Join(c.Root, "spec", base))
	if err != nil {
		c.Infra("read cfg %s: %v", base, err)
	}
	s := string(b)
	for k, v := range repl {
		if !strings.Contains(s, k) {
			c.Infra("cfg %s lacks %q", base, k)
		}
		s = strings.Replace(s, k, v, 1)
	}
	// variants are written into spec/ scratch by name: TLC copies spec/ per run,
	// so write the variant under .work and let TLC() pick it up via absolute path
	p := filepath.Join(c.Work, name)
	if err := os.WriteFile(p, []byte(s), 0o644); err != nil {
		c.Infra("write cfg: %v", err)
	}
	return p
}

func runTQ(c *core.Ctx, own tqOwner, g tqGen) {
	c.Level = "model_checking"
	drv := c.BuildDriver()

	// 1. exhaustive model check of the design (Fixed = TRUE) with coverage
	c.Logf("TLC exhaustive %s", g.cfg)
	r := c.TLC(core.TLCOpts{Module: "TransferQueue", Cfg: g.cfg, Workers: 8, Coverage: true, Timeout: 30 * time.Minute, HeapGB: 12})
	c.MustPass(r, "TransferQueue/"+g.cfg)
	c.CheckCoverage(r, "AddBegin", "AddSend", "AddNotify", "WaitCall", "WaitWg", "WaitCol", "ColRecvFill", "ColSeeClosedFill", "ColLaunch",
		"ColRecvPending", "ColSeeClosedPending", "ColAfterBatch", "ColDrain", "ColWake", "BatchFail", "BatchFailStep", "BatchFailEnd",
		"BatchOkStep", "MissingAbort", "BatchDispatch", "AdapterFinish", "HandleResult", "Deliver", "BatchEnd", "Consume")
	c.Set("states", r.Distinct)
	c.Set("transitions", r.Generated)
	c.Set("model_depth", r.Depth)
	cov := map[string]int64{}
	for k, v := range r.Cov {
		cov[k] = v[1]
	}
	c.Set("action_coverage", cov)

	// 1b. liveness on the smallest configuration, under fairness of the queue's own steps, of the caller
	// eventually calling Wait and of the environment eventually answering: Wait returns, every Add returns
	rl := c.TLC(core.TLCOpts{Module: "TransferQueue", Cfg: "TQ_live.cfg", Workers: 6, Timeout: 20 * time.Minute, HeapGB: 8})
	c.MustPass(rl, "TransferQueue liveness (TQ_live.cfg)")
	c.Set("liveness_states", rl.Distinct)

	// 2. non-vacuity: the transcription of the pinned (pre-repair) code must violate the invariants
	rp := c.TLC(core.TLCOpts{Module: "TransferQueue", Cfg: g.pinned, Workers: 4, Timeout: 10 * time.Minute})
	if rp.Violated == "" {
		c.Infra("non-vacuity: %s did not violate any invariant", g.pinned)
	}
	c.Set("spec_mutant_violates", rp.Violated)

	// 3. generation: one script per environment edge
	gcfg := writeCfgVariant(c, g.cfg, "TQ_gen.cfg", map[string]string{"Emit = FALSE": "Emit = TRUE"})
	rg := c.TLC(core.TLCOpts{Module: "TransferQueue", Cfg: gcfg, Workers: 8, Timeout: 30 * time.Minute, HeapGB: 12})
	c.MustPass(rg, "TransferQueue generation")
	seen := map[string]bool{}
	var all []*tqScript
	addScript := func(raw []byte) error {
		var s tqScript
		if err := json.Unmarshal(raw, &s); err != nil {
			return err
		}
		k := s.key()
		if !seen[k] {
			seen[k] = true
			all = append(all, &s)
		}
		return nil
	}
	nEdges, err := core.ReadBehaviours(rg.OutFile, addScript)
	if err != nil {
		c.Infra("read behaviours: %v", err)
	}
	if g.simulate != "" {
		scfg := writeCfgVariant(c, g.simCfg, "TQ_sim.cfg", map[string]string{"Emit = FALSE": "Emit = TRUE"})
		rs := c.TLC(core.TLCOpts{Module: "TransferQueue", Cfg: scfg, Workers: 4, Simulate: g.simulate, Depth: 80, Timeout: 20 * time.Minute})
		if rs.Violated != "" {
			c.Infra("simulation found model violation %s\n%s", rs.Violated, core.Tail(rs.Out, 3000))
		}
		n2, err := core.ReadBehaviours(rs.OutFile, addScript)
		if err != nil {
			c.Infra("read sim behaviours: %v", err)
		}
		nEdges += n2
	}
	c.Set("env_edges_emitted", nEdges)
	c.Set("distinct_scripts", len(all))
	if len(all) < 50 {
		c.Infra("generation produced only %d scripts", len(all))
	}

	// 4. deterministic stratified sample under VERIF_SEED: every class of
	// environment choice is represented, the rest is filled by hash order
	h := func(s *tqScript) uint64 {
		f := fnv.New64a()
		fmt.Fprintf(f, "%d|%s", c.Seed, s.key())
		return f.Sum64()
	}
	pick := func(all []*tqScript, budget int) []*tqScript {
		sort.Slice(all, func(i, j int) bool { return h(all[i]) < h(all[j]) })
		var chosen []*tqScript
		perClass := map[string]int{}
		quota := budget / 40
		if quota < 5 {
			quota = 5
		}
		picked := map[*tqScript]bool{}
		for _, s := range all {
			need := false
			for _, cl := range s.classes() {
				if perClass[cl] < quota {
					need = true
				}
			}
			if need && len(chosen) < budget {
				for _, cl := range s.classes() {
					perClass[cl]++
				}
				chosen = append(chosen, s)
				picked[s] = true
			}
		}
		for _, s := range all {
			if len(chosen) >= budget {
				break
			}
			if !picked[s] {
				chosen = append(chosen, s)
			}
		}
		return chosen
	}
	chosen := pick(all, g.budget)
	if g.extraCfg != "" {
		// other constants (e.g. batches of two over three objects with fewer answer kinds): checked
		// exhaustively and generated from like the main config, with a replay budget of its own
		xcfg := writeCfgVariant(c, g.extraCfg, "TQ_xgen.cfg", map[string]string{"Emit = FALSE": "Emit = TRUE"})
		rx := c.TLC(core.TLCOpts{Module: "TransferQueue", Cfg: xcfg, Workers: 8, Timeout: 30 * time.Minute, HeapGB: 12})
		c.MustPass(rx, "TransferQueue/"+g.extraCfg)
		var extra []*tqScript
		xseen := map[string]bool{}
		nx, err := core.ReadBehaviours(rx.OutFile, func(raw []byte) error {
			var s tqScript
			if err := json.Unmarshal(raw, &s); err != nil {
				return err
			}
			if k := s.key(); !xseen[k] && !seen[k] {
				xseen[k] = true
				extra = append(extra, &s)
			}
			return nil
		})
		if err != nil {
			c.Infra("read behaviours of %s: %v", g.extraCfg, err)
		}
		c.Set("extra_config", g.extraCfg)
		c.Set("extra_config_states", rx.Distinct)
		c.Set("extra_config_edges_emitted", nx)
		c.Set("extra_config_distinct_scripts", len(extra))
		chosen = append(chosen, pick(extra, g.extraBudget)...)
	}
	// expand by perturbed schedules / concurrency
	var runs []*tqScript
	id := 0
	for _, s := range chosen {
		for p := 0; p < g.perts; p++ {
			cp := *s
			id++
			cp.ID = id
			cp.Pert = c.Seed*1000 + int64(p) + 1
			if p == 0 && g.perts > 1 {
				cp.Pert = 0 // one unperturbed schedule
			}
			if len(g.conc) > 0 {
				cp.Conc = g.conc[(id+p)%len(g.conc)]
			}
			runs = append(runs, &cp)
		}
	}
	// targeted schedule family "late duplicate": for scripts that add an object more than once, the last
	// duplicate is added only after the object's transfer has succeeded while the watcher is slow to drain,
	// i.e. while the queue is still handing out that object's deliveries
	nLate := 0
	for _, s := range chosen {
		dup := false
		seenAdd := map[string]bool{}
		for _, a := range s.Adds {
			if seenAdd[a] {
				dup = true
			}
			seenAdd[a] = true
		}
		if dup && !s.Upload {
			cp := *s
			id++
			cp.ID = id
			cp.Pert = 0
			cp.Sched = "latedup"
			runs = append(runs, &cp)
			nLate++
		}
	}
	c.Set("late_duplicate_schedules", nLate)
	// targeted schedule family "late add": for scripts with several objects of which one is retried, the
	// last new object is added only once a retry has been scheduled, so that a fresh object and a
	// retried one (different retry counts) can end up in one batch
	nLateAdd := 0
	for _, s := range chosen {
		distinct := map[string]bool{}
		for _, a := range s.Adds {
			distinct[a] = true
		}
		retries := false
		for _, l := range s.Ad {
			for _, k := range l {
				if k == "retriable" || k == "later" {
					retries = true
				}
			}
		}
		for _, l := range s.Resp {
			for _, k := range l {
				if k == "expired" {
					retries = true
				}
			}
		}
		if len(distinct) >= 2 && retries && nLateAdd < g.budget/2 {
			cp := *s
			id++
			cp.ID = id
			cp.Pert = 0
			cp.Sched = "lateadd"
			runs = append(runs, &cp)
			nLateAdd++
		}
	}
	c.Set("late_add_schedules", nLateAdd)
	c.Set("scripts_replayed", len(chosen))
	classCounts := map[string]int{}
	for _, s := range chosen {
		for _, cl := range s.classes() {
			classCounts[cl]++
		}
	}
	c.Set("class_counts", classCounts)
	c.Logf("replaying %d runs (%d scripts x %d schedules) of %d distinct scripts", len(runs), len(chosen), g.perts, len(all))

	// 5. replay in child processes
	byID := map[int]*tqScript{}
	for _, s := range runs {
		byID[s.ID] = s
	}
	nproc := 16
	chunks := make([][]*tqScript, nproc)
	for i, s := range runs {
		chunks[i%nproc] = append(chunks[i%nproc], s)
	}
	var mu sync.Mutex
	var traces []string
	var apis []string
	var bad []tqRunResult
	core.Parallel(nproc, nproc, func(i int) {
		rest := chunks[i]
		part := 0
		for len(rest) > 0 {
			part++
			base := filepath.Join(c.Work, fmt.Sprintf("tq-%d-%d", i, part))
			res := runDriverChunk(c, drv, base, rest)
			mu.Lock()
			traces = append(traces, base+".trace")
			apis = append(apis, base+".api")
			mu.Unlock()
			if res.status == "ok" {
				break
			}
			mu.Lock()
			bad = append(bad, res)
			mu.Unlock()
			// continue after the culprit
			idx := -1
			for k, s := range rest {
				if s.ID == res.script.ID {
					idx = k
				}
			}
			if idx < 0 {
				break
			}
			rest = rest[idx+1:]
		}
	})

	// direct observations: hang / panic, confirmed by re-running the script alone
	badIDs := map[int]bool{}
	directSeen := map[string]int{}
	unreproducedHangs := 0
	for _, b := range bad {
		badIDs[b.script.ID] = true
		confirmed := false
		tries := 6
		if b.status == "panic" {
			tries = 12
		}
		for try := 0; try < tries && !confirmed; try++ {
			base := filepath.Join(c.Work, fmt.Sprintf("tq-confirm-%d-%d", b.script.ID, try))
			r2 := runDriverChunk(c, drv, base, []*tqScript{b.script})
			if r2.status == b.status {
				confirmed = true
			}
		}
		// A Go panic raised inside the queue's own package is an observation of the real code whether or
		// not the schedule that led to it comes back: the driver process died of it, with the goroutine
		// dump on its stderr.  (A hang could also be a slow machine, so it still has to repeat.)
		inQueue := b.status == "panic" && strings.Contains(b.stderr, "panic: ") && strings.Contains(b.stderr, "github.com/git-lfs/git-lfs/v3/tq.")
		if !confirmed && !inQueue && b.status == "hang" && unreproducedHangs < 2 {
			// five seconds without an event that did not come back in six re-runs of the same script
			// alone: a stalled machine, not an observation of the code.  Counted, not judged; more than
			// two of them in one run are inconclusive all the same.
			unreproducedHangs++
			c.AddInt("hang_candidates_not_reproduced", 1)
			continue
		}
		if !confirmed && !inQueue {
			c.Infra("candidate %s of script %d did not reproduce in %d re-runs: inconclusive\n%s", b.status, b.script.ID, tries, core.Tail(b.stderr, 1500))
		}
		directSeen[b.status]++
		if own.direct[b.status] {
			cls := strings.Join(b.script.classes(), ",")
			c.Report(core.Violation{Assertion: "direct:" + b.status,
				Fields: map[string]string{"classes": cls, "status": b.status, "repeated": fmt.Sprint(confirmed)},
				Detail: map[string]interface{}{"script": b.script, "stderr_tail": core.Tail(b.stderr, 2500),
					"note": "repeated=false: the panic was observed once in a run over several scripts and did not come back when this script was re-run alone (schedule-dependent; an earlier script of the same driver process may have set it up)"}})
		}
	}
	c.Set("direct_observations", directSeen)

	// 6. trace validation against the acceptor (all invariants on)
	merged := filepath.Join(c.Work, "all.trace")
	nRuns, nEvents := mergeTraces(c, traces, merged, badIDs)
	c.Set("trace_events", nEvents)
	validated := 0
	rejections := map[string]int{}
	otherProp := map[string]int{}
	skip := map[int]bool{}
	for iter := 0; iter < 40; iter++ {
		cur := merged
		if len(skip) > 0 {
			cur = filepath.Join(c.Work, fmt.Sprintf("all-%d.trace", iter))
			filterTrace(c, merged, cur, skip)
		}
		ok, vr := c.ValidateTrace("TQAcct", "TQAcct.cfg", cur, false)
		if ok {
			validated = nRuns - len(skip)
			break
		}
		line := vr.Depth // first unmatched line (1-based) = matched states
		if vr.Violated != "POSTCONDITION" {
			// an invariant failed in the state after consuming line Depth-1
			line = vr.Depth - 1
		}
		rid, ev := traceLineInfo(c, cur, line)
		if rid == 0 {
			c.Infra("cannot attribute rejection at line %d of %s (violated %s)\n%s", line, cur, vr.Violated, core.Tail(vr.Out, 2000))
		}
		skip[rid] = true
		what := "acct:" + ev.Ev
		if vr.Violated != "POSTCONDITION" {
			what = "acct-inv:" + vr.Violated
		}
		rejections[what]++
		s := byID[rid]
		if own.events[ev.Ev] || (vr.Violated != "POSTCONDITION" && own.events["wg.done"]) {
			c.Report(core.Violation{Assertion: what, Fields: map[string]string{"classes": strings.Join(s.classes(), ","), "event": ev.Ev},
				Detail: map[string]interface{}{"script": s, "rejected_event": ev, "trace_line": line,
					"note": "the acceptor TQAcct has no action matching this event in the state reached by the preceding events of the run"}})
		} else {
			otherProp[what]++
		}
		if iter == 39 {
			c.Logf("more than 40 rejected runs; stopping attribution")
		}
	}
	c.Set("traces_validated_against_impl", validated)
	c.Set("trace_rejections", rejections)
	c.Set("rejections_owned_by_other_property", otherProp)
	// 7. transition-level binding of the batch goroutine (spec/BatchStep.tla)
	nsteps := runBatchSteps(c, drv, own.name)
	c.Set("evaluations", len(runs)+nsteps)
	c.Set("distinct_nontrivial", len(chosen)+nsteps)
	c.Set("rule", "scripts = TLC-emitted environment scripts (one per environment edge of the exhaustive run, de-duplicated); non-trivial = distinct script; each replayed under the listed number of perturbed schedules")
	for i, s := range chosen {
		if i%(len(chosen)/4+1) == 0 {
			c.Sample(s)
		}
	}
	// keep api logs for C18
	apiOut := filepath.Join(c.Root, ".work", "api-"+c.ID+".ndjson")
	concatFiles(apis, apiOut)
}

func runDriverChunk(c *core.Ctx, drv, base string, scripts []*tqScript) tqRunResult {
	sf := base + ".scripts"
	f, _ := os.Create(sf)
	enc := json.NewEncoder(f)
	for _, s := range scripts {
		enc.Encode(s)
	}
	f.Close()
	cmd := driverCmd(c, drv, "tq", sf, base+".trace", base+".api", base+".results")
	cmd.Dir = c.Work
	var se strings.Builder
	cmd.Stderr = &se
	done := make(chan error, 1)
	if err := cmd.Start(); err != nil {
		c.Infra("start driver: %v", err)
	}
	go func() { done <- cmd.Wait() }()
	var err error
	select {
	case err = <-done:
	case <-time.After(time.Duration(len(scripts))*20*time.Second + time.Minute):
		cmd.Process.Kill()
		<-done
		c.Infra("driver chunk %s exceeded its deadline while still making progress (inconclusive)", base)
	}
	if err == nil {
		return tqRunResult{status: "ok"}
	}
	// find the script that was running
	last := 0
	rf, _ := os.Open(base + ".results")
	if rf != nil {
		sc := bufio.NewScanner(rf)
		for sc.Scan() {
			var m struct {
				ID     int    `json:"id"`
				Status string `json:"status"`
			}
			if json.Unmarshal(sc.Bytes(), &m) == nil && m.Status == "start" {
				last = m.ID
			}
		}
		rf.Close()
	}
	var culprit *tqScript
	for _, s := range scripts {
		if s.ID == last {
			culprit = s
		}
	}
	code := -1
	if ee, ok := err.(*exec.ExitError); ok {
		code = ee.ExitCode()
	}
	if culprit == nil {
		c.Infra("driver died (exit %d) outside any script\n%s", code, core.Tail(se.String(), 2000))
	}
	switch {
	case code == 3:
		return tqRunResult{status: "hang", script: culprit, stderr: se.String()}
	case code == 2 && (strings.Contains(se.String(), "panic:") || strings.Contains(se.String(), "fatal error:")):
		return tqRunResult{status: "panic", script: culprit, stderr: se.String()}
	}
	c.Infra("driver exit %d (not a hang or panic)\n%s", code, core.Tail(se.String(), 2000))
	return tqRunResult{}
}

type tqEv struct {
	Seq int    `json:"seq"`
	Ev  string `json:"ev"`
	Oid string `json:"oid"`
	N   int    `json:"n"`
	T   int    `json:"t"`
	ID  int    `json:"id,omitempty"`
}

// mergeTraces concatenates the per-process traces, dropping runs that hung or panicked
// (those are reported directly and their traces are incomplete).
func mergeTraces(c *core.Ctx, files []string, out string, drop map[int]bool) (runs, events int) {
	of, err := os.Create(out)
	if err != nil {
		c.Infra("merge: %v", err)
	}
	defer of.Close()
	w := bufio.NewWriter(of)
	defer w.Flush()
	sort.Strings(files)
	for _, fn := range files {
		f, err := os.Open(fn)
		if err != nil {
			continue
		}
		sc := bufio.NewScanner(f)
		sc.Buffer(make([]byte, 1<<20), 1<<22)
		keep := false
		for sc.Scan() {
			var e tqEv
			if json.Unmarshal(sc.Bytes(), &e) != nil {
				continue
			}
			if e.Ev == "reset" {
				keep = !drop[e.ID]
				if keep {
					runs++
				}
			}
			if keep {
				w.Write(sc.Bytes())
				w.WriteByte('\n')
				events++
			}
		}
		f.Close()
	}
	return
}

func filterTrace(c *core.Ctx, in, out string, skip map[int]bool) {
	f, err := os.Open(in)
	if err != nil {
		c.Infra("filter: %v", err)
	}
	defer f.Close()
	of, _ := os.Create(out)
	defer of.Close()
	w := bufio.NewWriter(of)
	defer w.Flush()
	sc := bufio.NewScanner(f)
	sc.Buffer(make([]byte, 1<<20), 1<<22)
	keep := true
	for sc.Scan() {
		var e tqEv
		json.Unmarshal(sc.Bytes(), &e)
		if e.Ev == "reset" {
			keep = !skip[e.ID]
		}
		if keep {
			w.Write(sc.Bytes())
			w.WriteByte('\n')
		}
	}
}

// traceLineInfo returns the run id owning the given 1-based line and the event on it.
func traceLineInfo(c *core.Ctx, file string, line int) (int, tqEv) {
	f, err := os.Open(file)
	if err != nil {
		return 0, tqEv{}
	}
	defer f.Close()
	sc := bufio.NewScanner(f)
	sc.Buffer(make([]byte, 1<<20), 1<<22)
	cur, n := 0, 0
	var last tqEv
	for sc.Scan() {
		n++
		var e tqEv
		json.Unmarshal(sc.Bytes(), &e)
		if e.Ev == "reset" {
			cur = e.ID
		}
		last = e
		if n == line {
			return cur, e
		}
	}
	// trace ended before the line (e.g. truncated run): attribute to the last run
	return cur, last
}

func concatFiles(files []string, out string) {
	of, err := os.Create(out)
	if err != nil {
		return
	}
	defer of.Close()
	for _, fn := range files {
		b, err := os.ReadFile(fn)
		if err == nil {
			of.Write(b)
		}
	}
}
