package main

// workersPhase (C06): the worker pool every transfer adapter is built on, spec/AdapterWorkers.tla.
// TLC checks the design (every worker ends, so End() and with it the wait for the queue return; the
// variant that clears the flag at hand-out must violate that) and emits every scenario (number of
// workers, which jobs fail before the server accepted anything); each is played to the real basic
// download adapter under a real queue (lfsdrv workers) and the adapter's own trace lines are
// validated by TLC against spec/AdapterWorkersTrace.tla.

import (
	"bufio"
	"encoding/json"
	"fmt"
	"os"
	"path/filepath"
	"regexp"
	"strings"
	"time"

	"verif/harness/internal/core"
)

type workersScenario struct {
	Workers int      `json:"workers"`
	Jobs    []string `json:"jobs"`
	raw     string
}

var xferLine = regexp.MustCompile(`xfer: adapter "basic" worker (\d+) (waiting for Auth|auth signal received|processing job for "([0-9a-f]+)"|finished job for "([0-9a-f]+)"|stopping)`)

func workersPhase(c *core.Ctx) {
	cfg := "AdapterWorkers_q.cfg"
	if !c.Quick() {
		cfg = "AdapterWorkers_t.cfg"
	}
	r := c.TLC(core.TLCOpts{Module: "AdapterWorkers", Cfg: cfg, Workers: 4, Timeout: 20 * time.Minute})
	c.MustPass(r, "AdapterWorkers/"+cfg)
	if rm := c.TLC(core.TLCOpts{Module: "AdapterWorkers", Cfg: "AdapterWorkers_handout.cfg", Workers: 4, Timeout: 10 * time.Minute}); rm.Violated == "" {
		c.Infra("non-vacuity: the variant that clears the flag when the callback is handed out must violate Terminates")
	}
	var scs []*workersScenario
	if _, err := core.ReadBehaviours(r.OutFile, func(raw []byte) error {
		var s workersScenario
		if err := json.Unmarshal(raw, &s); err != nil {
			return err
		}
		s.raw = string(raw)
		scs = append(scs, &s)
		return nil
	}); err != nil {
		c.Infra("read scenarios: %v", err)
	}
	if len(scs) < 10 {
		c.Infra("only %d worker-pool scenarios", len(scs))
	}
	drv := c.BuildDriver()
	type outcome struct {
		events []map[string]interface{}
		res    map[string]interface{}
		err    error
	}
	outs := make([]outcome, len(scs))
	core.Parallel(len(scs), 8, func(i int) {
		s := scs[i]
		dir := filepath.Join(c.Work, fmt.Sprintf("workers-%d", i))
		os.MkdirAll(dir, 0o755)
		defer os.RemoveAll(dir)
		resFile, traceFile := filepath.Join(dir, "result.json"), filepath.Join(dir, "git-trace")
		jb, _ := json.Marshal(s.Jobs)
		cmd := driverCmd(c, drv, "workers", fmt.Sprint(s.Workers), string(jb), resFile)
		cmd.Env = append(cmd.Env, "GIT_TRACE="+traceFile, "GIT_TRANSFER_TRACE=1")
		b, runErr := cmd.CombinedOutput()
		var res map[string]interface{}
		rb, _ := os.ReadFile(resFile)
		if json.Unmarshal(rb, &res) != nil {
			outs[i].err = fmt.Errorf("workers driver %s: %v\n%s", s.raw, runErr, core.Tail(string(b), 1200))
			return
		}
		if inf, _ := res["infra"].(string); inf != "" {
			outs[i].err = fmt.Errorf("workers driver: %s", inf)
			return
		}
		var oids []string // in scenario order
		if l, ok := res["oids"].([]interface{}); ok {
			for _, o := range l {
				oids = append(oids, fmt.Sprint(o))
			}
		}
		failFirst := map[string]bool{}
		for k, o := range oids {
			failFirst[o] = s.Jobs[k] == "fail"
		}
		evs := []map[string]interface{}{{"ev": "reset", "workers": s.Workers, "jobs": s.Jobs}}
		seen := map[string]int{}
		tf, err := os.Open(traceFile)
		if err != nil {
			outs[i].err = fmt.Errorf("no trace file: %v", err)
			return
		}
		sc := bufio.NewScanner(tf)
		sc.Buffer(make([]byte, 1<<20), 1<<24)
		for sc.Scan() {
			m := xferLine.FindStringSubmatch(sc.Text())
			if m == nil {
				continue
			}
			var w int
			fmt.Sscanf(m[1], "%d", &w)
			switch {
			case m[2] == "waiting for Auth":
				evs = append(evs, map[string]interface{}{"ev": "wait", "w": w})
			case m[2] == "auth signal received":
				evs = append(evs, map[string]interface{}{"ev": "recv", "w": w})
			case strings.HasPrefix(m[2], "processing"):
				seen[m[3]]++
				evs = append(evs, map[string]interface{}{"ev": "proc", "w": w, "oid": m[3][:8], "good": !(failFirst[m[3]] && seen[m[3]] == 1)})
			case strings.HasPrefix(m[2], "finished"):
				evs = append(evs, map[string]interface{}{"ev": "fin", "w": w, "oid": m[4][:8]})
			case m[2] == "stopping":
				evs = append(evs, map[string]interface{}{"ev": "stop", "w": w})
			}
		}
		tf.Close()
		once := true
		okm, _ := res["ok"].(map[string]interface{})
		fm, _ := res["failed"].(map[string]interface{})
		for _, o := range oids {
			a, _ := okm[o].(float64)
			b, _ := fm[o].(float64)
			if a+b != 1 {
				once = false
			}
		}
		ret, _ := res["returned"].(bool)
		evs = append(evs, map[string]interface{}{"ev": "end", "returned": ret, "once": once})
		outs[i] = outcome{events: evs, res: res}
	})
	var runOf []int
	trace := filepath.Join(c.Work, "workers.trace")
	{
		f, _ := os.Create(trace)
		w := bufio.NewWriter(f)
		enc := json.NewEncoder(w)
		for i, o := range outs {
			if o.err != nil {
				c.Infra("%v", o.err)
			}
			for _, e := range o.events {
				enc.Encode(e)
				runOf = append(runOf, i)
			}
		}
		w.Flush()
		f.Close()
	}
	kinds := map[string]int{}
	for _, o := range outs {
		for _, e := range o.events {
			kinds[fmt.Sprint(e["ev"])]++
		}
	}
	if kinds["recv"] == 0 || kinds["proc"] == 0 || kinds["stop"] == 0 {
		c.Infra("vacuity: the adapter wrote no trace lines (%v)", kinds)
	}
	skip := map[int]bool{}
	validated := 0
	for iter := 0; iter < 12; iter++ {
		cur := filepath.Join(c.Work, fmt.Sprintf("workers-%d.trace", iter))
		idxMap := filterByRun(trace, cur, runOf, skip)
		ok, vr := c.ValidateTrace("AdapterWorkersTrace", "AdapterWorkersTrace.cfg", cur, false)
		if ok {
			validated = len(scs) - len(skip)
			break
		}
		if vr.Depth < 1 || vr.Depth-1 >= len(idxMap) {
			c.Infra("cannot attribute the rejection of the worker-pool trace at line %d", vr.Depth)
		}
		ri := runOf[idxMap[vr.Depth-1]]
		skip[ri] = true
		evb, _ := os.ReadFile(cur)
		var ev map[string]interface{}
		json.Unmarshal([]byte(strings.Split(string(evb), "\n")[vr.Depth-1]), &ev)
		assertion := "worker-pool-conforms"
		if ev["ev"] == "end" {
			assertion = "wait-returns-and-every-object-is-reported-once"
		}
		first := "ok"
		if len(scs[ri].Jobs) > 0 {
			first = scs[ri].Jobs[0]
		}
		c.Report(core.Violation{Assertion: assertion, Fields: map[string]string{"layer": "adapter-workers", "event": fmt.Sprint(ev["ev"]), "first_job": first},
			Detail: map[string]interface{}{"scenario": json.RawMessage(scs[ri].raw), "rejected_event": ev, "events": outs[ri].events, "result": outs[ri].res,
				"note": "the acceptor AdapterWorkersTrace has no action for this line in the state reached by the scenario's earlier lines"}})
	}
	c.Set("worker_pool_scenarios", len(scs))
	c.Set("worker_pool_traces_validated", validated)
	c.Set("worker_pool_trace_events", kinds)
	c.Assume("worker pool: the real basic download adapter under a real queue with 3 (thorough: 4) workers and up to 4 (6) objects; a failing job is a first GET answered 503; the recorded trace is what the adapter itself writes under GIT_TRANSFER_TRACE; a wait that has not returned after 20 s counts as not returning")
}
