package main

// C12: migrate import / export.  spec/Migrate.tla predicts, for every explored
// history and selection, the representation every path of every commit must
// have after the rewrite; the harness runs the real command and compares the
// rewritten history commit by commit: graph shape, authorship, dates,
// messages, modes, resolved content, representation, refs.

import (
	"encoding/json"
	"fmt"
	"os"
	"path/filepath"
	"sort"
	"strings"
	"time"

	"verif/harness/internal/core"
	"verif/harness/internal/gitenv"
)

type commitInfo struct {
	sha, subject, meta string
	parents            []string // subjects of the parents, in order
}

// dupSubject: the refs reach two commits carrying the same message.  The harness never builds such a
// history, so before a rewrite it is a harness fault; after a rewrite it means that original and
// rewritten copies of one commit are both reachable, i.e. the graph shape changed.
type dupSubject string

func (d dupSubject) Error() string { return fmt.Sprintf("two commits with subject %q", string(d)) }

func readHistory(w *World) (map[string]*commitInfo, error) {
	r := w.Env.Git(w.Clone, "log", "--all", "--format=%H%x01%s%x01%an|%ae|%at|%cn|%ce|%ct%x01%P")
	if !r.OK() {
		return nil, fmt.Errorf("log: %s", r.All())
	}
	bySha := map[string]*commitInfo{}
	var list []*commitInfo
	for _, l := range strings.Split(strings.TrimSpace(r.Stdout), "\n") {
		f := strings.Split(l, "\x01")
		if len(f) < 4 {
			continue
		}
		ci := &commitInfo{sha: f[0], subject: f[1], meta: f[2]}
		ci.parents = strings.Fields(f[3])
		bySha[ci.sha] = ci
		list = append(list, ci)
	}
	out := map[string]*commitInfo{}
	for _, ci := range list {
		ps := []string{}
		for _, p := range ci.parents {
			if pc, ok := bySha[p]; ok {
				ps = append(ps, pc.subject)
			} else {
				ps = append(ps, "?"+p)
			}
		}
		ci.parents = ps
		if _, dup := out[ci.subject]; dup {
			return nil, dupSubject(ci.subject)
		}
		out[ci.subject] = ci
	}
	return out, nil
}

// blobAt returns (exists, mode, bytes) of path in commit.
func blobAt(w *World, sha, path string) (bool, string, []byte) {
	r := w.Env.Git(w.Clone, "ls-tree", sha, "--", path)
	if !r.OK() || strings.TrimSpace(r.Stdout) == "" {
		return false, "", nil
	}
	mode := strings.Fields(r.Stdout)[0]
	b := w.Env.RunIn(w.Clone, nil, nil, 0, "git", "cat-file", "blob", sha+":"+path)
	return true, mode, []byte(b.Stdout)
}

// resolve follows a pointer through the local store.
func resolve(w *World, b []byte) (repr string, content []byte, err error) {
	s := string(b)
	if strings.HasPrefix(s, "version https://git-lfs.github.com/spec/v1\noid sha256:") && len(b) < 1024 {
		oid := s[len("version https://git-lfs.github.com/spec/v1\noid sha256:"):]
		if len(oid) < 64 {
			return "ptr", nil, fmt.Errorf("short pointer")
		}
		oid = oid[:64]
		c, e := os.ReadFile(gitenv.LocalObjectPath(w.GitDir(), oid))
		if e != nil {
			return "ptr", nil, fmt.Errorf("object %s not in local storage", oid)
		}
		if core.Sha(c) != oid {
			return "ptr", nil, fmt.Errorf("object %s in local storage is corrupt", oid)
		}
		return "ptr", c, nil
	}
	return "raw", b, nil
}

func replayMigrate(c *core.Ctx, lfsBin string, b *behaviour, idx int) (*core.Violation, error) {
	root := filepath.Join(c.Work, fmt.Sprintf("w%d", idx))
	defer os.RemoveAll(root)
	w, err := NewWorldOpts(root, filepath.Dir(lfsBin), c.Seed, WorldOpts{NoAttrs: true, RawBig: b.hash%2 == 1})
	if err != nil {
		return nil, err
	}
	defer w.Close()
	paths := []string{"p1", "p2"}
	var before map[string]*commitInfo
	original := map[string]map[string][]byte{} // subject -> path -> resolved bytes ("" key absent => no entry)
	modes := map[string]map[string]string{}
	snapshot := func() error {
		h, err := readHistory(w)
		if err != nil {
			return err
		}
		before = h
		for subj, ci := range h {
			original[subj] = map[string][]byte{}
			modes[subj] = map[string]string{}
			for _, p := range paths {
				ok, mode, by := blobAt(w, ci.sha, PathFile(p))
				if !ok {
					continue
				}
				_, content, err := resolve(w, by)
				if err != nil {
					return fmt.Errorf("original history: %v", err)
				}
				original[subj][p] = content
				modes[subj][p] = mode
			}
		}
		return nil
	}
	for i, s := range b.steps {
		handled, err := applyRepoStep(w, s)
		if err != nil {
			return nil, fmt.Errorf("step %d %v: %v", i, s, err)
		}
		if handled {
			continue
		}
		switch a := s.str("a"); a {
		case "chmod":
			x, _ := s["x"].(bool)
			if err := w.Chmod(s.str("b"), s.str("p"), x); err != nil {
				return nil, fmt.Errorf("step %d %v: %v", i, s, err)
			}
		case "relink":
			l, _ := s["link"].(bool)
			if err := w.Relink(s.str("b"), s.str("p"), l); err != nil {
				return nil, fmt.Errorf("step %d %v: %v", i, s, err)
			}
		case "setattr":
			on, _ := s["on"].(bool)
			if err := w.SetAttr(s.str("b"), s.str("which"), on); err != nil {
				return nil, fmt.Errorf("step %d %v: %v", i, s, err)
			}
		case "tag":
			r := w.Env.GitDate(w.Clone, w.Now-1800, "tag", "-a", "-m", "annotated tag v1", "v1", s.str("b"))
			if !r.OK() {
				return nil, fmt.Errorf("tag: %s", r.All())
			}
		case "import", "export", "fixup":
			if before == nil {
				if err := snapshot(); err != nil {
					return nil, err
				}
				// the history the harness built has the representations the specification says it has
				if r0, ok := s["repr0"].([]interface{}); ok {
					for ci := range w.Commits {
						want, _ := r0[ci].(map[string]interface{})
						for subj, ci2 := range before {
							if !strings.HasPrefix(subj, fmt.Sprintf("c%d ", ci+1)) {
								continue
							}
							for _, p := range paths {
								okb, _, by := blobAt(w, ci2.sha, PathFile(p))
								got := "none"
								if okb {
									got, _, _ = resolve(w, by)
								}
								if wr, _ := want[p].(string); wr != got {
									return nil, fmt.Errorf("world/spec mismatch: commit %q path %s is %s before the rewrite, spec says %s", subj, p, got, wr)
								}
							}
						}
					}
				}
				// the history the harness built has the modes the specification says it has
				if ex, ok := s["exec"].([]interface{}); ok {
					for ci := range w.Commits {
						want := map[string]bool{}
						if ci < len(ex) {
							for _, p := range toStrings(ex[ci]) {
								want[p] = true
							}
						}
						for subj, m := range modes {
							if !strings.HasPrefix(subj, fmt.Sprintf("c%d ", ci+1)) {
								continue
							}
							for p, mode := range m {
								if mode == "120000" {
									continue // symbolic links are listed in the step's links field
								}
								if (mode == "100755") != want[p] {
									return nil, fmt.Errorf("world/spec mismatch: commit %q path %s has mode %s, spec exec=%v", subj, p, mode, want)
								}
							}
						}
					}
				}
			}
			sel := toStrings(s["sel"])
			include := ""
			args := []string{"lfs", "migrate", "import", "--fixup", "--everything", "--yes"}
			if a != "fixup" {
				include = "/" + PathFile(sel[0]) // rooted: the selection is a path, not a base name
				if len(sel) > 1 {
					include = "*.bin"
				}
				args = []string{"lfs", "migrate", a, "--everything", "--include=" + include, "--yes"}
			}
			w.logf("git %s", strings.Join(args, " "))
			r := w.Env.RunIn(w.Clone, nil, nil, 180*time.Second, "git", args...)
			mk := func(assertion, why string) *core.Violation {
				return &core.Violation{Assertion: assertion, Fields: map[string]string{"op": a, "include": include},
					Detail: map[string]interface{}{"why": why, "behaviour": json.RawMessage(b.raw), "exit": r.Code, "output": core.Tail(r.All(), 1200), "commands": w.Log}}
			}
			if r.Code != 0 {
				return mk("migrate-succeeds", "the command failed on a well-formed history"), nil
			}
			after, err := readHistory(w)
			if d, isDup := err.(dupSubject); isDup {
				return mk("same-commit-graph", fmt.Sprintf("after the rewrite the refs reach two commits with the message %q: an original commit is still reachable next to its rewritten copy", string(d))), nil
			}
			if err != nil {
				return nil, err
			}
			// same commits (by message), same authorship / dates, same graph shape
			if len(after) != len(before) {
				return mk("same-commit-graph", fmt.Sprintf("%d commits before, %d after", len(before), len(after))), nil
			}
			subjects := []string{}
			for subj := range before {
				subjects = append(subjects, subj)
			}
			sort.Strings(subjects)
			for _, subj := range subjects {
				na, ok := after[subj]
				if !ok {
					return mk("same-commit-graph", "commit "+subj+" disappeared"), nil
				}
				if na.meta != before[subj].meta {
					return mk("same-authorship-and-dates", fmt.Sprintf("commit %q: %s became %s", subj, before[subj].meta, na.meta)), nil
				}
				if strings.Join(na.parents, ",") != strings.Join(before[subj].parents, ",") {
					return mk("same-commit-graph", fmt.Sprintf("commit %q: parents %v became %v", subj, before[subj].parents, na.parents)), nil
				}
			}
			// per commit and path: mode, resolved content, representation
			reprs, _ := s["repr"].([]interface{})
			for ci, sha := range w.Commits {
				_ = sha
				var subj string
				for sj := range before {
					if strings.HasPrefix(sj, fmt.Sprintf("c%d ", ci+1)) {
						subj = sj
					}
				}
				if subj == "" {
					return nil, fmt.Errorf("no subject for abstract commit %d", ci+1)
				}
				want, _ := reprs[ci].(map[string]interface{})
				for _, p := range paths {
					ok, mode, by := blobAt(w, after[subj].sha, PathFile(p))
					wr, _ := want[p].(string)
					if !ok {
						if wr != "none" {
							return mk("same-content-per-path", fmt.Sprintf("%s is missing from rewritten commit %q", p, subj)), nil
						}
						continue
					}
					if wr == "none" {
						return mk("same-content-per-path", fmt.Sprintf("%s appeared in rewritten commit %q", p, subj)), nil
					}
					repr, content, rerr := resolve(w, by)
					if rerr != nil {
						return mk("same-content-per-path", fmt.Sprintf("commit %q path %s: %v", subj, p, rerr)), nil
					}
					if string(content) != string(original[subj][p]) {
						return mk("same-content-per-path", fmt.Sprintf("commit %q path %s resolves to different bytes after the rewrite", subj, p)), nil
					}
					if mode != modes[subj][p] {
						return mk("same-mode-per-path", fmt.Sprintf("commit %q path %s mode %s became %s", subj, p, modes[subj][p], mode)), nil
					}
					if repr != wr {
						v := mk("exactly-selected-paths-change-representation", fmt.Sprintf("commit %q path %s is %s, the specification says %s", subj, p, repr, wr))
						if a == "fixup" {
							// was the very same entry (path, ordinary blob) decided in an earlier commit under other attributes?
							v.Fields["cause"] = "unclassified"
							r0, _ := s["repr0"].([]interface{})
							tr, _ := s["tracked"].([]interface{})
							marked := func(k int) bool { return k < len(tr) && toSet(toStrings(tr[k]))[p] }
							for k := 0; k < ci && k < len(r0); k++ {
								m, _ := r0[k].(map[string]interface{})
								if m[p] == "raw" && marked(k) != marked(ci) {
									v.Fields["cause"] = "entry-decided-under-an-earlier-commits-attributes"
								}
							}
						}
						return v, nil
					}
				}
			}
			// refs follow the rewritten commits
			heads, _ := s["heads"].(map[string]interface{})
			for bname, v := range heads {
				n := int(v.(float64))
				if n == 0 {
					continue
				}
				rr := w.Env.Git(w.Clone, "log", "-1", "--format=%s", "refs/heads/"+bname)
				if !strings.HasPrefix(strings.TrimSpace(rr.Stdout), fmt.Sprintf("c%d ", n)) {
					return mk("refs-follow-rewritten-commits", fmt.Sprintf("branch %s points at %q, expected commit c%d", bname, strings.TrimSpace(rr.Stdout), n)), nil
				}
				if sha := strings.TrimSpace(w.Env.Git(w.Clone, "rev-parse", "refs/heads/"+bname).Stdout); after[strings.TrimSpace(rr.Stdout)] == nil || after[strings.TrimSpace(rr.Stdout)].sha != sha {
					return mk("refs-follow-rewritten-commits", "branch "+bname+" does not point into the rewritten history"), nil
				}
			}
			if tg, _ := s["tagged"].(float64); tg > 0 {
				rr := w.Env.Git(w.Clone, "log", "-1", "--format=%s", "v1")
				tt := w.Env.Git(w.Clone, "cat-file", "-t", "v1")
				if !strings.HasPrefix(strings.TrimSpace(rr.Stdout), fmt.Sprintf("c%d ", int(tg))) || strings.TrimSpace(tt.Stdout) != "tag" {
					return mk("refs-follow-rewritten-commits", fmt.Sprintf("tag v1 is a %s at %q, expected an annotated tag at commit c%d", strings.TrimSpace(tt.Stdout), strings.TrimSpace(rr.Stdout), int(tg))), nil
				}
			}
			before = after
		default:
			return nil, fmt.Errorf("unknown step %v", s)
		}
	}
	return nil, nil
}

func init() {
	registry["C12"] = func(c *core.Ctx, replay string) {
		pathDir["p2"] = "sub/" // p2 lives in a directory of its own (nested .gitattributes)
		// ... under p1's file name and, where both hold ordinary content, with p1's bytes: the same
		// (name, blob) entry at two places of the tree, told apart by nothing but the directory
		pathBase["p2"] = "p1.bin"
		rawTwin["p2"] = "p1"
		if replayBehaviourOnly(c, replay, replayMigrate, "model_checking") {
			return
		}
		c.Level = "model_checking"
		lfs := c.BuildLFS()
		cfg, budget := "Migrate_q.cfg", 400
		if !c.Quick() {
			cfg, budget = "Migrate_t.cfg", 2500
		}
		gcfg := writeCfgVariant(c, cfg, "Migrate_gen.cfg", map[string]string{"Emit = FALSE": "Emit = TRUE"})
		r := c.TLC(core.TLCOpts{Module: "Migrate", Cfg: gcfg, Workers: 8, Timeout: 40 * time.Minute, HeapGB: 12})
		c.MustPass(r, "Migrate/"+cfg)
		c.Set("states", r.Distinct)
		c.Set("transitions", r.Generated)
		actionsSeen = map[string]int{}
		byClass := map[string][]*behaviour{}
		total := 0
		if _, err := core.ReadBehaviours(r.OutFile, func(raw []byte) error {
			var st []step
			if err := json.Unmarshal(raw, &st); err != nil {
				return err
			}
			total++
			feat := map[string]bool{}
			lastAge := map[string]int{} // age of each branch's tip as the world dates it
			for _, s := range st {
				actionsSeen[s.str("a")]++
				switch s.str("a") {
				case "setattr":
					feat["attr:"+s.str("which")] = true
					if on, _ := s["on"].(bool); !on {
						feat["attr-removed"] = true
					}
					lastAge[s.str("b")] = 0
				case "merge", "tag", "chmod", "relink":
					feat[s.str("a")] = true
					if s.str("a") != "tag" {
						lastAge[s.str("b")] = 0
					}
				case "commit":
					feat["b:"+ReprName(s.str("blob"))] = true
					if s.str("b") != "main" {
						feat["branch"] = true
					}
					parent, ok := lastAge[s.str("b")]
					if !ok {
						parent = lastAge["main"]
					}
					if age := s.num("age"); age > parent {
						// a commit dated before its parent (clock skew): date order is not topological order
						feat["skew"] = true
						if s.str("b") != "main" {
							feat["skew-branch"] = true
						}
					}
					lastAge[s.str("b")] = s.num("age")
				}
			}
			fs := []string{}
			for k := range feat {
				fs = append(fs, k)
			}
			sort.Strings(fs)
			last := st[len(st)-1]
			k := fmt.Sprintf("%s|%d|%v|%s", last.str("a"), len(toStrings(last["sel"])), len(st) > 1 && st[len(st)-2].str("a") == "import", strings.Join(fs, ","))
			bb := &behaviour{steps: st, raw: raw, class: k, hash: fnvStr(string(raw), c.Seed)}
			l := append(byClass[k], bb)
			if len(l) > 6 {
				sort.Slice(l, func(i, j int) bool { return l[i].hash < l[j].hash })
				l = l[:3]
			}
			byClass[k] = l
			return nil
		}); err != nil {
			c.Infra("read behaviours: %v", err)
		}
		requireActions(c, "commit", "merge", "tag", "chmod", "relink", "setattr", "import", "export", "fixup")
		keys := []string{}
		for k := range byClass {
			keys = append(keys, k)
		}
		sort.Slice(keys, func(i, j int) bool { return fnvStr(keys[i], c.Seed) < fnvStr(keys[j], c.Seed) })
		var bs []*behaviour
		for round := 0; round < 3 && len(bs) < budget; round++ {
			for _, k := range keys {
				l := byClass[k]
				sort.Slice(l, func(i, j int) bool { return l[i].hash < l[j].hash })
				if round < len(l) && len(bs) < budget {
					bs = append(bs, l[round])
				}
			}
		}
		c.Set("edges_emitted", total)
		c.Set("behaviour_classes", len(keys))
		c.Logf("replaying %d of %d behaviours (%d classes)", len(bs), total, len(keys))
		runBehaviours(c, lfs, bs, replayMigrate, 14)
		c.Set("traces_validated_against_impl", len(bs))
		c.Set("evaluations", len(bs))
		c.Set("distinct_nontrivial", len(bs))
		c.Set("rule", "behaviours = per-edge output of spec/Migrate.tla for every edge ending in an import, an export (after an import) or a --fixup; sampled round-robin over classes (command x selection size x features merge / tag / chmod / relink / blob kinds / branch / a commit dated before its parent)")
		for i := 0; i < len(bs); i += len(bs)/4 + 1 {
			c.Sample(json.RawMessage(bs[i].raw))
		}
		c.Assume("commit dates need not follow ancestry (Skew); --everything with --include of one path or *.bin; executable bit only through mode-only commits; symbolic links only as type changes of ordinary files (same blob); --fixup over histories with a top-level and a nested .gitattributes line; --above, --no-rewrite, --include-ref/--exclude-ref are not yet modelled; .gitattributes written by migrate is treated as managed metadata and not compared")
	}
}

func ReprName(blob string) string {
	if blob == "none" || blob == "raw" {
		return blob
	}
	return "ptr"
}
