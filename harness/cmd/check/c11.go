package main

// C11: .lfsconfig.  spec/LfsConfig.tla enumerates key class x spelling x
// location of the .lfsconfig x "also set in Git's configuration" and states
// where the effective value must come from.  Each key class has a probe that
// plants distinguishable values V1 (.lfsconfig) and V2 (git config) and
// observes which of them git-lfs acts on: through `git lfs env`, or through
// sentinels (programs that leave a mark when executed, listeners that record
// a connection).

import (
	"encoding/json"
	"fmt"
	"net"
	"os"
	"path/filepath"
	"strings"
	"sync"
	"time"

	"verif/harness/internal/core"
	"verif/harness/internal/gitenv"
	"verif/harness/internal/lfsserver"
)

type cfgCase struct {
	Key        string `json:"key"`
	Documented bool   `json:"documented"`
	Form       string `json:"form"` // plain | access-suffix: the .lfsconfig line carries the value under "<key>.access"
	Before     []string `json:"before"` // the other lines of the .lfsconfig, all documented keys
	After      []string `json:"after"`
	Spelling   string `json:"spelling"`
	Location   string `json:"location"`
	AlsoGit    bool   `json:"alsoGit"`
	Expect     string `json:"expect"` // none | lfsconfig | git
}

// cfgProbe plants values and observes.  kv(i) returns the key/value lines for source i (1 = .lfsconfig, 2 = git).
type cfgProbe struct {
	kv      func(w *cfgWorld, i int) [][2]string
	prepare func(w *cfgWorld) error               // extra repository set-up before the sources are written
	observe func(w *cfgWorld) (map[int]bool, string) // which of V1 / V2 is acted upon (+ evidence text)
}

type cfgWorld struct {
	env     *gitenv.Env
	root    string
	repo    string
	srv     *lfsserver.Server
	marks   [3]string // marker files touched by sentinel programs
	sent    [3]string // sentinel program paths
	proxies [3]*proxyProbe
}

type proxyProbe struct {
	ln  net.Listener
	hit bool
	mu  sync.Mutex
}

func newProxyProbe() *proxyProbe {
	ln, err := net.Listen("tcp", "127.0.0.1:0")
	if err != nil {
		return nil
	}
	p := &proxyProbe{ln: ln}
	go func() {
		for {
			c, err := ln.Accept()
			if err != nil {
				return
			}
			p.mu.Lock()
			p.hit = true
			p.mu.Unlock()
			c.Close()
		}
	}()
	return p
}

func (w *cfgWorld) envOut() string {
	r := w.env.RunIn(w.repo, nil, nil, 60*time.Second, "git-lfs", "env")
	return r.All()
}
func envField(out, field string) string {
	for _, l := range strings.Split(out, "\n") {
		if strings.HasPrefix(l, field+"=") {
			return strings.TrimPrefix(l, field+"=")
		}
	}
	return ""
}

func scalarProbe(key, field, v1, v2 string) cfgProbe {
	return cfgProbe{
		kv: func(w *cfgWorld, i int) [][2]string { return [][2]string{{key, map[int]string{1: v1, 2: v2}[i]}} },
		observe: func(w *cfgWorld) (map[int]bool, string) {
			out := w.envOut()
			got := envField(out, field)
			return map[int]bool{1: strings.HasPrefix(got, v1), 2: strings.HasPrefix(got, v2) && v2 != ""}, field + "=" + got
		},
	}
}

// battery runs commands that make git-lfs transfer, authenticate and clean.
func (w *cfgWorld) battery() string {
	var sb strings.Builder
	ptr := canonPointer(core.Sha([]byte("absent object")), 1234)
	for _, c := range [][]string{{"clean", "x.bin"}, {"smudge", "x.bin"}, {"fetch"}, {"locks"}, {"ls-files"}, {"push", "--dry-run", "origin", "main"}} {
		stdin := []byte("some file content for clean\n")
		if c[0] == "smudge" {
			stdin = []byte(ptr)
		}
		r := w.env.RunIn(w.repo, []string{"GIT_TERMINAL_PROMPT=0"}, stdin, 60*time.Second, "git-lfs", c...)
		fmt.Fprintf(&sb, "$ git lfs %s -> %d\n%s\n", strings.Join(c, " "), r.Code, core.Tail(r.Stderr, 300))
	}
	return sb.String()
}

func (w *cfgWorld) marksSeen() map[int]bool {
	out := map[int]bool{}
	for i := 1; i <= 2; i++ {
		if _, err := os.Stat(w.marks[i]); err == nil {
			out[i] = true
		}
	}
	return out
}

func execProbe(kv func(w *cfgWorld, i int) [][2]string, prepare func(w *cfgWorld) error) cfgProbe {
	return cfgProbe{kv: kv, prepare: prepare, observe: func(w *cfgWorld) (map[int]bool, string) {
		log := w.battery()
		return w.marksSeen(), log
	}}
}

const lfsEndpointDefault = "https://example.com/foo/bar.git/info/lfs"

func cfgProbes() map[string]cfgProbe {
	p := map[string]cfgProbe{
		"lfs.url":                          scalarProbe("lfs.url", "Endpoint", "http://127.0.0.1:1/v1", "http://127.0.0.1:1/v2"),
		"remote.origin.lfsurl":             scalarProbe("remote.origin.lfsurl", "Endpoint", "http://127.0.0.1:1/v1", "http://127.0.0.1:1/v2"),
		"lfs.skipdownloaderrors":           scalarProbe("lfs.skipdownloaderrors", "SkipDownloadErrors", "true", ""),
		"lfs.concurrenttransfers":          scalarProbe("lfs.concurrenttransfers", "ConcurrentTransfers", "3", "5"),
		"lfs.tustransfers":                 scalarProbe("lfs.tustransfers", "TusTransfers", "true", ""),
		"lfs.basictransfersonly":           scalarProbe("lfs.basictransfersonly", "BasicTransfersOnly", "true", ""),
		"lfs.fetchrecentalways":            scalarProbe("lfs.fetchrecentalways", "FetchRecentAlways", "true", ""),
		"lfs.fetchrecentrefsdays":          scalarProbe("lfs.fetchrecentrefsdays", "FetchRecentRefsDays", "11", "13"),
		"lfs.fetchrecentcommitsdays":       scalarProbe("lfs.fetchrecentcommitsdays", "FetchRecentCommitsDays", "11", "13"),
		"lfs.fetchrecentremoterefs":        scalarProbe("lfs.fetchrecentremoterefs", "FetchRecentRefsIncludeRemotes", "false", ""),
		"lfs.pruneoffsetdays":              scalarProbe("lfs.pruneoffsetdays", "PruneOffsetDays", "11", "13"),
		"lfs.pruneverifyremotealways":      scalarProbe("lfs.pruneverifyremotealways", "PruneVerifyRemoteAlways", "true", ""),
		"lfs.pruneverifyunreachablealways": scalarProbe("lfs.pruneverifyunreachablealways", "PruneVerifyUnreachableAlways", "true", ""),
		"lfs.pruneremotetocheck":           scalarProbe("lfs.pruneremotetocheck", "PruneRemoteName", "remoteone", "remotetwo"),
	}
	// boolean keys: V2 is the default value; "git" is then observed as "not V1"
	p["lfs.storage"] = cfgProbe{
		kv: func(w *cfgWorld, i int) [][2]string {
			return [][2]string{{"lfs.storage", filepath.Join(w.root, fmt.Sprintf("storage%d", i))}}
		},
		observe: func(w *cfgWorld) (map[int]bool, string) {
			got := envField(w.envOut(), "LfsStorageDir")
			return map[int]bool{1: strings.Contains(got, "storage1"), 2: strings.Contains(got, "storage2")}, "LfsStorageDir=" + got
		},
	}
	p["lfs.<url>.access"] = cfgProbe{
		kv: func(w *cfgWorld, i int) [][2]string {
			return [][2]string{{"lfs." + lfsEndpointDefault + ".access", map[int]string{1: "basic", 2: "negotiate"}[i]}}
		},
		observe: func(w *cfgWorld) (map[int]bool, string) {
			got := envField(w.envOut(), "Endpoint")
			return map[int]bool{1: strings.Contains(got, "auth=basic"), 2: strings.Contains(got, "auth=negotiate")}, "Endpoint=" + got
		},
	}
	names := func(field, a, b string) func(w *cfgWorld) (map[int]bool, string) {
		return func(w *cfgWorld) (map[int]bool, string) {
			var lines []string
			for _, l := range strings.Split(w.envOut(), "\n") {
				if strings.HasPrefix(l, field) { // only the lines that report the setting, not warnings that quote key names
					lines = append(lines, l)
				}
			}
			out := strings.Join(lines, "\n")
			return map[int]bool{1: strings.Contains(out, a), 2: strings.Contains(out, b)}, out
		}
	}
	p["lfs.customtransfer.x.path"] = cfgProbe{
		kv: func(w *cfgWorld, i int) [][2]string {
			return [][2]string{{fmt.Sprintf("lfs.customtransfer.ctsrc%d.path", i), "/bin/true"}}
		},
		observe: names("UploadTransfers", "ctsrc1", "ctsrc2"),
	}
	p["lfs.extension.x.priority"] = cfgProbe{
		kv: func(w *cfgWorld, i int) [][2]string {
			if i == 1 { // the key class under test alone
				return [][2]string{{"lfs.extension.extsrc1.priority", "1"}}
			}
			return [][2]string{{"lfs.extension.extsrc2.clean", "cat"}, {"lfs.extension.extsrc2.smudge", "cat"}, {"lfs.extension.extsrc2.priority", "2"}}
		},
		observe: names("Extension", "extsrc1", "extsrc2"),
	}
	// any other property of an extension (here one the allow-list lets through by its pattern <...>.access)
	p["lfs.extension.x.other"] = cfgProbe{
		kv: func(w *cfgWorld, i int) [][2]string {
			if i == 1 {
				return [][2]string{{"lfs.extension.extsrc1.access", "basic"}}
			}
			return [][2]string{{"lfs.extension.extsrc2.clean", "cat"}, {"lfs.extension.extsrc2.smudge", "cat"}, {"lfs.extension.extsrc2.priority", "2"}}
		},
		observe: names("Extension", "extsrc1", "extsrc2"),
	}
	p["lfs.extension.x.clean"] = execProbe(func(w *cfgWorld, i int) [][2]string {
		n := fmt.Sprintf("extsrc%d", i)
		return [][2]string{{"lfs.extension." + n + ".clean", w.sent[i] + " %f"}, {"lfs.extension." + n + ".smudge", w.sent[i] + " %f"}, {"lfs.extension." + n + ".priority", fmt.Sprint(i)}}
	}, nil)
	p["lfs.standalonetransferagent"] = execProbe(func(w *cfgWorld, i int) [][2]string {
		n := fmt.Sprintf("ctsrc%d", i)
		return [][2]string{{"lfs.standalonetransferagent", n}, {"lfs.customtransfer." + n + ".path", w.sent[i]}}
	}, nil)
	p["core.askpass"] = execProbe(func(w *cfgWorld, i int) [][2]string {
		return [][2]string{{"core.askpass", w.sent[i]}}
	}, func(w *cfgWorld) error {
		w.srv.RequireAuth = true
		return gitOK(w.env.Git(w.repo, "config", "lfs.url", w.srv.LFSURL("cfgrepo", "")))
	})
	p["credential.helper"] = execProbe(func(w *cfgWorld, i int) [][2]string {
		return [][2]string{{"credential.helper", "!" + w.sent[i]}}
	}, func(w *cfgWorld) error {
		w.srv.RequireAuth = true
		return gitOK(w.env.Git(w.repo, "config", "lfs.url", w.srv.LFSURL("cfgrepo", "")))
	})
	p["core.sshcommand"] = execProbe(func(w *cfgWorld, i int) [][2]string {
		return [][2]string{{"core.sshcommand", w.sent[i]}}
	}, func(w *cfgWorld) error {
		return gitOK(w.env.Git(w.repo, "config", "lfs.url", "ssh://git@127.0.0.1:1/some/repo.git"))
	})
	p["http.proxy"] = cfgProbe{
		kv: func(w *cfgWorld, i int) [][2]string {
			return [][2]string{{"http.proxy", "http://" + w.proxies[i].ln.Addr().String()}}
		},
		prepare: func(w *cfgWorld) error {
			return gitOK(w.env.Git(w.repo, "config", "lfs.url", "http://lfs-host.invalid/some/repo.git/info/lfs"))
		},
		observe: func(w *cfgWorld) (map[int]bool, string) {
			log := w.battery()
			out := map[int]bool{}
			for i := 1; i <= 2; i++ {
				w.proxies[i].mu.Lock()
				out[i] = w.proxies[i].hit
				w.proxies[i].mu.Unlock()
			}
			return out, log
		},
	}
	endpointHas := func(a, b string) func(w *cfgWorld) (map[int]bool, string) {
		return func(w *cfgWorld) (map[int]bool, string) {
			out := w.envOut()
			var eps []string
			for _, l := range strings.Split(out, "\n") {
				if strings.HasPrefix(l, "Endpoint") {
					eps = append(eps, l)
				}
			}
			e := strings.Join(eps, "\n")
			return map[int]bool{1: strings.Contains(e, a), 2: strings.Contains(e, b)}, e
		}
	}
	p["remote.lfsdefault"] = cfgProbe{
		kv: func(w *cfgWorld, i int) [][2]string {
			return [][2]string{{"remote.lfsdefault", fmt.Sprintf("other%d", i)}}
		},
		prepare: func(w *cfgWorld) error {
			for i := 1; i <= 2; i++ {
				if err := gitOK(w.env.Git(w.repo, "remote", "add", fmt.Sprintf("other%d", i), fmt.Sprintf("https://other%d.example.com/r.git", i))); err != nil {
					return err
				}
			}
			return nil
		},
		observe: func(w *cfgWorld) (map[int]bool, string) {
			got := envField(w.envOut(), "Endpoint")
			return map[int]bool{1: strings.Contains(got, "other1.example.com"), 2: strings.Contains(got, "other2.example.com")}, "Endpoint=" + got
		},
	}
	p["remote.pushdefault"] = cfgProbe{
		kv: func(w *cfgWorld, i int) [][2]string {
			return [][2]string{{"remote.pushdefault", fmt.Sprintf("other%d", i)}}
		},
		prepare: p["remote.lfsdefault"].prepare,
		observe: func(w *cfgWorld) (map[int]bool, string) {
			r := w.env.RunIn(w.repo, nil, nil, 60*time.Second, "git-lfs", "push", "--dry-run", "--all")
			// without arguments push needs a remote: use the trace of the endpoint chosen for uploads
			r = w.env.RunIn(w.repo, []string{"GIT_TRACE=1"}, nil, 60*time.Second, "git-lfs", "locks")
			out := r.All()
			return map[int]bool{1: strings.Contains(out, "other1.example.com"), 2: strings.Contains(out, "other2.example.com")}, core.Tail(out, 600)
		},
	}
	p["remote.lfspushdefault"] = cfgProbe{
		kv: func(w *cfgWorld, i int) [][2]string {
			return [][2]string{{"remote.lfspushdefault", fmt.Sprintf("other%d", i)}}
		},
		prepare: p["remote.lfsdefault"].prepare,
		observe: p["remote.pushdefault"].observe,
	}
	p["remote.origin.url"] = cfgProbe{
		kv: func(w *cfgWorld, i int) [][2]string {
			return [][2]string{{"remote.origin.url", fmt.Sprintf("https://planted%d.example.com/r.git", i)}}
		},
		prepare: func(w *cfgWorld) error { return gitOK(w.env.Git(w.repo, "remote", "remove", "origin")) },
		observe: endpointHas("planted1.example.com", "planted2.example.com"),
	}
	p["remote.origin.pushurl"] = cfgProbe{
		kv: func(w *cfgWorld, i int) [][2]string {
			return [][2]string{{"remote.origin.pushurl", fmt.Sprintf("https://planted%d.example.com/r.git", i)}}
		},
		observe: func(w *cfgWorld) (map[int]bool, string) {
			r := w.env.RunIn(w.repo, []string{"GIT_TRACE=1", "GIT_CURL_VERBOSE=1"}, nil, 60*time.Second, "git-lfs", "push", "--dry-run", "origin", "main")
			out := r.All() + w.envOut()
			return map[int]bool{1: strings.Contains(out, "planted1.example.com"), 2: strings.Contains(out, "planted2.example.com")}, core.Tail(out, 600)
		},
	}
	p["remote.a.b.url"] = cfgProbe{
		kv: func(w *cfgWorld, i int) [][2]string {
			return [][2]string{{fmt.Sprintf("remote.dotted.name%d.url", i), fmt.Sprintf("https://planted%d.example.com/r.git", i)}}
		},
		observe: endpointHas("planted1.example.com", "planted2.example.com"),
	}
	p["url.<base>.insteadof"] = cfgProbe{
		kv: func(w *cfgWorld, i int) [][2]string {
			return [][2]string{{fmt.Sprintf("url.https://planted%d.example.com/.insteadof", i), "https://example.com/"}}
		},
		observe: endpointHas("planted1.example.com", "planted2.example.com"),
	}
	p["filter.lfs.clean"] = execProbe(func(w *cfgWorld, i int) [][2]string {
		return [][2]string{{"filter.lfs.clean", w.sent[i] + " %f"}, {"filter.lfs.process", ""}}
	}, nil)
	p["include.path"] = cfgProbe{
		kv: func(w *cfgWorld, i int) [][2]string {
			inc := filepath.Join(w.root, fmt.Sprintf("included%d.cfg", i))
			os.WriteFile(inc, []byte(fmt.Sprintf("[lfs]\n\tconcurrenttransfers = %d\n", 2+i)), 0o644)
			return [][2]string{{"include.path", inc}}
		},
		observe: func(w *cfgWorld) (map[int]bool, string) {
			got := envField(w.envOut(), "ConcurrentTransfers")
			return map[int]bool{1: got == "3", 2: got == "4"}, "ConcurrentTransfers=" + got
		},
	}
	return p
}

func gitOK(r gitenv.Result) error {
	if !r.OK() {
		return fmt.Errorf("git: %s", r.All())
	}
	return nil
}

// renderConfig writes key/value pairs in git-config file syntax.
func renderConfig(kvs [][2]string, spelling string) string {
	var sb strings.Builder
	for _, kv := range kvs {
		k := kv[0]
		first, last := strings.Index(k, "."), strings.LastIndex(k, ".")
		sec, sub, name := k[:first], "", k[last+1:]
		if last > first {
			sub = k[first+1 : last]
		}
		if spelling == "mixed" { // section and variable names are case-insensitive in Git
			sec = strings.ToUpper(sec[:1]) + sec[1:]
			name = strings.ToUpper(name[:1]) + name[1:]
		}
		if sub != "" {
			fmt.Fprintf(&sb, "[%s \"%s\"]\n", sec, strings.ReplaceAll(sub, `\`, `\\`))
		} else {
			fmt.Fprintf(&sb, "[%s]\n", sec)
		}
		fmt.Fprintf(&sb, "\t%s = %s\n", name, kv[1])
	}
	return sb.String()
}

// neighbourLine is another, documented, line of the .lfsconfig under test; it names things no probe looks at.
func neighbourLine(class string) [2]string {
	switch class {
	case "ctx.access":
		return [2]string{"lfs.https://ctx.invalid/other/repo.access", "basic"}
	case "ctx.remote.lfsurl":
		return [2]string{"remote.ctxremote.lfsurl", "https://ctx.invalid/other/repo.git/info/lfs"}
	default:
		return [2]string{"lfs.fetchexclude", "ctx-matches-nothing-*"}
	}
}

func runCfgCase(c *core.Ctx, lfsBin string, cs *cfgCase, idx int, probes map[string]cfgProbe) (*core.Violation, error) {
	pr, ok := probes[cs.Key]
	if !ok {
		return nil, fmt.Errorf("no probe for key class %s", cs.Key)
	}
	root := filepath.Join(c.Work, fmt.Sprintf("c%d", idx))
	defer os.RemoveAll(root)
	env, err := gitenv.New(root, filepath.Dir(lfsBin))
	if err != nil {
		return nil, err
	}
	srv, err := lfsserver.New()
	if err != nil {
		return nil, err
	}
	defer srv.Close()
	w := &cfgWorld{env: env, root: root, repo: filepath.Join(root, "repo"), srv: srv}
	for i := 1; i <= 2; i++ {
		w.marks[i] = filepath.Join(root, fmt.Sprintf("mark%d", i))
		w.sent[i] = filepath.Join(root, fmt.Sprintf("sentinel%d.sh", i))
		os.WriteFile(w.sent[i], []byte(fmt.Sprintf("#!/bin/sh\ntouch %s\nexit 1\n", w.marks[i])), 0o755)
		w.proxies[i] = newProxyProbe()
		defer w.proxies[i].ln.Close()
	}
	if err := env.InitRepo(w.repo, false); err != nil {
		return nil, err
	}
	for _, a := range [][]string{{"remote", "add", "origin", "https://example.com/foo/bar.git"}, {"commit", "-q", "--allow-empty", "-m", "root"},
		{"config", "lfs.transfer.maxretries", "1"}, {"config", "lfs.transfer.maxretrydelay", "0"}, {"config", "lfs.dialtimeout", "2"}} {
		if err := gitOK(env.Git(w.repo, a...)); err != nil {
			return nil, err
		}
	}
	os.WriteFile(filepath.Join(w.repo, ".git", "info", "attributes"), []byte("*.bin filter=lfs diff=lfs merge=lfs -text\n"), 0o644)
	if pr.prepare != nil {
		if err := pr.prepare(w); err != nil {
			return nil, err
		}
	}
	// source 1: .lfsconfig at the given location
	var kvs [][2]string
	for _, n := range cs.Before {
		if n == "ctx.dupkey" {
			// the very line(s) under test, written a first time
			kvs = append(kvs, pr.kv(w, 1)...)
			continue
		}
		if n == "ctx.samekey" {
			// the same key, set to exactly what Git's own configuration says (the second source's lines)
			kvs = append(kvs, pr.kv(w, 2)...)
			continue
		}
		kvs = append(kvs, neighbourLine(n))
	}
	for _, kv := range pr.kv(w, 1) {
		if cs.Form == "access-suffix" {
			kv[0] += ".access"
		}
		kvs = append(kvs, kv)
	}
	for _, n := range cs.After {
		kvs = append(kvs, neighbourLine(n))
	}
	lfsconfig := renderConfig(kvs, cs.Spelling)
	cfgFile := filepath.Join(w.repo, ".lfsconfig")
	os.WriteFile(cfgFile, []byte(lfsconfig), 0o644)
	switch cs.Location {
	case "index":
		if err := gitOK(env.Git(w.repo, "add", ".lfsconfig")); err != nil {
			return nil, err
		}
		os.Remove(cfgFile)
	case "head":
		if err := gitOK(env.Git(w.repo, "add", ".lfsconfig")); err != nil {
			return nil, err
		}
		if err := gitOK(env.Git(w.repo, "commit", "-q", "-m", "add lfsconfig")); err != nil {
			return nil, err
		}
		if err := gitOK(env.Git(w.repo, "rm", "-q", "--cached", ".lfsconfig")); err != nil {
			return nil, err
		}
		os.Remove(cfgFile)
	}
	// source 2: git's own configuration
	if cs.AlsoGit {
		for _, kv := range pr.kv(w, 2) {
			if err := gitOK(env.Git(w.repo, "config", kv[0], kv[1])); err != nil {
				return nil, err
			}
		}
	}
	seen, evidence := pr.observe(w)
	mk := func(assertion, why string) *core.Violation {
		return &core.Violation{Assertion: assertion, Fields: map[string]string{"key": cs.Key, "location": cs.Location, "spelling": cs.Spelling, "alsoGit": fmt.Sprint(cs.AlsoGit), "form": cs.Form, "before": strings.Join(cs.Before, ","), "after": strings.Join(cs.After, ",")},
			Detail: map[string]interface{}{"why": why, "case": cs, "lfsconfig": lfsconfig, "evidence": evidence, "acted_on_lfsconfig_value": seen[1], "acted_on_git_value": seen[2]}}
	}
	switch cs.Expect {
	case "none":
		if seen[1] {
			return mk("only-documented-keys-from-lfsconfig", "a key outside the documented allow-list took effect from .lfsconfig"), nil
		}
	case "git":
		if seen[1] {
			if cs.Documented {
				return mk("git-config-wins", "the .lfsconfig value was used although Git's configuration sets the key"), nil
			}
			return mk("only-documented-keys-from-lfsconfig", "a key outside the documented allow-list took effect from .lfsconfig"), nil
		}
	case "lfsconfig":
		if !seen[1] {
			// a documented key that does not take effect is not what C11 forbids; recorded as drift
			c.AddInt("drift_documented_key_without_effect", 1)
		}
	}
	return nil, nil
}

func init() {
	registry["C11"] = func(c *core.Ctx, replay string) {
		c.Level = "exploration"
		lfs := c.BuildLFS()
		cfg := "LfsConfig_q.cfg"
		if !c.Quick() {
			cfg = "LfsConfig_t.cfg"
		}
		r := c.TLC(core.TLCOpts{Module: "LfsConfig_MC", Cfg: cfg, Workers: 4, Timeout: 10 * time.Minute})
		c.MustPass(r, "LfsConfig")
		if rm := c.TLC(core.TLCOpts{Module: "LfsConfig_MC", Cfg: "LfsConfig_prefixmatch.cfg", Workers: 4, Timeout: 10 * time.Minute}); rm.Violated == "" {
			c.Infra("non-vacuity: the variant whose consumers match keys by prefix violates nothing")
		}
		if rm := c.TLC(core.TLCOpts{Module: "LfsConfig_MC", Cfg: "LfsConfig_stateful.cfg", Workers: 4, Timeout: 10 * time.Minute}); rm.Violated == "" {
			c.Infra("non-vacuity: the variant whose allow decision survives from line to line violates nothing")
		} else {
			c.Set("spec_mutant_violates", rm.Violated)
		}
		c.Set("states", r.Distinct)
		c.Set("transitions", r.Generated)
		probes := cfgProbes()
		// an `ssh` that fails at once, first on the scenarios' PATH (the real one would wait for a connection)
		os.WriteFile(filepath.Join(c.Bin, "ssh"), []byte("#!/bin/sh\nexit 255\n"), 0o755)
		seen := map[string]bool{}
		var cases []*cfgCase
		if _, err := core.ReadBehaviours(r.OutFile, func(raw []byte) error {
			if seen[string(raw)] {
				return nil
			}
			seen[string(raw)] = true
			var cs cfgCase
			if err := json.Unmarshal(raw, &cs); err != nil {
				return err
			}
			cases = append(cases, &cs)
			return nil
		}); err != nil {
			c.Infra("read cases: %v", err)
		}
		if len(cases) < 100 {
			c.Infra("only %d cases", len(cases))
		}
		var mu sync.Mutex
		var infra error
		slow := map[string]float64{}
		core.Parallel(len(cases), 12, func(i int) {
			t0 := time.Now()
			v, err := runCfgCase(c, lfs, cases[i], i, probes)
			mu.Lock()
			if d := time.Since(t0).Seconds(); d > slow[cases[i].Key] {
				slow[cases[i].Key] = d
			}
			mu.Unlock()
			if err != nil {
				mu.Lock()
				if infra == nil {
					infra = fmt.Errorf("case %+v: %v", *cases[i], err)
				}
				mu.Unlock()
				return
			}
			if v != nil {
				c.Report(*v)
			}
		})
		if infra != nil {
			c.Infra("%v", infra)
		}
		c.Set("slowest_case_seconds_per_key", slow)
		c.Set("evaluations", len(cases))
		c.Set("distinct_nontrivial", len(cases))
		c.Set("exhaustive", true)
		c.Set("rule", "cases = every decided state of spec/LfsConfig.tla: 34 key classes (documented and not) x {lower, mixed-case} spelling x .lfsconfig in {work tree, index only, HEAD only} x {not, also} set in Git's configuration, plus each undocumented key class carried by the key with \".access\" appended (which the allow-list lets through as lfs.<url>.access), plus each key class with up to MaxBefore lines before and MaxAfter after it drawn from three documented neighbours (lfs.<url>.access, remote.<name>.lfsurl, lfs.fetchexclude); each observed through `git lfs env` or a sentinel")
		for i := 0; i < len(cases); i += len(cases)/5 + 1 {
			c.Sample(cases[i])
		}
		c.Assume("observation channels: `git lfs env` for endpoint/access/transfer/prune/storage/extension settings; sentinel programs and listeners for extension, transfer agent, askpass, credential helper, ssh command, proxy and filter settings, exercised by a fixed battery of commands (clean, smudge, fetch, locks, ls-files, push --dry-run); bare repositories not covered")
	}
}
