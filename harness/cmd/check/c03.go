package main

// C03: push.  TLC model-checks spec/Push.tla (RemoteComplete,
// RefsOnlyAfterObjects) and emits one behaviour per push edge; a stratified
// sample of them is replayed with real git + the git-lfs under test + the
// fake LFS server, and after every push step the observed verdict, server
// contents and remote refs are compared with the spec's prediction.

import (
	"encoding/json"
	"fmt"
	"hash/fnv"
	"os"
	"path/filepath"
	"sort"
	"strings"
	"sync"
	"sync/atomic"
	"time"

	"verif/harness/internal/core"
)

type step map[string]interface{}

func (s step) str(k string) string { v, _ := s[k].(string); return v }
func (s step) num(k string) int    { v, _ := s[k].(float64); return int(v) }

// behaviour classes for stratified sampling
func behaviourClass(steps []step, verdictKey string) string {
	feat := map[string]bool{}
	nver := 0
	last := steps[len(steps)-1]
	otherRemoteBranch := ""
	merged := map[string]bool{}
	oidOn := map[string]map[string]bool{} // oid -> branches on which a commit introduced it
	for _, s := range steps {
		if s.str("a") == "commit" && s.str("blob") != "raw" && s.str("blob") != "none" {
			if oidOn[s.str("blob")] == nil {
				oidOn[s.str("blob")] = map[string]bool{}
			}
			oidOn[s.str("blob")][s.str("b")] = true
		}
		if otherRemoteBranch != "" && s.str("b") == otherRemoteBranch && (s.str("a") == "commit" || s.str("a") == "committree" || s.str("a") == "merge") {
			feat["otherremote-stale"] = true // the local branch moved on after the second remote's ref was taken
		}
		if s.str("a") == "otherremote" {
			otherRemoteBranch = s.str("b")
		}
		switch s.str("a") {
		case "damage":
			feat["dmg:"+s.str("how")] = true
		case "otherpush":
			feat["other"] = true
		case "otherdelete":
			feat["otherdelete"] = true
		case "push":
			if vf, _ := s["vfail"].(bool); vf {
				feat["vfail"] = true
			}
			nver++
		case "merge":
			feat["merge"] = true
			merged[s.str("o")] = true
		case "delbranch":
			feat["delbranch"] = true
			if merged[s.str("b")] {
				feat["delbranch-merged"] = true // its commits stay reachable through a merge's second parent only
				for _, on := range oidOn {
					if len(on) == 1 && on[s.str("b")] {
						feat["side-only"] = true // an object introduced by commits of that branch alone
					}
				}
			}
		case "commit":
			if s.str("blob") == "raw" {
				feat["raw"] = true
			}
			if s.str("blob") == "none" {
				feat["del"] = true
			}
			if s.str("b") != "main" {
				feat["branch"] = true
			}
		case "committree":
			feat["multi"] = true
			if s.str("b") != "main" {
				feat["branch"] = true
			}
		case "stash":
			feat["stash"] = true
			if k := s.str("kind"); k != "" && k != "worktree" {
				feat["stash:"+k] = true // the object is only in the stash's index / untracked-files commit
			}
		case "stage", "switch", "serverloses", "worktree", "otherremote":
			feat[s.str("a")] = true
		default:
			nver++
		}
	}
	if v, ok := last["deletes"].([]interface{}); ok && len(v) > 0 {
		feat["refdel"] = true
	}
	if st := toStrings(last["staleTracked"]); len(st) > 0 {
		feat["stale-tracked"] = true // a cached remote-tracking ref whose branch is gone from the remote
		live, pushed := toStrings(last["liveTracked"]), toSet(toStrings(last["refs"]))
		all := len(live) > 0
		for _, b := range live {
			if !pushed[b] {
				all = false
			}
		}
		if all {
			feat["live-all-pushed"] = true // every live tracked branch is itself being pushed
		}
		if len(live) == 0 {
			feat["none-live"] = true
		}
	}
	for _, r := range toStrings(last["sole"]) {
		feat["sole:"+r] = true // some object is retained for this reason alone
	}
	if ne, _ := last["nearEdge"].(bool); ne {
		feat["near-edge"] = true // a version kept by a commit one day inside the recent-commits window
	}
	if last.str("from") == "linked" {
		feat["from-linked"] = true
	}
	if v, ok := last["expectDeleted"].([]interface{}); ok && len(v) > 0 {
		feat["deletes"] = true
	}
	if v, ok := last["mustRetain"].([]interface{}); ok && len(v) > 0 {
		feat["retains"] = true
	}
	fs := []string{}
	for k := range feat {
		fs = append(fs, k)
	}
	sort.Strings(fs)
	return fmt.Sprintf("%s|%s|%s|n%d|%s", last.str("a"), last.str("mode"), last.str(verdictKey), nver, strings.Join(fs, ","))
}

type behaviour struct {
	steps []step
	raw   []byte
	class string
	hash  uint64
}

// sampleBehaviours reads TLC's per-edge output and keeps at most perClass behaviours per class, budget overall.
// actionsSeen collects the action names occurring in emitted behaviours (vacuity control
// without the 2x cost of -coverage: an action that never precedes a verdict step is unexercised).
var actionsSeen = map[string]int{}

func requireActions(c *core.Ctx, names ...string) {
	for _, n := range names {
		if actionsSeen[n] == 0 {
			c.Infra("vacuity: no emitted behaviour contains action %q (seen: %v)", n, actionsSeen)
		}
	}
	c.Set("actions_in_emitted_behaviours", actionsSeen)
}

// samplePriority, when set by a check, marks behaviour classes that are replayed first.
var samplePriority func(class string) bool
var sampleFirst func(class string) bool

func sampleBehaviours(c *core.Ctx, file string, verdictKey string, budget int) ([]*behaviour, int, int) {
	byClass := map[string][]*behaviour{}
	total := 0
	_, err := core.ReadBehaviours(file, func(raw []byte) error {
		var st []step
		if err := json.Unmarshal(raw, &st); err != nil {
			return err
		}
		if len(st) == 0 {
			return nil
		}
		total++
		for _, x := range st {
			actionsSeen[x.str("a")]++
		}
		f := fnv.New64a()
		fmt.Fprintf(f, "%d|", c.Seed)
		f.Write(raw)
		b := &behaviour{steps: st, raw: raw, class: behaviourClass(st, verdictKey), hash: f.Sum64()}
		l := byClass[b.class]
		// keep the 8 smallest hashes per class (deterministic reservoir)
		l = append(l, b)
		if len(l) > 16 {
			sort.Slice(l, func(i, j int) bool { return l[i].hash < l[j].hash })
			l = l[:8]
		}
		byClass[b.class] = l
		return nil
	})
	if err != nil {
		c.Infra("read behaviours: %v", err)
	}
	classes := []string{}
	for k, l := range byClass {
		sort.Slice(l, func(i, j int) bool { return l[i].hash < l[j].hash })
		if len(l) > 8 {
			byClass[k] = l[:8]
		}
		classes = append(classes, k)
	}
	// classes in a seed-dependent order (when there are more classes than budget, different seeds
	// replay different ones); classes the caller marks as priority take up to a third of the budget first
	sort.Slice(classes, func(i, j int) bool { return fnvStr(classes[i], c.Seed) < fnvStr(classes[j], c.Seed) })
	var out []*behaviour
	taken := map[string]bool{}
	if sampleFirst != nil {
		// classes the caller wants before everything else (up to a sixth of the budget)
		for _, k := range classes {
			if len(out) >= budget/6 {
				break
			}
			if sampleFirst(k) {
				out = append(out, byClass[k][0])
				taken[k] = true
			}
		}
	}
	if samplePriority != nil {
		for _, k := range classes {
			if len(out) >= budget/4 {
				break
			}
			if samplePriority(k) && !taken[k] {
				out = append(out, byClass[k][0])
				taken[k] = true
			}
		}
		// room left in the priority share: further members of the priority classes
		for round := 1; round < 8; round++ {
			for _, k := range classes {
				if samplePriority(k) && round < len(byClass[k]) && len(out) < budget/4 {
					out = append(out, byClass[k][round])
				}
			}
		}
	}
	nprio, nprioTaken := 0, len(out)
	if samplePriority != nil {
		for _, k := range classes {
			if samplePriority(k) {
				nprio++
			}
		}
	}
	c.Set("priority_classes", nprio)
	c.Set("priority_classes_replayed", nprioTaken)
	// pair coverage: every (verdict-step flag, feature) and (feature, feature) combination that occurs
	// in some class is replayed at least three times before classes are merely sampled
	pairsOf := func(class string) []string {
		parts := strings.Split(class, "|")
		if len(parts) < 5 {
			return nil
		}
		feats := strings.Split(parts[4], ",")
		var ps []string
		for i, f := range feats {
			ps = append(ps, parts[1]+"/"+parts[2]+"&"+f)
			for _, g := range feats[i+1:] {
				ps = append(ps, f+"&"+g)
			}
		}
		return ps
	}
	pairCount := map[string]int{}
	for _, b := range out {
		for _, pr := range pairsOf(b.class) {
			pairCount[pr]++
		}
	}
	for _, k := range classes {
		if len(out) >= budget*3/4 {
			break
		}
		if taken[k] {
			continue
		}
		need := false
		for _, pr := range pairsOf(k) {
			if pairCount[pr] < 3 {
				need = true
			}
		}
		if need {
			out = append(out, byClass[k][0])
			taken[k] = true
			for _, pr := range pairsOf(k) {
				pairCount[pr]++
			}
		}
	}
	for round := 0; round < 8 && len(out) < budget; round++ {
		for _, k := range classes {
			if round == 0 && taken[k] {
				continue
			}
			if round < len(byClass[k]) && len(out) < budget {
				out = append(out, byClass[k][round])
			}
		}
	}
	return out, total, len(classes)
}

// applyRepoStep applies the non-verdict steps shared by all Repo-based modules.
func applyRepoStep(w *World, s step) (handled bool, err error) {
	switch s.str("a") {
	case "commit":
		return true, w.Commit(s.str("b"), s.str("p"), s.str("blob"), s.num("age"))
	case "committree":
		tree := map[string]string{}
		if m, ok := s["tree"].(map[string]interface{}); ok {
			for k, v := range m {
				tree[k], _ = v.(string)
			}
		}
		return true, w.CommitTree(s.str("b"), tree, s.num("age"))
	case "merge":
		tree := map[string]string{}
		if m, ok := s["tree"].(map[string]interface{}); ok {
			for k, v := range m {
				tree[k], _ = v.(string)
			}
		}
		return true, w.Merge(s.str("b"), s.str("o"), tree)
	case "damage":
		return true, w.Damage(s.str("oid"), s.str("how"))
	case "otherpush":
		return true, w.OtherPush(s.str("b"), toStrings(s["oids"]))
	case "otherdelete":
		return true, w.OtherDelete(s.str("b"), toStrings(s["gone"]))
	}
	return false, nil
}

func replayPush(c *core.Ctx, lfsBin string, b *behaviour, idx int) (viol *core.Violation, infra error) {
	root := filepath.Join(c.Work, fmt.Sprintf("w%d", idx))
	defer os.RemoveAll(root)
	// transport is a concretisation-only dimension: every third behaviour is replayed against a
	// file:// remote, where git-lfs's own standalone agent is the server
	transport := "http"
	invocation := "in-clone"
	if b.hash%3 == 0 {
		transport = "file"
	}
	for _, s := range b.steps {
		if vf, _ := s["vfail"].(bool); vf {
			transport = "http" // a server that stages uploads until they are verified is an HTTP server
		}
	}
	w, err := NewWorldOpts(root, filepath.Dir(lfsBin), c.Seed, WorldOpts{FileRemote: transport == "file"})
	if err != nil {
		return nil, err
	}
	defer w.Close()
	branches := []string{"main", "dev"}
	for i, s := range b.steps {
		handled, err := applyRepoStep(w, s)
		if err != nil {
			return nil, fmt.Errorf("step %d %v: %v", i, s, err)
		}
		if handled {
			continue
		}
		if s.str("a") != "push" {
			return nil, fmt.Errorf("unknown step %v", s)
		}
		refs := toStrings(s["refs"])
		before := w.ServerSet()
		refsBefore := w.RemoteRefs(branches)
		var args []string
		switch s.str("mode") {
		case "git-push":
			args = []string{"-c", fmt.Sprintf("lfs.allowincompletepush=%v", s["allow"] == true), "push", "origin"}
			for _, d := range toStrings(s["deletes"]) {
				args = append(args, ":"+d)
			}
			args = append(args, refs...)
		case "lfs-push":
			args = append([]string{"-c", fmt.Sprintf("lfs.allowincompletepush=%v", s["allow"] == true), "lfs", "push", "origin"}, refs...)
		case "lfs-push-all":
			args = []string{"-c", fmt.Sprintf("lfs.allowincompletepush=%v", s["allow"] == true), "lfs", "push", "--all", "origin"}
		}
		vfail, _ := s["vfail"].(bool)
		if vfail && w.Srv != nil {
			w.logf("(the server stages uploads until verified; every verify call fails)")
			w.Srv.Staging, w.Srv.FailVerify = true, true
		}
		// how Git is told where the repository is is a concretisation-only dimension: from inside the
		// clone, or from elsewhere with --git-dir / --work-tree (Git then exports GIT_DIR and
		// GIT_WORK_TREE to the hook and to git-lfs, as it does in linked work trees and submodules)
		runDir := w.Clone
		if (b.hash/3)%2 == 1 {
			args = append([]string{"--git-dir", filepath.Join(w.Clone, ".git"), "--work-tree", w.Clone}, args...)
			runDir = root
			invocation = "git-dir"
		}
		w.logf("(in %s) git %s", runDir, strings.Join(args, " "))
		r := w.Env.RunIn(runDir, nil, nil, 120*time.Second, "git", args...)
		if vfail && w.Srv != nil {
			w.Srv.Staging, w.Srv.FailVerify = false, false
			w.Srv.DropStaged()
		}
		if r.Code == -2 {
			return &core.Violation{Assertion: "push-terminates", Fields: map[string]string{"mode": s.str("mode")},
				Detail: map[string]interface{}{"behaviour": json.RawMessage(b.raw), "step": i, "commands": w.Log}}, nil
		}
		after := w.ServerSet()
		afterAll := w.ServerAll()
		refsAfter := w.RemoteRefs(branches)
		mk := func(assertion, why string) *core.Violation {
			return &core.Violation{Assertion: assertion, Fields: map[string]string{"mode": s.str("mode"), "verdict": s.str("verdict"), "transport": transport, "invocation": invocation},
				Detail: map[string]interface{}{"why": why, "behaviour": json.RawMessage(b.raw), "step": i, "exit": r.Code, "transport": transport,
					"output": core.Tail(r.All(), 1500), "server_before": before, "server_after": after, "remote_refs_before": refsBefore,
					"remote_refs_after": refsAfter, "commands": w.Log}}
		}
		afterSet := toSet(after)
		// nothing phantom, nothing lost, nothing invalid stored
		allowed := toSet(append(append([]string{}, before...), toStrings(s["mayUpload"])...))
		if !subset(after, allowed) {
			return mk("no-phantom-upload", "server holds objects that were neither there before nor uploadable"), nil
		}
		if !subset(before, afterSet) {
			return mk("server-monotone", "an object disappeared from the server"), nil
		}
		if len(afterAll) != len(after) {
			return mk("server-content-valid", "the server stores an object whose bytes do not hash to its id"), nil
		}
		if amb, _ := s["ambiguous"].(bool); amb {
			// objects the scan may or may not pick up are not on the server: this push may upload them, fail
			// on them or pass them by - only the certain part is judged, and later predictions are void
			if r.Code == 0 && s.str("verdict") != "fail" && !subset(toStrings(s["need"]), afterSet) && s.str("verdict") != "incomplete" {
				return mk("objects-on-server-after-push", "push succeeded but a referenced object is not on the server"), nil
			}
			return nil, nil
		}
		switch s.str("verdict") {
		case "incomplete":
			// lfs.allowincompletepush: the push may go through without the objects nobody has, or fail; what
			// the clone does have must reach the server when it goes through, and a failed push moves no ref
			if r.Code == 0 {
				for _, o := range toStrings(s["need"]) {
					if toSet(before)[o] || toSet(w.LocalOids())[o] {
						if !afterSet[o] {
							return mk("available-objects-uploaded-by-incomplete-push", "an allowed incomplete push went through but left out "+o+", which the clone has"), nil
						}
					}
				}
			} else if s.str("mode") == "git-push" && fmt.Sprint(refsBefore) != fmt.Sprint(refsAfter) {
				return mk("fail-before-refs", "push failed but a remote ref moved"), nil
			}
		case "ok":
			if r.Code != 0 {
				// with a file:// remote there is no batch API to learn that the remote already holds an
				// object: git-lfs insists on the local copy.  The property does not promise success, so
				// this is recorded (drift) and not judged; over http it has always held and is asserted.
				if transport == "file" && !subset(append(toStrings(s["need"]), toStrings(s["mayNeed"])...), toSet(w.LocalOids())) {
					c.AddInt("drift_file_remote_push_needs_local_copy", 1)
					return nil, nil
				}
				return mk("push-succeeds-when-complete", "every needed object is available but the push failed"), nil
			}
			if !subset(toStrings(s["need"]), afterSet) {
				return mk("objects-on-server-after-push", "push succeeded but a referenced object is not on the server"), nil
			}
		case "fail":
			if r.Code == 0 {
				return mk("push-fails-when-object-unavailable", "an object is absent locally and on the server but the push succeeded"), nil
			}
			if s.str("mode") == "git-push" && fmt.Sprint(refsBefore) != fmt.Sprint(refsAfter) {
				return mk("fail-before-refs", "push failed but a remote ref moved"), nil
			}
		}
		if r.Code == 0 && s.str("mode") == "git-push" {
			want, _ := s["rrAfter"].(map[string]interface{})
			for _, br := range refs {
				if wv, ok := want[br].(float64); ok && refsAfter[br] != int(wv) {
					return mk("remote-refs-updated", fmt.Sprintf("remote ref %s is %d, spec says %d", br, refsAfter[br], int(wv))), nil
				}
			}
		}
		// RemoteComplete on the real world: whatever is reachable from the remote refs has its objects on the server
		if r.Code == 0 && !subset(toStrings(s["remoteNeeds"]), afterSet) {
			return mk("remote-complete", "a commit reachable on the remote references an object the server does not hold"), nil
		}
		if s.str("verdict") == "fail" && fmt.Sprint(before) != fmt.Sprint(after) {
			// a failed push may have uploaded what it could before it failed; the specification's own
			// transition leaves the server as it was, so its later predictions are void
			return nil, nil
		}
		if s.str("verdict") == "either" || s.str("verdict") == "incomplete" {
			// the run took one of the two allowed branches; later predictions of the spec assume success
			if r.Code != 0 {
				return nil, nil
			}
		}
	}
	return nil, nil
}

func appendFile(dst, src string) {
	b, err := os.ReadFile(src)
	if err != nil {
		return
	}
	f, err := os.OpenFile(dst, os.O_APPEND|os.O_WRONLY|os.O_CREATE, 0o644)
	if err != nil {
		return
	}
	f.Write(b)
	f.Close()
}

type replayFn func(c *core.Ctx, lfsBin string, b *behaviour, idx int) (*core.Violation, error)

// runBehaviours replays the sampled behaviours in parallel; a violation is re-executed once to rule out flukes.
func runBehaviours(c *core.Ctx, lfsBin string, bs []*behaviour, fn replayFn, workers int) {
	var infraMu sync.Mutex
	var infraErr error
	var done int64
	core.Parallel(len(bs), workers, func(i int) {
		v, err := fn(c, lfsBin, bs[i], i)
		if err != nil {
			infraMu.Lock()
			if infraErr == nil {
				infraErr = fmt.Errorf("behaviour %d: %v\n%s", i, err, bs[i].raw)
			}
			infraMu.Unlock()
			return
		}
		if v != nil {
			v2, err2 := fn(c, lfsBin, bs[i], i+1000000)
			if err2 == nil && v2 != nil && v2.Assertion == v.Assertion {
				c.Report(*v)
			} else {
				infraMu.Lock()
				if infraErr == nil {
					infraErr = fmt.Errorf("candidate %s did not reproduce on re-execution (behaviour %d)", v.Assertion, i)
				}
				infraMu.Unlock()
			}
		}
		atomic.AddInt64(&done, 1)
	})
	if infraErr != nil {
		c.Infra("%v", infraErr)
	}
}

func init() {
	registry["C03"] = func(c *core.Ctx, replay string) {
		if replayBehaviourOnly(c, replay, replayPush, "model_checking") {
			return
		}
		c.Level = "model_checking"
		lfs := c.BuildLFS()
		cfg, budget := "Push_q.cfg", 400
		if !c.Quick() {
			cfg, budget = "Push_t.cfg", 2500
		}
		gcfg := writeCfgVariant(c, cfg, "Push_gen.cfg", map[string]string{"Emit = FALSE": "Emit = TRUE"})
		r := c.TLC(core.TLCOpts{Module: "Push", Cfg: gcfg, Workers: 8, Timeout: 40 * time.Minute, HeapGB: 12})
		c.MustPass(r, "Push/"+cfg)
		c.Set("states", r.Distinct)
		c.Set("transitions", r.Generated)
		// random walks over the larger configuration (merges, three objects, longer programs)
		scfg := writeCfgVariant(c, "Push_t.cfg", "Push_sim.cfg", map[string]string{"Emit = FALSE": "Emit = TRUE", "MaxSteps = 6": "MaxSteps = 9", "MaxCommits = 4": "MaxCommits = 5"})
		nsim := 400
		if !c.Quick() {
			nsim = 4000
		}
		rs := c.TLC(core.TLCOpts{Module: "Push", Cfg: scfg, Workers: 4, Simulate: fmt.Sprintf("num=%d", nsim/4), Depth: 10, Timeout: 20 * time.Minute})
		if rs.Violated != "" {
			c.Infra("simulation of Push found a model-level violation of %s\n%s", rs.Violated, core.Tail(rs.Out, 3000))
		}
		appendFile(r.OutFile, rs.OutFile)
		// classes with a stale remote-tracking ref at the last push go first: that is where trusting the
		// clone's picture of the remote can go wrong
		samplePriority = func(class string) bool { return strings.Contains(class, "stale-tracked") }
		bs, total, nclasses := sampleBehaviours(c, r.OutFile, "verdict", budget)
		samplePriority = nil
		requireActions(c, "commit", "damage", "otherpush", "otherdelete", "push", "merge")
		c.Set("push_edges_emitted", total)
		c.Set("behaviour_classes", nclasses)
		if len(bs) < 20 {
			c.Infra("only %d behaviours sampled", len(bs))
		}
		c.Logf("replaying %d of %d push-edge behaviours (%d classes)", len(bs), total, nclasses)
		runBehaviours(c, lfs, bs, replayPush, 14)
		c.Set("traces_validated_against_impl", len(bs))
		c.Set("evaluations", len(bs))
		cls := map[string]bool{}
		for _, b := range bs {
			cls[b.class] = true
		}
		c.Set("distinct_nontrivial", len(cls))
		c.Set("rule", "behaviours = TLC per-edge output of spec/Push.tla for every edge ending in a push; sampled deterministically (VERIF_SEED) round-robin over classes (last-push mode x verdict x number of pushes x features damage/otherpush/otherdelete/merge/raw/delete/branch/stale remote-tracking ref with all, some or none of the live ones pushed; classes with a stale remote-tracking ref take a quarter of the budget first); every third behaviour (by hash) is replayed against a file:// remote (standalone file transfer, git-lfs itself is the server), the others against the HTTP server; distinct_nontrivial = classes replayed")
		for i := 0; i < len(bs); i += len(bs)/4 + 1 {
			c.Sample(json.RawMessage(bs[i].raw))
		}
		c.Assume("work tree holds pointer files (skip-smudge checkouts), so a missing local object cannot be re-cleaned from the work tree; the fake server rejects uploads whose bytes do not hash to the oid, as real servers do; remote = bare repository over a file path with lfs.url pointing at the fake HTTP server, or a file:// URL without any LFS server; with a file:// remote a push that needs an object the clone lacks fails even when the remote already holds it (no batch API to ask) - recorded as drift, not judged")
	}
}
