package main

// --replay <file>: re-run the single behaviour / case / script recorded in a
// replay file written by an earlier VIOLATION, skipping TLC generation.

import (
	"encoding/json"
	"os"

	"verif/harness/internal/core"
)

type replayFile struct {
	Property  string                     `json:"property"`
	Assertion string                     `json:"assertion"`
	Detail    map[string]json.RawMessage `json:"detail"`
}

func loadReplay(c *core.Ctx, path string) *replayFile {
	b, err := os.ReadFile(path)
	if err != nil {
		c.Infra("replay file: %v", err)
	}
	var rf replayFile
	if err := json.Unmarshal(b, &rf); err != nil {
		c.Infra("replay file: %v", err)
	}
	if rf.Property != c.ID {
		c.Infra("replay file belongs to %s, not %s", rf.Property, c.ID)
	}
	return &rf
}

// replayBehaviourOnly handles the Repo-style checks: the replay file carries the behaviour.
func replayBehaviourOnly(c *core.Ctx, path string, fn replayFn, level string) bool {
	if path == "" {
		return false
	}
	rf := loadReplay(c, path)
	raw, ok := rf.Detail["behaviour"]
	if !ok {
		c.Infra("replay file has no behaviour")
	}
	var st []step
	if err := json.Unmarshal(raw, &st); err != nil {
		c.Infra("replay behaviour: %v", err)
	}
	c.Level = level
	lfs := c.BuildLFS()
	b := &behaviour{steps: st, raw: raw}
	runBehaviours(c, lfs, []*behaviour{b}, fn, 1)
	c.Set("evaluations", 1)
	c.Set("distinct_nontrivial", 2)
	c.Set("rule", "replay of one recorded behaviour (no generation)")
	c.Set("states", 1)
	c.Set("transitions", 1)
	c.Set("traces_validated_against_impl", 1)
	c.Sample(json.RawMessage(raw))
	return true
}
