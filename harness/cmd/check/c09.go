package main

// C09: crash safety of local object storage.  spec/Storage.tla is model-checked
// (ObjectsSound, LeftoversConfined, RerunConverges, Terminates with a crash
// enabled in every state; two mutant step orders must violate ObjectsSound).
// On the code, verif-tag crash points at every storage-mutating step are
// enumerated per scenario: a reference run lists the reached points, then the
// scenario is run once per point with the process SIGKILLed there, the object
// store is scanned, the same command is re-run and the result compared with the
// uninterrupted run.

import (
	"os/exec"
	"bytes"
	"fmt"
	"os"
	"path/filepath"
	"sort"
	"strings"
	"sync"
	"time"

	"verif/harness/internal/core"
	"verif/harness/internal/gitenv"
)

type crashScenario struct {
	name    string
	setup   func(w *World, root string) (dir string, err error)          // returns the directory the command runs in
	command func(w *World, dir string, extraEnv []string) gitenv.Result // the command under test
	corrupt map[string]bool                                               // objects the set-up corrupted on purpose (hex)
	skip    func() string                                                 // non-empty: why the scenario cannot run here
	// syscalls: kill points are the process's own file-mutating system calls (strace injects SIGKILL on
	// entering the n-th of them) instead of the verif-tag crash points: no hook needed, new code included
	syscalls bool
	// mayFail: the uninterrupted command may fail on this tree (its exit status is then what a re-run
	// after a kill must reproduce); what is asserted about the store does not depend on it
	mayFail bool
}

const killSyscalls = "write,pwrite64,writev,rename,renameat,renameat2,link,linkat,unlink,unlinkat,ftruncate,truncate"

// straceWrapper puts a `git-lfs` in front of the real one that runs it under strace: with
// VERIF_SYSCALL_LOG it records the system calls of killSyscalls, with VERIF_SYSCALL_AT=n the process is
// killed on entering the n-th of them (and VERIF_SYSCALL_KILLED is appended to).
func straceWrapper(dir, real string) error {
	os.MkdirAll(dir, 0o755)
	script := "#!/bin/sh\nSET=" + killSyscalls + "\n" +
		"if [ -n \"$VERIF_SYSCALL_LOG\" ]; then exec strace -qq -f -b execve -o \"$VERIF_SYSCALL_LOG.$$\" -e trace=$SET " + real + " \"$@\"; fi\n" +
		"if [ -n \"$VERIF_SYSCALL_AT\" ]; then strace -qq -f -b execve -o /dev/null -e trace=$SET -e inject=$SET:signal=KILL:when=$VERIF_SYSCALL_AT " + real + " \"$@\"; rc=$?; " +
		"[ $rc -eq 137 ] && echo \"$$ $*\" >> \"$VERIF_SYSCALL_KILLED\"; exit $rc; fi\n" +
		"exec " + real + " \"$@\"\n"
	return os.WriteFile(filepath.Join(dir, "git-lfs"), []byte(script), 0o755)
}

func straceUsable() bool {
	return exec.Command("strace", "-qq", "-o", "/dev/null", "true").Run() == nil
}

const otherFsAgent = `#!/bin/sh
# custom transfer agent: "downloads" by copying from $1 into $2 (a directory on another filesystem)
while IFS= read -r line; do
  case "$line" in
    *'"event":"init"'*) echo '{}' ;;
    *'"event":"download"'*)
      oid=$(printf '%s' "$line" | sed 's/.*"oid":"\([0-9a-f]*\)".*/\1/')
      if cp "$1/$oid" "$2/$oid"; then printf '{"event":"complete","oid":"%s","path":"%s"}\n' "$oid" "$2/$oid"
      else printf '{"event":"complete","oid":"%s","error":{"code":2,"message":"copy failed"}}\n' "$oid"; fi ;;
    *'"event":"terminate"'*) exit 0 ;;
  esac
done
`

// otherFilesystem returns a directory on a filesystem other than dir's (hard links from it fail), or "".
func otherFilesystem(dir string) string {
	for _, cand := range []string{"/dev/shm", "/run/shm", "/tmp", "/var/tmp"} {
		d, err := os.MkdirTemp(cand, "verif-c09-probe-")
		if err != nil {
			continue
		}
		src := filepath.Join(d, "probe")
		os.WriteFile(src, []byte("x"), 0o644)
		dst := filepath.Join(dir, fmt.Sprintf("probe-%d", os.Getpid()))
		err = os.Link(src, dst)
		os.Remove(dst)
		os.RemoveAll(d)
		if err != nil {
			return cand
		}
	}
	return ""
}

// makeReferenceClone clones the remote into refDir with all objects fetched, then makes a --shared
// clone of it (objects/info/alternates -> the reference's lfs/objects is a reference store).
func makeReferenceClone(w *World, root, refDir string) (string, error) {
	tmpl := filepath.Join(root, "tmpl")
	os.MkdirAll(filepath.Join(tmpl, "info"), 0o755)
	os.WriteFile(filepath.Join(tmpl, "info", "attributes"), []byte("*.bin "+w.Attr+"\n"), 0o644)
	cfg := []string{"-c", "lfs.url=" + w.Srv.LFSURL(repoName, ""), "-c", "lfs.transfer.maxretries=1", "-c", "lfs.transfer.maxretrydelay=0", "-c", "lfs.concurrenttransfers=1"}
	args := append([]string{"clone", "-q", "--template=" + tmpl}, cfg...)
	if r := w.Env.RunIn(root, skipSmudge, nil, 120*time.Second, "git", append(args, w.Remote, refDir)...); !r.OK() {
		return "", fmt.Errorf("reference clone: %s", r.All())
	}
	if r := w.Env.RunIn(refDir, nil, nil, 120*time.Second, "git", "lfs", "fetch"); !r.OK() {
		return "", fmt.Errorf("reference fetch: %s", r.All())
	}
	cloneB := filepath.Join(root, "cloneB")
	args = append([]string{"clone", "-q", "--shared", "--no-checkout", "--template=" + tmpl}, cfg...) // the checkout itself would already link the objects (smudge --skip does)
	if r := w.Env.RunIn(root, skipSmudge, nil, 120*time.Second, "git", append(args, refDir, cloneB)...); !r.OK() {
		return "", fmt.Errorf("shared clone: %s", r.All())
	}
	return cloneB, nil
}

func bigContent(tag string, n int) []byte {
	var b bytes.Buffer
	for b.Len() < n {
		fmt.Fprintf(&b, "%s line %d of a larger object\n", tag, b.Len())
	}
	return b.Bytes()[:n]
}

func makeCloneB(w *World, root string) (string, error) {
	cloneB := filepath.Join(root, "cloneB")
	tmpl := filepath.Join(root, "tmpl")
	os.MkdirAll(filepath.Join(tmpl, "info"), 0o755)
	os.WriteFile(filepath.Join(tmpl, "info", "attributes"), []byte("*.bin "+w.Attr+"\n"), 0o644)
	r := w.Env.RunIn(root, skipSmudge, nil, 120*time.Second, "git", "clone", "-q", "--template="+tmpl,
		"-c", "lfs.url="+w.Srv.LFSURL(repoName, ""), "-c", "lfs.transfer.maxretries=1", "-c", "lfs.transfer.maxretrydelay=0", "-c", "lfs.concurrenttransfers=1", w.Remote, cloneB)
	if !r.OK() {
		return "", fmt.Errorf("clone: %s", r.All())
	}
	return cloneB, nil
}

func publishThree(w *World) error {
	w.content["o1"] = bigContent("o1", 3000)
	w.content["o2"] = bigContent("o2", 70000)
	w.content["o3"] = bigContent("o3", 40000)
	for i, o := range []string{"o1", "o2", "o3"} {
		if err := w.Commit("main", fmt.Sprintf("p%d", i+1), o, 0); err != nil {
			return err
		}
	}
	if r := w.Env.RunIn(w.Clone, nil, nil, 120*time.Second, "git", "push", "-q", "origin", "main"); !r.OK() {
		return fmt.Errorf("push: %s", r.All())
	}
	return nil
}

func crashScenarios() []crashScenario {
	return []crashScenario{
		{name: "git-add", setup: func(w *World, root string) (string, error) {
			w.Env.WriteFile(filepath.Join(w.Clone, "a.bin"), bigContent("a", 3000), 0o644)
			w.Env.WriteFile(filepath.Join(w.Clone, "b.bin"), bigContent("b", 70000), 0o644)
			w.Env.WriteFile(filepath.Join(w.Clone, "c.bin"), bigContent("a", 3000), 0o644)
			return w.Clone, nil
		}, command: func(w *World, dir string, ex []string) gitenv.Result {
			return w.Env.RunIn(dir, ex, nil, 120*time.Second, "git", "add", "a.bin", "b.bin", "c.bin")
		}},
		{name: "lfs-fetch", setup: func(w *World, root string) (string, error) {
			if err := publishThree(w); err != nil {
				return "", err
			}
			return makeCloneB(w, root)
		}, command: func(w *World, dir string, ex []string) gitenv.Result {
			return w.Env.RunIn(dir, ex, nil, 120*time.Second, "git", "lfs", "fetch")
		}},
		{name: "lfs-pull", setup: func(w *World, root string) (string, error) {
			if err := publishThree(w); err != nil {
				return "", err
			}
			return makeCloneB(w, root)
		}, command: func(w *World, dir string, ex []string) gitenv.Result {
			return w.Env.RunIn(dir, ex, nil, 120*time.Second, "git", "lfs", "pull")
		}},
		{name: "smudge-download", setup: func(w *World, root string) (string, error) {
			if err := publishThree(w); err != nil {
				return "", err
			}
			return makeCloneB(w, root)
		}, command: func(w *World, dir string, ex []string) gitenv.Result {
			return w.Env.RunIn(dir, ex, []byte(w.PointerText("o2")), 120*time.Second, "git-lfs", "smudge", "p2.bin")
		}},
		{name: "reference-link", setup: func(w *World, root string) (string, error) {
			if err := publishThree(w); err != nil {
				return "", err
			}
			return makeReferenceClone(w, root, filepath.Join(root, "reference"))
		}, command: func(w *World, dir string, ex []string) gitenv.Result {
			return w.Env.RunIn(dir, ex, nil, 120*time.Second, "git", "lfs", "fetch")
		}},
		{name: "reference-copy", skip: func() string {
			if otherFilesystem(os.TempDir()) == "" && otherFilesystem("/verif") == "" {
				return "no second filesystem to put the reference store on"
			}
			return ""
		}, setup: func(w *World, root string) (string, error) {
			if err := publishThree(w); err != nil {
				return "", err
			}
			other := otherFilesystem(root)
			if other == "" {
				return "", fmt.Errorf("no second filesystem")
			}
			refBase, err := os.MkdirTemp(other, "verif-c09-ref-")
			if err != nil {
				return "", err
			}
			w.cleanup = append(w.cleanup, func() { os.RemoveAll(refBase) })
			return makeReferenceClone(w, root, filepath.Join(refBase, "reference"))
		}, command: func(w *World, dir string, ex []string) gitenv.Result {
			return w.Env.RunIn(dir, ex, nil, 120*time.Second, "git", "lfs", "fetch")
		}},
		{name: "fsck-repair", setup: func(w *World, root string) (string, error) {
			w.content["o1"] = bigContent("o1", 3000)
			w.content["o2"] = bigContent("o2", 70000)
			w.Attr = "filter=lfs diff=lfs merge=lfs -text"
			os.WriteFile(filepath.Join(w.Clone, ".gitattributes"), []byte("*.bin "+w.Attr+"\n"), 0o644)
			w.Env.Git(w.Clone, "add", ".gitattributes")
			for i, o := range []string{"o1", "o2", "o3"} {
				if err := w.Commit("main", fmt.Sprintf("p%d", i+1), o, 0); err != nil {
					return "", err
				}
			}
			for _, o := range []string{"o1", "o2"} {
				if err := w.Damage(o, "corrupt"); err != nil {
					return "", err
				}
			}
			w.Env.Git(w.Clone, "update-index", "-q", "--refresh")
			return w.Clone, nil
		}, command: func(w *World, dir string, ex []string) gitenv.Result {
			r := w.Env.RunIn(dir, ex, nil, 120*time.Second, "git", "lfs", "fsck", "--objects")
			if r.Code == 1 { // "corrupt objects found" is this command's normal outcome
				r.Code = 0
			}
			return r
		}},
		{name: "prune", setup: func(w *World, root string) (string, error) {
			for _, o := range []string{"o1", "o2", "o3"} {
				if err := w.Commit("main", "p1", o, 20); err != nil {
					return "", err
				}
			}
			if r := w.Env.RunIn(w.Clone, nil, nil, 120*time.Second, "git", "push", "-q", "origin", "main"); !r.OK() {
				return "", fmt.Errorf("push: %s", r.All())
			}
			return w.Clone, nil
		}, command: func(w *World, dir string, ex []string) gitenv.Result {
			return w.Env.RunIn(dir, ex, nil, 120*time.Second, "git", "lfs", "prune")
		}},
		// a transfer agent that hands its downloads over on another filesystem: moving them into the object
		// store cannot be a rename.  (On this tree the move is refused; whatever a tree does instead, a kill
		// at any system call must not leave a bad object.)
		{name: "agent-other-fs", syscalls: true, mayFail: true, skip: func() string {
			if otherFilesystem(os.TempDir()) == "" && otherFilesystem("/verif") == "" {
				return "no second filesystem for the transfer agent to download to"
			}
			if !straceUsable() {
				return "strace cannot trace here"
			}
			return ""
		}, setup: func(w *World, root string) (string, error) {
			if err := publishThree(w); err != nil {
				return "", err
			}
			cloneB, err := makeCloneB(w, root)
			if err != nil {
				return "", err
			}
			other := otherFilesystem(root)
			if other == "" {
				return "", fmt.Errorf("no second filesystem")
			}
			dst, err := os.MkdirTemp(other, "verif-c09-agent-")
			if err != nil {
				return "", err
			}
			w.cleanup = append(w.cleanup, func() { os.RemoveAll(dst) })
			src := filepath.Join(root, "agent-src")
			os.MkdirAll(src, 0o755)
			for _, o := range []string{"o1", "o2", "o3"} {
				os.WriteFile(filepath.Join(src, w.Hex(o)), w.Content(o), 0o644)
			}
			agent := filepath.Join(root, "agent.sh")
			os.WriteFile(agent, []byte(otherFsAgent), 0o755)
			for _, kv := range [][2]string{{"lfs.customtransfer.xfs.path", agent}, {"lfs.customtransfer.xfs.args", src + " " + dst},
				{"lfs.customtransfer.xfs.concurrent", "false"}, {"lfs.standalonetransferagent", "xfs"}} {
				if r := w.Env.Git(cloneB, "config", kv[0], kv[1]); !r.OK() {
					return "", fmt.Errorf("config: %s", r.All())
				}
			}
			return cloneB, nil
		}, command: func(w *World, dir string, ex []string) gitenv.Result {
			return w.Env.RunIn(dir, ex, nil, 120*time.Second, "git", "lfs", "fetch", "origin", "main")
		}},
	}
}

type storeScan struct {
	objects  map[string]string // rel path under lfs/objects -> "valid" | "corrupt"
	elsewhere []string         // files under lfs/ outside objects/, tmp/, incomplete/, bad/, cache/, logs/
	bad      []string
	temps    []string
}

func scanStore(gitDir string) storeScan {
	s := storeScan{objects: map[string]string{}}
	base := filepath.Join(gitDir, "lfs")
	filepath.Walk(base, func(p string, info os.FileInfo, err error) error {
		if err != nil || info.IsDir() {
			return nil
		}
		rel, _ := filepath.Rel(base, p)
		top := strings.SplitN(rel, string(filepath.Separator), 2)[0]
		switch top {
		case "objects":
			b, _ := os.ReadFile(p)
			st := "corrupt"
			if core.Sha(b) == filepath.Base(p) {
				st = "valid"
			}
			s.objects[rel] = st
		case "tmp", "incomplete":
			s.temps = append(s.temps, rel)
		case "bad":
			s.bad = append(s.bad, rel)
		case "cache", "logs":
		default:
			s.elsewhere = append(s.elsewhere, rel)
		}
		return nil
	})
	return s
}

func validSet(s storeScan) string {
	var l []string
	for k, v := range s.objects {
		if v == "valid" {
			l = append(l, filepath.Base(k))
		}
	}
	sort.Strings(l)
	b := append([]string{}, s.bad...)
	sort.Strings(b)
	return strings.Join(l, ",") + "|bad:" + strings.Join(b, ",")
}

func init() {
	registry["C09"] = func(c *core.Ctx, replay string) {
		c.Level = "model_checking"
		lfs := c.BuildLFS()
		// design: the protocol with crash + re-run, and its two mutants
		var states, trans int64
		for _, cfg := range []string{"Storage_code_JobStore.cfg", "Storage_code_JobMixed.cfg"} {
			r := c.TLC(core.TLCOpts{Module: "Storage_MC", Cfg: cfg, Workers: 4, Coverage: true, Timeout: 10 * time.Minute})
			c.MustPass(r, "Storage/"+cfg)
			c.CheckCoverage(r, "CreateTemp", "WriteBurst", "Rename", "Crash", "Rerun")
			states += r.Distinct
			trans += r.Generated
		}
		for _, cfg := range []string{"Storage_rename-first_JobStore.cfg", "Storage_in-place_JobStore.cfg"} {
			r := c.TLC(core.TLCOpts{Module: "Storage_MC", Cfg: cfg, Workers: 2, Timeout: 10 * time.Minute})
			if r.Violated != "ObjectsSound" {
				c.Infra("non-vacuity: mutant %s violates %q, expected ObjectsSound", cfg, r.Violated)
			}
		}
		c.Set("states", states)
		c.Set("transitions", trans)
		c.Set("spec_mutants_violate", "ObjectsSound")

		type job struct {
			sc      crashScenario
			k       int
			ref     string
			refCode int
		}
		var jobs []job
		pointsPer := map[string]int{}
		pointNames := map[string]map[string]int{}
		scenarios := crashScenarios()
		if straceUsable() {
			// the same scenarios once more with system calls as kill points (no hook involved: code paths
			// without crash points are covered too)
			for _, sc := range crashScenarios() {
				switch sc.name {
				case "git-add", "lfs-fetch", "fsck-repair", "prune":
					v := sc
					v.name, v.syscalls = sc.name+"/syscalls", true
					scenarios = append(scenarios, v)
				}
			}
		} else {
			c.Assume("strace cannot trace here: system-call kill points skipped")
		}
		for si, sc := range scenarios {
			if sc.skip != nil {
				if why := sc.skip(); why != "" {
					c.Assume("scenario " + sc.name + " skipped: " + why)
					continue
				}
			}
			root := filepath.Join(c.Work, fmt.Sprintf("ref%d", si))
			w, err := NewWorld(root, filepath.Dir(lfs), c.Seed)
			if err != nil {
				c.Infra("world: %v", err)
			}
			dir, err := sc.setup(w, root)
			if err != nil {
				c.Infra("setup %s: %v", sc.name, err)
			}
			counter, logf := filepath.Join(root, "counter"), filepath.Join(root, "points.log")
			var r gitenv.Result
			k := 0
			names := map[string]int{}
			if sc.syscalls {
				// reference run under strace (threads followed, children let go at their execve)
				sbin := filepath.Join(root, "sbin")
				if err := straceWrapper(sbin, lfs); err != nil {
					c.Infra("strace wrapper: %v", err)
				}
				slog := filepath.Join(root, "syscalls")
				r = sc.command(w, dir, []string{"PATH=" + sbin + ":" + filepath.Dir(lfs) + ":/usr/local/bin:/usr/bin:/bin", "VERIF_SYSCALL_LOG=" + slog})
				logs, _ := filepath.Glob(slog + ".*")
				for _, lf := range logs {
					// strace -f prefixes every line with the thread id; its injection counts per thread, so the
					// kill points of a process are 1 .. the largest number of calls one of its threads made
					b, _ := os.ReadFile(lf)
					perThread := map[string]int{}
					for _, l := range strings.Split(string(b), "\n") {
						f := strings.Fields(l)
						if len(f) < 2 {
							continue
						}
						if i := strings.Index(f[1], "("); i > 0 {
							perThread[f[0]]++
							names[f[1][:i]]++
						}
					}
					for _, n := range perThread {
						if n > k {
							k = n
						}
					}
				}
			} else {
				r = sc.command(w, dir, []string{"VERIF_CRASH_COUNTER=" + counter, "VERIF_CRASH_LOG=" + logf})
				lb, _ := os.ReadFile(logf)
				for _, l := range strings.Split(strings.TrimSpace(string(lb)), "\n") {
					if f := strings.Fields(l); len(f) >= 2 {
						k++
						names[f[1]]++
					}
				}
			}
			if r.Code != 0 && !sc.mayFail {
				c.Infra("reference run of %s failed: %s", sc.name, core.Tail(r.All(), 800))
			}
			if r.Code == -2 {
				c.Infra("reference run of %s did not finish", sc.name)
			}
			if k < 2 {
				c.Infra("scenario %s reached only %d crash points; output of the command: %s", sc.name, k, core.Tail(r.All(), 1500))
			}
			pointsPer[sc.name] = k
			pointNames[sc.name] = names
			ref := validSet(scanStore(filepath.Join(dir, ".git")))
			w.Close()
			os.RemoveAll(root)
			stride := 1
			if c.Quick() && k > 45 {
				stride = (k + 44) / 45
			}
			for i := 1; i <= k; i++ {
				if i <= 12 || i > k-12 || i%stride == 0 {
					jobs = append(jobs, job{sc, i, ref, r.Code})
				}
			}
		}
		c.Set("crash_points_per_scenario", pointsPer)
		c.Set("crash_point_names", pointNames)
		c.Logf("killing at %d points", len(jobs))
		var mu sync.Mutex
		var infra error
		killed, killedSys, jobsSys := 0, 0, 0
		for _, j := range jobs {
			if j.sc.syscalls {
				jobsSys++
			}
		}
		core.Parallel(len(jobs), 14, func(i int) {
			j := jobs[i]
			root := filepath.Join(c.Work, fmt.Sprintf("k%d", i))
			defer os.RemoveAll(root)
			w, err := NewWorld(root, filepath.Dir(lfs), c.Seed)
			if err == nil {
				defer w.Close()
			}
			var dir string
			if err == nil {
				dir, err = j.sc.setup(w, root)
			}
			if err != nil {
				mu.Lock()
				infra = fmt.Errorf("setup %s: %v", j.sc.name, err)
				mu.Unlock()
				return
			}
			counter, logf := filepath.Join(root, "counter"), filepath.Join(root, "points.log")
			pre := scanStore(filepath.Join(dir, ".git"))
			var r gitenv.Result
			reached := 0
			last := ""
			if j.sc.syscalls {
				sbin := filepath.Join(root, "sbin")
				if err := straceWrapper(sbin, lfs); err != nil {
					mu.Lock()
					infra = err
					mu.Unlock()
					return
				}
				kf := filepath.Join(root, "killed")
				r = j.sc.command(w, dir, []string{"PATH=" + sbin + ":" + filepath.Dir(lfs) + ":/usr/local/bin:/usr/bin:/bin",
					fmt.Sprintf("VERIF_SYSCALL_AT=%d", j.k), "VERIF_SYSCALL_KILLED=" + kf})
				if kb, err := os.ReadFile(kf); err == nil && len(kb) > 0 {
					reached = j.k
					last = fmt.Sprintf("%d syscall#%d %s", j.k, j.k, strings.TrimSpace(strings.SplitN(string(kb), "\n", 2)[0]))
				} else {
					last = fmt.Sprintf("%d syscall#%d (not reached)", j.k, j.k)
				}
			} else {
				r = j.sc.command(w, dir, []string{"VERIF_CRASH_COUNTER=" + counter, "VERIF_CRASH_LOG=" + logf, fmt.Sprintf("VERIF_CRASH_AT=%d", j.k)})
				lb, _ := os.ReadFile(logf)
				reached = strings.Count(string(lb), "\n")
				if ls := strings.Split(strings.TrimSpace(string(lb)), "\n"); len(ls) > 0 {
					last = ls[len(ls)-1]
				}
			}
			if reached >= j.k {
				mu.Lock()
				if j.sc.syscalls {
					killedSys++
				} else {
					killed++
				}
				mu.Unlock()
			}
			after := scanStore(filepath.Join(dir, ".git"))
			mk := func(assertion, why string) {
				c.Report(core.Violation{Assertion: assertion, Fields: map[string]string{"scenario": j.sc.name, "point": strings.Join(strings.Fields(last)[1:2], "")},
					Detail: map[string]interface{}{"why": why, "scenario": j.sc.name, "crash_at": j.k, "killed_at": last, "command_exit": r.Code,
						"objects_after_kill": after.objects, "temporaries": after.temps, "bad": after.bad, "output": core.Tail(r.All(), 600)}})
			}
			for rel, st := range after.objects {
				if st == "corrupt" && pre.objects[rel] != "corrupt" {
					mk("objects-hash-to-their-name-after-kill", "after the kill "+rel+" exists in local storage but its bytes do not hash to its name")
					return
				}
			}
			if len(after.elsewhere) > 0 {
				mk("leftovers-confined-to-temporary-areas", fmt.Sprintf("files outside objects/, tmp/, incomplete/, bad/: %v", after.elsewhere))
				return
			}
			// re-run the same command without interference
			r2 := j.sc.command(w, dir, nil)
			if r2.Code != j.refCode {
				mk("rerun-completes", fmt.Sprintf("re-running the command after the kill ended with status %d (an uninterrupted run: %d): %s", r2.Code, j.refCode, core.Tail(r2.All(), 400)))
				return
			}
			fin := scanStore(filepath.Join(dir, ".git"))
			for rel, st := range fin.objects {
				if st == "corrupt" && pre.objects[rel] != "corrupt" {
					mk("objects-hash-to-their-name-after-kill", "after the re-run "+rel+" is corrupt")
					return
				}
			}
			if got := validSet(fin); got != j.ref {
				mk("rerun-converges-to-uninterrupted-state", fmt.Sprintf("store after kill + re-run: %s ; after an uninterrupted run: %s", got, j.ref))
			}
		})
		if infra != nil {
			c.Infra("%v", infra)
		}
		if killed < (len(jobs)-jobsSys)*9/10 {
			c.Infra("only %d of %d runs reached their crash point", killed, len(jobs)-jobsSys)
		}
		// strace counts per thread and the Go runtime spreads the calls over its threads differently from
		// run to run: a given ordinal is not always reached
		if jobsSys > 0 && killedSys < jobsSys/2 {
			c.Infra("only %d of %d runs were killed at their system call", killedSys, jobsSys)
		}
		c.Set("kills_delivered", killed)
		c.Set("kills_delivered_at_system_calls", killedSys)
		c.Set("runs_with_system_call_kill_points", jobsSys)
		c.Set("traces_validated_against_impl", len(jobs))
		c.Set("evaluations", len(jobs))
		c.Set("distinct_nontrivial", len(jobs))
		c.Set("exhaustive", !c.Quick())
		c.Set("rule", "cases = (scenario, ordinal of the reached crash point): scenarios git add of 3 files (one duplicate), lfs fetch / lfs pull / one-shot smudge with download in a fresh clone, lfs fetch in a --shared clone whose reference store is on the same filesystem (hard link) and on another one (copy), fsck repair of 2 corrupt objects, prune, lfs fetch through a transfer agent that hands its downloads over on another filesystem (kill points = system calls); every reached point in the thorough tier, the first and last 12 plus a stride in the quick tier")
		for i := 0; i < len(jobs); i += len(jobs)/5 + 1 {
			c.Sample(map[string]interface{}{"scenario": jobs[i].sc.name, "kill_at_point": jobs[i].k, "of": pointsPer[jobs[i].sc.name]})
		}
		c.Assume("crash = SIGKILL of the git-lfs process at a verif-tag crash point, or (scenario agent-other-fs) on entering its n-th file-mutating system call under strace (tools.TempFile, every write burst of CopyWithCallback, RobustRename, clean's rename, LinkOrCopy / CopyFileContents, fsck's move, prune's unlink); power loss is out of scope; migrate import is not yet among the scenarios")
	}
}
