package main

// World is the concrete counterpart of spec/Repo.tla: a bare remote, its fake
// LFS server, and one clone, driven with real git and the git-lfs under test.
// It owns the concretisation (abstract oid -> bytes, abstract commit index ->
// sha) and the projection back into the abstract vocabulary.

import (
	"fmt"
	"os"
	"path/filepath"
	"sort"
	"strings"
	"time"

	"verif/harness/internal/core"
	"verif/harness/internal/gitenv"
	"verif/harness/internal/lfsserver"
)

const repoName = "remote"

type World struct {
	RawBig  bool     // ordinary content is written longer than 1024 bytes
	FileRemote bool // origin is a file:// URL and there is no LFS server
	Linked  string   // directory of the linked worktree, if one was added
	cleanup []func() // run by Close (scratch outside the world's root)
	Env     *gitenv.Env
	Srv     *lfsserver.Server
	Root    string
	Clone   string
	Remote  string
	Seed    int64
	Commits []string          // index-1 -> sha (abstract commit numbering of the spec)
	Br      map[string]int    // abstract branch -> commit index
	content map[string][]byte // abstract oid -> bytes
	Now     int64             // "now" for date arithmetic (unix)
	cur     string            // checked-out branch
	Log     []string          // command log for replay files
	Attr    string            // attribute line for *.bin (default: the line git lfs track writes)
	HasRoot bool              // a root commit with .gitattributes exists below the spec's commits
	Direct  bool              // commit pointer text directly (no filter configured for the paths)
}

// WorldOpts are concretisation-only dimensions: the spec says the answer does not depend on them.
type WorldOpts struct {
	AttrsBig   bool // with CommitAttrs: the committed .gitattributes is longer than 1024 bytes
	RawBig     bool
	FileRemote bool
	Attr        string   // attributes for *.bin, e.g. "filter=lfs diff=lfs merge=lfs -text"
	Ambient     []string // "section.key=value" entries added to the user's global git config
	CommitAttrs bool     // track through a committed .gitattributes (root commit) instead of .git/info/attributes
	NoAttrs     bool     // no tracking at all: pointers are committed as pointer text, objects placed in the store directly
}

func (w *World) Content(o string) []byte {
	if b, ok := w.content[o]; ok {
		return b
	}
	b := []byte(fmt.Sprintf("verif object %s seed %d\n%s\n", o, w.Seed, strings.Repeat(o+"-", 20+int(w.Seed%7))))
	w.content[o] = b
	return b
}
func (w *World) Hex(o string) string { return core.Sha(w.Content(o)) }
func (w *World) Abstract(hex string) string {
	for _, o := range []string{"o1", "o2", "o3", "o4", "n1", "n2", "z1", "z2"} {
		if w.Hex(o) == hex {
			return o
		}
	}
	return "?" + hex[:8]
}
func (w *World) PointerText(o string) string {
	return fmt.Sprintf("version https://git-lfs.github.com/spec/v1\noid sha256:%s\nsize %d\n", w.Hex(o), len(w.Content(o)))
}
// RawContent is ordinary Git content committed at path p; with RawBig it is longer than the 1024-byte
// pointer cutoff (the size of ordinary content is never an argument of a specification).
func (w *World) RawContent(p string) []byte {
	if t, ok := rawTwin[p]; ok {
		p = t // the same ordinary bytes as that path's
	}
	s := "plain git content of " + p + "\n"
	if w.RawBig {
		return []byte(strings.Repeat(s, 1500/len(s)+1))
	}
	return []byte(s)
}
// pathDir places an abstract path in a sub-directory (set once, before any world exists, by a check
// that needs nested directories; every check is a process of its own).
var pathDir = map[string]string{}

// pathBase gives an abstract path another file name than its own (two paths with one base name in two
// directories); rawTwin makes its ordinary content the same bytes as another path's.
var pathBase = map[string]string{}
var rawTwin = map[string]string{}

func PathFile(p string) string {
	if b, ok := pathBase[p]; ok {
		return pathDir[p] + b
	}
	return pathDir[p] + p + ".bin"
}

func (w *World) logf(format string, a ...interface{}) {
	w.Log = append(w.Log, fmt.Sprintf(format, a...))
}

func (w *World) git(args ...string) (gitenv.Result, error) {
	w.logf("git %s", strings.Join(args, " "))
	return w.Env.MustGit(w.Clone, args...)
}

// NewWorld builds remote + clone; tracking is configured in .git/info/attributes
// so that trees contain only the scenario's paths.
func NewWorld(root, binDir string, seed int64) (*World, error) {
	return NewWorldOpts(root, binDir, seed, WorldOpts{})
}

func NewWorldOpts(root, binDir string, seed int64, o WorldOpts) (*World, error) {
	env, err := gitenv.New(root, binDir)
	if err != nil {
		return nil, err
	}
	for _, kv := range o.Ambient {
		i := strings.Index(kv, "=")
		if r := env.Git(root, "config", "--global", kv[:i], kv[i+1:]); !r.OK() {
			return nil, fmt.Errorf("ambient config %s: %s", kv, r.All())
		}
	}
	srv, err := lfsserver.New()
	if err != nil {
		return nil, err
	}
	srv.VerifyPut = true
	w := &World{Env: env, Srv: srv, Root: root, Clone: filepath.Join(root, "clone"), Remote: filepath.Join(root, "remote.git"),
		Seed: seed, Br: map[string]int{}, content: map[string][]byte{}, Now: time.Now().Unix(), cur: "", Attr: o.Attr}
	if w.Attr == "" {
		w.Attr = "filter=lfs diff=lfs merge=lfs -text"
	}
	if err := env.InitRepo(w.Remote, true); err != nil {
		return nil, err
	}
	if err := env.InitRepo(w.Clone, false); err != nil {
		return nil, err
	}
	// scenarios may delete any branch on the remote, also the one its HEAD names
	if r := env.Git(w.Remote, "config", "receive.denyDeleteCurrent", "ignore"); !r.OK() {
		return nil, fmt.Errorf("remote config: %s", r.All())
	}
	w.FileRemote = o.FileRemote
	w.RawBig = o.RawBig
	for _, args := range [][]string{
		{"remote", "add", "origin", w.RemoteURL()},
		{"config", "lfs.url", srv.LFSURL(repoName, "")},
		{"config", "lfs.transfer.maxretries", "1"},
		{"config", "lfs.transfer.maxretrydelay", "0"},
		{"config", "lfs.locksverify", "false"},
		{"lfs", "install", "--local"},
	} {
		if w.FileRemote && args[0] == "config" && args[1] == "lfs.url" {
			continue // no LFS server: git-lfs itself stores into <remote>/lfs/objects (standalone file transfer)
		}
		if _, err := w.git(args...); err != nil {
			return nil, err
		}
	}
	if o.CommitAttrs {
		attrs := "*.bin " + w.Attr + "\n"
		if o.AttrsBig {
			// more than 1024 bytes of attributes: unrelated patterns around the one that matters
			var sb strings.Builder
			for i := 0; i < 14; i++ {
				fmt.Fprintf(&sb, "unrelated-dir-%02d/*.dat filter=lfs diff=lfs merge=lfs -text\n", i)
			}
			sb.WriteString(attrs)
			for i := 14; i < 28; i++ {
				fmt.Fprintf(&sb, "unrelated-dir-%02d/*.dat filter=lfs diff=lfs merge=lfs -text\n", i)
			}
			attrs = sb.String()
		}
		if err := os.WriteFile(filepath.Join(w.Clone, ".gitattributes"), []byte(attrs), 0o644); err != nil {
			return nil, err
		}
		if _, err := w.git("add", ".gitattributes"); err != nil {
			return nil, err
		}
		if r := env.GitDate(w.Clone, w.Now-86400*30, "commit", "-q", "-m", "attributes"); !r.OK() {
			return nil, fmt.Errorf("root commit: %s", r.All())
		}
		w.cur = "main"
		w.HasRoot = true
		return w, nil
	}
	if o.NoAttrs {
		w.Direct = true
		return w, nil
	}
	return w, w.SetAttributes(w.Clone)
}

// NonCanonicalPointerText is a parseable but non-canonical spelling (CRLF line endings).
func (w *World) NonCanonicalPointerText(o string) string {
	return strings.ReplaceAll(w.PointerText(o), "\n", "\r\n")
}

// IsNonCanon: abstract oids named n* are committed with a non-canonical pointer.
func IsNonCanon(o string) bool { return strings.HasPrefix(o, "n") }

// IsMissized: abstract oids named z* are committed with a pointer in canonical form whose size line
// does not give the object's length (hand-written or tool-generated pointers).
func IsMissized(o string) bool { return strings.HasPrefix(o, "z") }

// MissizedPointerText names the right object and a size that is off by 7.
func (w *World) MissizedPointerText(o string) string {
	return fmt.Sprintf("version https://git-lfs.github.com/spec/v1\noid sha256:%s\nsize %d\n", w.Hex(o), len(w.Content(o))+7)
}

// EnsureLocalObject writes the object's bytes into the local store (used when a pointer is staged directly).
func (w *World) EnsureLocalObject(o string) error {
	p := gitenv.LocalObjectPath(w.GitDir(), w.Hex(o))
	if _, err := os.Stat(p); err == nil {
		return nil
	}
	if err := os.MkdirAll(filepath.Dir(p), 0o755); err != nil {
		return err
	}
	return os.WriteFile(p, w.Content(o), 0o444)
}

// BadOids lists the abstract oids found in lfs/bad with the validity of their bytes.
func (w *World) BadOids() map[string][]byte {
	out := map[string][]byte{}
	ents, _ := os.ReadDir(filepath.Join(w.GitDir(), "lfs", "bad"))
	for _, e := range ents {
		b, _ := os.ReadFile(filepath.Join(w.GitDir(), "lfs", "bad", e.Name()))
		out[w.Abstract(e.Name())] = b
	}
	return out
}

func (w *World) SetAttributes(repo string) error {
	gd := filepath.Join(repo, ".git")
	if _, err := os.Stat(gd); err != nil {
		gd = repo
	}
	os.MkdirAll(filepath.Join(gd, "info"), 0o755)
	return os.WriteFile(filepath.Join(gd, "info", "attributes"), []byte("*.bin "+w.Attr+"\n"), 0o644)
}

func (w *World) Close() {
	w.Srv.Close()
	for _, f := range w.cleanup {
		f()
	}
}

func (w *World) GitDir() string { return filepath.Join(w.Clone, ".git") }

var skipSmudge = []string{"GIT_LFS_SKIP_SMUDGE=1"}

// checkout switches branches leaving pointer files in the work tree (never
// content: see DESIGN 3.8 racy-git control and the Push module's SmudgedWT).
func (w *World) checkout(b string, create bool, from string) error {
	if w.cur == b {
		return nil
	}
	args := []string{"checkout", "-q", "-f", b}
	if create {
		args = []string{"checkout", "-q", "-f", "-b", b, from}
	}
	w.logf("GIT_LFS_SKIP_SMUDGE=1 git %s", strings.Join(args, " "))
	r := w.Env.RunIn(w.Clone, skipSmudge, nil, 0, "git", args...)
	if !r.OK() {
		return fmt.Errorf("checkout %s: %s", b, r.All())
	}
	w.cur = b
	return nil
}

func (w *World) head() (string, error) {
	r, err := w.Env.MustGit(w.Clone, "rev-parse", "HEAD")
	return strings.TrimSpace(r.Stdout), err
}

// Commit applies the spec's Commit(b, p, blob, age).
func (w *World) Commit(b, p, blob string, age int) error {
	_, exists := w.Br[b]
	if !exists && b != "main" {
		if err := w.checkout(b, true, "main"); err != nil {
			return err
		}
	} else if exists {
		if err := w.checkout(b, false, ""); err != nil {
			return err
		}
	} else if w.cur != "main" { // first commit on main
		if w.HasRoot {
			if err := w.checkout("main", false, ""); err != nil {
				return err
			}
		}
		w.cur = "main"
	}
	file := filepath.Join(w.Clone, PathFile(p))
	date := w.Now - int64(age)*86400 - 3600 + int64(len(w.Commits))*60
	switch blob {
	case "none":
		if _, err := w.git("rm", "-q", "--cached", "--ignore-unmatch", PathFile(p)); err != nil {
			return err
		}
		os.Remove(file)
	case "raw":
		if err := w.Env.WriteFile(file, w.RawContent(p), 0o644); err != nil {
			return err
		}
		// bypass the filter: the path holds ordinary Git content in this commit
		w.logf("git -c filter.lfs.clean= -c filter.lfs.process= -c filter.lfs.required=false add %s", PathFile(p))
		r := w.Env.Git(w.Clone, "-c", "filter.lfs.clean=", "-c", "filter.lfs.process=", "-c", "filter.lfs.required=false", "add", "--", PathFile(p))
		if !r.OK() {
			return fmt.Errorf("add raw: %s", r.All())
		}
	default:
		if w.Direct {
			if err := w.EnsureLocalObject(blob); err != nil {
				return err
			}
			if err := w.Env.WriteFile(file, []byte(w.PointerText(blob)), 0o644); err != nil {
				return err
			}
		} else if IsNonCanon(blob) {
			// the pointer is committed in a non-canonical spelling (clean passes pointers through)
			if err := w.EnsureLocalObject(blob); err != nil {
				return err
			}
			if err := w.Env.WriteFile(file, []byte(w.NonCanonicalPointerText(blob)), 0o644); err != nil {
				return err
			}
		} else if IsMissized(blob) {
			if err := w.EnsureLocalObject(blob); err != nil {
				return err
			}
			if err := w.Env.WriteFile(file, []byte(w.MissizedPointerText(blob)), 0o644); err != nil {
				return err
			}
		} else if err := w.Env.WriteFile(file, w.Content(blob), 0o644); err != nil {
			return err
		}
		if _, err := w.git("add", "--", PathFile(p)); err != nil {
			return err
		}
	}
	w.logf("git commit (date %d)", date)
	r := w.Env.GitDate(w.Clone, date, "commit", "-q", "--allow-empty", "-m", fmt.Sprintf("c%d %s %s=%s", len(w.Commits)+1, b, p, blob))
	if !r.OK() {
		return fmt.Errorf("commit: %s", r.All())
	}
	sha, err := w.head()
	if err != nil {
		return err
	}
	w.Commits = append(w.Commits, sha)
	w.Br[b] = len(w.Commits)
	// leave a pointer (not content) in the work tree
	if blob != "none" && blob != "raw" && !w.Direct {
		os.Remove(file)
		w.Env.RunIn(w.Clone, skipSmudge, nil, 0, "git", "checkout", "-q", "--", PathFile(p))
		w.Env.Git(w.Clone, "update-index", "-q", "--refresh")
	}
	return nil
}

// AddWorktree checks branch b out in a linked worktree next to the clone (pointer files only).
func (w *World) AddWorktree(b string) error {
	w.Linked = filepath.Join(filepath.Dir(w.Clone), "linked")
	w.logf("git worktree add %s %s", w.Linked, b)
	r := w.Env.RunIn(w.Clone, skipSmudge, nil, 60*time.Second, "git", "worktree", "add", "-q", w.Linked, b)
	if !r.OK() {
		return fmt.Errorf("worktree add: %s", r.All())
	}
	return nil
}

// Relink makes a commit on b that changes nothing but the type of p: ordinary file <-> symbolic link
// whose target is the very same blob.
func (w *World) Relink(b, p string, link bool) error {
	if err := w.checkout(b, false, ""); err != nil {
		return err
	}
	file := filepath.Join(w.Clone, PathFile(p))
	r := w.Env.Git(w.Clone, "rev-parse", "HEAD:"+PathFile(p))
	if !r.OK() {
		return fmt.Errorf("relink: %s", r.All())
	}
	sha := strings.TrimSpace(r.Stdout)
	mode := "100644"
	os.Remove(file)
	if link {
		mode = "120000"
		if err := os.Symlink(string(w.RawContent(p)), file); err != nil {
			return err
		}
	} else if err := w.Env.WriteFile(file, w.RawContent(p), 0o644); err != nil {
		return err
	}
	if _, err := w.git("update-index", "--cacheinfo", mode+","+sha+","+PathFile(p)); err != nil {
		return err
	}
	date := w.Now - 3600 + int64(len(w.Commits))*60
	rc := w.Env.GitDate(w.Clone, date, "commit", "-q", "-m", fmt.Sprintf("c%d %s relink %s", len(w.Commits)+1, b, p))
	if !rc.OK() {
		return fmt.Errorf("relink commit: %s", rc.All())
	}
	head, err := w.head()
	if err != nil {
		return err
	}
	w.Commits = append(w.Commits, head)
	w.Br[b] = len(w.Commits)
	return nil
}

// Chmod makes a commit on b that changes nothing but the executable bit of p.
func (w *World) Chmod(b, p string, x bool) error {
	if err := w.checkout(b, false, ""); err != nil {
		return err
	}
	flag, mode := "--chmod=-x", os.FileMode(0o644)
	if x {
		flag, mode = "--chmod=+x", 0o755
	}
	os.Chmod(filepath.Join(w.Clone, PathFile(p)), mode)
	// (update-index re-reads a path it is given: with the filter off, so that a committed .gitattributes
	// line cannot turn the mode-only commit into a conversion)
	if _, err := w.git("-c", "filter.lfs.clean=", "-c", "filter.lfs.process=", "-c", "filter.lfs.required=false", "update-index", flag, "--", PathFile(p)); err != nil {
		return err
	}
	date := w.Now - 3600 + int64(len(w.Commits))*60
	r := w.Env.GitDate(w.Clone, date, "commit", "-q", "-m", fmt.Sprintf("c%d %s chmod %s", len(w.Commits)+1, b, p))
	if !r.OK() {
		return fmt.Errorf("chmod commit: %s", r.All())
	}
	sha, err := w.head()
	if err != nil {
		return err
	}
	w.Commits = append(w.Commits, sha)
	w.Br[b] = len(w.Commits)
	return nil
}

// CommitTree applies CommitTree(b, t, age): one commit setting every path of t.
func (w *World) CommitTree(b string, tree map[string]string, age int) error {
	_, exists := w.Br[b]
	if !exists && b != "main" {
		if err := w.checkout(b, true, "main"); err != nil {
			return err
		}
	} else if exists {
		if err := w.checkout(b, false, ""); err != nil {
			return err
		}
	} else if w.cur != "main" {
		w.cur = "main"
	}
	date := w.Now - int64(age)*86400 - 3600 + int64(len(w.Commits))*60
	paths := []string{}
	for p := range tree {
		paths = append(paths, p)
	}
	sort.Strings(paths)
	for _, p := range paths {
		file := filepath.Join(w.Clone, PathFile(p))
		if err := w.Env.WriteFile(file, w.Content(tree[p]), 0o644); err != nil {
			return err
		}
		if _, err := w.git("add", "--", PathFile(p)); err != nil {
			return err
		}
	}
	r := w.Env.GitDate(w.Clone, date, "commit", "-q", "--allow-empty", "-m", fmt.Sprintf("c%d %s tree", len(w.Commits)+1, b))
	if !r.OK() {
		return fmt.Errorf("commit: %s", r.All())
	}
	sha, err := w.head()
	if err != nil {
		return err
	}
	w.Commits = append(w.Commits, sha)
	w.Br[b] = len(w.Commits)
	for _, p := range paths {
		os.Remove(filepath.Join(w.Clone, PathFile(p)))
		w.Env.RunIn(w.Clone, skipSmudge, nil, 0, "git", "checkout", "-q", "--", PathFile(p))
	}
	w.Env.Git(w.Clone, "update-index", "-q", "--refresh")
	return nil
}

// Merge applies Merge(b, o): -X ours-like resolution is never needed because the
// spec's merges are conflict-free by construction only when trees agree; to be
// independent of content merges the merge commit's tree is built explicitly.
func (w *World) Merge(b, o string, tree map[string]string) error {
	if err := w.checkout(b, false, ""); err != nil {
		return err
	}
	date := w.Now - 3600 + int64(len(w.Commits))*60
	w.logf("git merge --no-commit -s ours %s ; set tree", o)
	r := w.Env.RunIn(w.Clone, skipSmudge, nil, 0, "git", "merge", "-q", "--no-commit", "--no-ff", "-s", "ours", o)
	if !r.OK() {
		return fmt.Errorf("merge: %s", r.All())
	}
	// set every path to the merge tree of the spec
	for p, blob := range tree {
		file := filepath.Join(w.Clone, PathFile(p))
		switch blob {
		case "none":
			w.Env.Git(w.Clone, "rm", "-q", "--cached", "--ignore-unmatch", PathFile(p))
			os.Remove(file)
		case "raw":
			w.Env.WriteFile(file, w.RawContent(p), 0o644)
			w.Env.Git(w.Clone, "-c", "filter.lfs.clean=", "-c", "filter.lfs.process=", "-c", "filter.lfs.required=false", "add", "--", PathFile(p))
		default:
			// stage the pointer directly (content may not be local any more)
			txt := w.PointerText(blob)
			if IsNonCanon(blob) {
				txt = w.NonCanonicalPointerText(blob)
			}
			if IsMissized(blob) {
				txt = w.MissizedPointerText(blob)
			}
			w.Env.WriteFile(file, []byte(txt), 0o644)
			if rr := w.Env.Git(w.Clone, "add", "--", PathFile(p)); !rr.OK() {
				return fmt.Errorf("merge add: %s", rr.All())
			}
		}
	}
	r = w.Env.GitDate(w.Clone, date, "commit", "-q", "--allow-empty", "-m", fmt.Sprintf("c%d merge %s into %s", len(w.Commits)+1, o, b))
	if !r.OK() {
		return fmt.Errorf("merge commit: %s", r.All())
	}
	sha, err := w.head()
	if err != nil {
		return err
	}
	w.Commits = append(w.Commits, sha)
	w.Br[b] = len(w.Commits)
	w.Env.Git(w.Clone, "update-index", "-q", "--refresh")
	return nil
}

// Damage applies DamageLocal(o, how).
func (w *World) Damage(o, how string) error {
	p := gitenv.LocalObjectPath(w.GitDir(), w.Hex(o))
	w.logf("damage %s (%s): %s", o, how, p)
	switch how {
	case "absent":
		return os.Remove(p)
	case "corrupt":
		b := append([]byte{}, w.Content(o)...)
		b[len(b)/2] ^= 0x01
		os.Remove(p) // a new inode: the store of a file:// remote may hold a hard link to the old one
		return os.WriteFile(p, b, 0o644)
	case "truncated":
		b := w.Content(o)
		os.Remove(p) // a new inode: the store of a file:// remote may hold a hard link to the old one
		return os.WriteFile(p, b[:len(b)/2], 0o644)
	case "extended":
		b := append(append([]byte{}, w.Content(o)...), []byte("extra")...)
		os.Remove(p) // a new inode: the store of a file:// remote may hold a hard link to the old one
		return os.WriteFile(p, b, 0o644)
	case "replaced":
		os.Remove(p) // a new inode: the store of a file:// remote may hold a hard link to the old one
		return os.WriteFile(p, w.Content("o4"), 0o644)
	}
	return fmt.Errorf("unknown damage %s", how)
}

// OtherPush applies OtherPush(b): the remote moves (objects included), the
// clone's remote-tracking ref stays where it was.
func (w *World) OtherPush(b string, oids []string) error {
	old := w.Env.Git(w.Clone, "rev-parse", "--verify", "-q", "refs/remotes/origin/"+b)
	w.logf("git push --no-verify origin %s (as another clone) ; restore refs/remotes/origin/%s", b, b)
	r := w.Env.Git(w.Clone, "push", "-q", "--no-verify", "origin", b)
	if !r.OK() {
		return fmt.Errorf("otherpush: %s", r.All())
	}
	for _, o := range oids {
		w.ServerPut(o)
	}
	if old.OK() {
		_, err := w.Env.MustGit(w.Clone, "update-ref", "refs/remotes/origin/"+b, strings.TrimSpace(old.Stdout))
		return err
	}
	_, err := w.Env.MustGit(w.Clone, "update-ref", "-d", "refs/remotes/origin/"+b)
	return err
}

// SetAttr applies Migrate's SetAttr(b, which): a commit that adds (on) or removes one .gitattributes
// line - for p1 in the top-level file, for p2 in the file of p2's own directory - and nothing else.
func (w *World) SetAttr(b, which string, on bool) error {
	if err := w.checkout(b, false, ""); err != nil {
		return err
	}
	file, line := ".gitattributes", "/"+PathFile("p1")+" filter=lfs diff=lfs merge=lfs -text\n"
	if which == "nested" {
		file, line = filepath.Join(filepath.Dir(PathFile("p2")), ".gitattributes"), filepath.Base(PathFile("p2"))+" filter=lfs diff=lfs merge=lfs -text\n"
	}
	full := filepath.Join(w.Clone, file)
	if on {
		if err := w.Env.WriteFile(full, []byte(line), 0o644); err != nil {
			return err
		}
		if _, err := w.git("add", "--", file); err != nil {
			return err
		}
	} else {
		if _, err := w.git("rm", "-q", "--", file); err != nil {
			return err
		}
	}
	date := w.Now - 3600 + int64(len(w.Commits))*60
	r := w.Env.GitDate(w.Clone, date, "commit", "-q", "-m", fmt.Sprintf("c%d %s setattr %s=%v", len(w.Commits)+1, b, which, on))
	if !r.OK() {
		return fmt.Errorf("setattr commit: %s", r.All())
	}
	sha, err := w.head()
	if err != nil {
		return err
	}
	w.Commits = append(w.Commits, sha)
	w.Br[b] = len(w.Commits)
	w.Env.Git(w.Clone, "update-index", "-q", "--refresh")
	return nil
}

// OtherDelete applies OtherDelete(b): somebody else deleted the branch on the remote and the server
// collected the objects nothing there references any more; this clone's remote-tracking ref stays.
func (w *World) OtherDelete(b string, gone []string) error {
	w.logf("(on the remote) git update-ref -d refs/heads/%s ; server drops %v", b, gone)
	if r := w.Env.Git(w.Remote, "update-ref", "-d", "refs/heads/"+b); !r.OK() {
		return fmt.Errorf("otherdelete: %s", r.All())
	}
	for _, o := range gone {
		w.ServerDelete(o)
	}
	return nil
}

// Stage applies Stage(p, o): content written and added, not committed.
func (w *World) Stage(p, o string) error { return w.StageIn("main", p, o, "") }

// StageIn stages content o at p in the main or the linked worktree; after: "" leaves the staged bytes in
// the working file, "edited" / "deleted" change the working file again so that only the index still
// refers to the staged version.
func (w *World) StageIn(where, p, o, after string) error {
	dir := w.Clone
	if where == "linked" {
		dir = w.Linked
	}
	file := filepath.Join(dir, PathFile(p))
	if err := w.Env.WriteFile(file, w.Content(o), 0o644); err != nil {
		return err
	}
	w.logf("(in %s) git add -- %s ; working file afterwards: %s", filepath.Base(dir), PathFile(p), after)
	if r := w.Env.RunIn(dir, nil, nil, 60*time.Second, "git", "add", "--", PathFile(p)); !r.OK() {
		return fmt.Errorf("stage: %s", r.All())
	}
	switch after {
	case "edited":
		return w.Env.WriteFile(file, []byte("edited again after git add\n"), 0o644)
	case "deleted":
		return os.Remove(file)
	}
	return nil
}

// Stash applies Stash(p, o): edit p to content o, then git stash (work tree back to pointers).
func (w *World) Stash(p, o, kind string) error {
	file := filepath.Join(w.Clone, PathFile(p))
	if err := w.Env.WriteFile(file, w.Content(o), 0o644); err != nil {
		return err
	}
	args := []string{"stash", "-q"}
	switch kind {
	case "index": // staged, then the working file goes away: only the stash's index commit has the object
		if r := w.Env.RunIn(w.Clone, nil, nil, 60*time.Second, "git", "add", "--", PathFile(p)); !r.OK() {
			return fmt.Errorf("stash (add): %s", r.All())
		}
		os.Remove(file)
	case "untracked": // a new file: only the stash's untracked-files commit has the object
		args = append(args, "-u")
	}
	w.logf("(%s) GIT_LFS_SKIP_SMUDGE=1 git %s", kind, strings.Join(args, " "))
	r := w.Env.RunIn(w.Clone, skipSmudge, nil, 0, "git", args...)
	if !r.OK() {
		return fmt.Errorf("stash: %s", r.All())
	}
	if l := w.Env.Git(w.Clone, "stash", "list"); strings.TrimSpace(l.Stdout) == "" {
		return fmt.Errorf("stash produced no entry: %s", r.All())
	}
	w.Env.Git(w.Clone, "update-index", "-q", "--refresh")
	return nil
}

// Switch applies Switch(b).
func (w *World) Switch(b string) error { return w.checkout(b, false, "") }

// LocalOids lists the abstract oids that have a file in the clone's object store.
func (w *World) LocalOids() []string {
	out := []string{}
	for rel := range gitenv.ListObjects(w.GitDir()) {
		// objects outside the scenario's alphabet are by-products of git re-running the clean
		// filter on ordinary ("raw") content at a tracked path (GitReclean, DESIGN 3.8): no
		// commit, index entry or stash references them
		if a := w.Abstract(filepath.Base(rel)); !strings.HasPrefix(a, "?") {
			out = append(out, a)
		}
	}
	sort.Strings(out)
	return out
}

// ---- projections -----------------------------------------------------------

// ServerSet returns the abstract oids the server holds with valid content.
func (w *World) ServerSet() []string {
	out := []string{}
	if w.FileRemote {
		for rel, b := range gitenv.ListObjects(w.Remote) {
			if core.Sha(b) == filepath.Base(rel) {
				out = append(out, w.Abstract(filepath.Base(rel)))
			}
		}
		sort.Strings(out)
		return out
	}
	for _, h := range w.Srv.ValidOids(repoName) {
		out = append(out, w.Abstract(h))
	}
	sort.Strings(out)
	return out
}

// ServerAll returns every oid name stored (valid or not).
func (w *World) ServerAll() []string {
	out := []string{}
	if w.FileRemote {
		for rel := range gitenv.ListObjects(w.Remote) {
			out = append(out, w.Abstract(filepath.Base(rel)))
		}
		sort.Strings(out)
		return out
	}
	for _, h := range w.Srv.AllOids(repoName) {
		out = append(out, w.Abstract(h))
	}
	sort.Strings(out)
	return out
}

// RemoteURL is what the clone's origin points at: the bare repository's path, or a file:// URL of it
// (then git-lfs has no LFS server and stores into <remote>/lfs/objects itself).
func (w *World) RemoteURL() string {
	if w.FileRemote {
		return "file://" + w.Remote
	}
	return w.Remote
}

// ServerPut makes the server hold object o (somebody else uploaded it).
func (w *World) ServerPut(o string) {
	if w.FileRemote {
		p := gitenv.LocalObjectPath(w.Remote, w.Hex(o))
		os.MkdirAll(filepath.Dir(p), 0o755)
		os.WriteFile(p, w.Content(o), 0o444)
		return
	}
	w.Srv.Put(repoName, w.Content(o))
}

// ServerDelete makes the server lose object o.
func (w *World) ServerDelete(o string) {
	if w.FileRemote {
		os.Remove(gitenv.LocalObjectPath(w.Remote, w.Hex(o)))
		return
	}
	w.Srv.Delete(repoName, w.Hex(o))
}

// LocalStatus returns abstract oid -> absent|valid|corrupt for the clone's store.
func (w *World) LocalStatus(oids []string) map[string]string {
	out := map[string]string{}
	for _, o := range oids {
		b, err := os.ReadFile(gitenv.LocalObjectPath(w.GitDir(), w.Hex(o)))
		switch {
		case err != nil:
			out[o] = "absent"
		case core.Sha(b) == w.Hex(o):
			out[o] = "valid"
		default:
			out[o] = "corrupt"
		}
	}
	return out
}

// RemoteRefs returns branch -> abstract commit index (0 if absent, -1 if unknown sha).
func (w *World) RemoteRefs(branches []string) map[string]int {
	out := map[string]int{}
	for _, b := range branches {
		r := w.Env.Git(w.Remote, "rev-parse", "--verify", "-q", "refs/heads/"+b)
		out[b] = 0
		if r.OK() {
			sha := strings.TrimSpace(r.Stdout)
			out[b] = -1
			for i, s := range w.Commits {
				if s == sha {
					out[b] = i + 1
				}
			}
		}
	}
	return out
}

func toStrings(v interface{}) []string {
	out := []string{}
	if a, ok := v.([]interface{}); ok {
		for _, x := range a {
			if s, ok := x.(string); ok {
				out = append(out, s)
			}
		}
	}
	sort.Strings(out)
	return out
}
func toSet(v []string) map[string]bool {
	m := map[string]bool{}
	for _, s := range v {
		m[s] = true
	}
	return m
}
func subset(a []string, b map[string]bool) bool {
	for _, s := range a {
		if !b[s] {
			return false
		}
	}
	return true
}
