package main

// C04: clone / fetch / pull / checkout in a second clone.  spec/FetchCheckout.tla
// predicts, for every explored published history, server state, set of local
// objects and work-tree perturbation, which objects the command must make
// available and what every tracked path must look like afterwards.

import (
	"encoding/json"
	"fmt"
	"os"
	"path/filepath"
	"sort"
	"strings"
	"time"

	"verif/harness/internal/core"
	"verif/harness/internal/gitenv"
)

const editedBytes = "the user's own edit of this file\n"

// classifyWt says what sits at path p of clone dir, relative to the tree entry blob.
func (w *World) classifyWt(dir, p, blob string) string {
	by, err := os.ReadFile(filepath.Join(dir, PathFile(p)))
	if err != nil {
		if blob == "none" {
			return "absent"
		}
		return "missing"
	}
	s := string(by)
	switch {
	case blob == "raw" && s == string(w.RawContent(p)):
		return "rawfile"
	case s == editedBytes:
		return "edited"
	case s == "" && blob != "raw":
		return "emptied"
	}
	for _, o := range []string{"o1", "o2", "o3", "o4"} {
		if s == w.PointerText(o) {
			if o == blob {
				return "pointer"
			}
			return "otherptr"
		}
		if s == string(w.Content(o)) {
			if o == blob {
				return "content"
			}
			return "content-of-" + o
		}
	}
	return "other"
}

func replayFetchCheckout(c *core.Ctx, lfsBin string, b *behaviour, idx int) (*core.Violation, error) {
	root := filepath.Join(c.Work, fmt.Sprintf("w%d", idx))
	defer os.RemoveAll(root)
	w, err := NewWorld(root, filepath.Dir(lfsBin), c.Seed)
	if err != nil {
		return nil, err
	}
	defer w.Close()
	cloneB := filepath.Join(root, "cloneB")
	gitDirB := filepath.Join(cloneB, ".git")
	paths := []string{"p1", "p2"}
	for i, s := range b.steps {
		handled, err := applyRepoStep(w, s)
		if err != nil {
			return nil, fmt.Errorf("step %d %v: %v", i, s, err)
		}
		if handled {
			continue
		}
		switch a := s.str("a"); a {
		case "publish":
			r := w.Env.RunIn(w.Clone, nil, nil, 120*time.Second, "git", "push", "-q", "--all", "origin")
			if !r.OK() {
				return nil, fmt.Errorf("publish: %s", r.All())
			}
		case "serverloses":
			w.ServerDelete(s.str("oid"))
		case "clone":
			env := []string{}
			if skip, _ := s["skip"].(bool); skip {
				env = skipSmudge
			}
			// attributes for the new clone come from a template directory (the scenario tracks through info/attributes)
			tmpl := filepath.Join(root, "tmpl")
			os.MkdirAll(filepath.Join(tmpl, "info"), 0o755)
			os.WriteFile(filepath.Join(tmpl, "info", "attributes"), []byte("*.bin "+w.Attr+"\n"), 0o644)
			r := w.Env.RunIn(root, env, nil, 120*time.Second, "git", "clone", "-q", "--template="+tmpl,
				"-c", "lfs.url="+w.Srv.LFSURL(repoName, ""), "-c", "lfs.transfer.maxretries=1", "-c", "lfs.transfer.maxretrydelay=0", w.Remote, cloneB)
			if !r.OK() {
				return nil, fmt.Errorf("clone: %s", r.All())
			}
			if rr := w.Env.Git(cloneB, "lfs", "install", "--local"); !rr.OK() {
				return nil, fmt.Errorf("install: %s", rr.All())
			}
			// compare the clone itself with the specification
			want, _ := s["wt"].(map[string]interface{})
			tree := treeOfLast(b.steps, i)
			for _, p := range paths {
				got := w.classifyWt(cloneB, p, tree[p])
				if wv, _ := want[p].(string); wv != got {
					return &core.Violation{Assertion: "clone-materialises-content", Fields: map[string]string{"op": "clone", "skip": fmt.Sprint(s["skip"])},
						Detail: map[string]interface{}{"why": fmt.Sprintf("after clone %s is %s, the specification says %s", p, got, wv), "behaviour": json.RawMessage(b.raw), "output": core.Tail(r.All(), 600)}}, nil
				}
			}
		case "perturb":
			f := filepath.Join(cloneB, PathFile(s.str("p")))
			os.Chmod(f, 0o644)
			switch s.str("kind") {
			case "edited":
				w.Env.WriteFile(f, []byte(editedBytes), 0o644)
			case "missing":
				os.Remove(f)
			case "emptied":
				w.Env.WriteFile(f, nil, 0o644)
			case "otherptr":
				w.Env.WriteFile(f, []byte(w.PointerText("o4")), 0o644)
			}
		case "dropb":
			os.Remove(gitenv.LocalObjectPath(gitDirB, w.Hex(s.str("oid"))))
		case "toreference":
			// a repository next door whose object directory B's alternates file names; its lfs/objects is
			// the reference store
			refGit := filepath.Join(root, "reference.git")
			if _, err := os.Stat(refGit); err != nil {
				if r := w.Env.Git(root, "init", "-q", "--bare", refGit); !r.OK() {
					return nil, fmt.Errorf("init reference: %s", r.All())
				}
				os.MkdirAll(filepath.Join(gitDirB, "objects", "info"), 0o755)
				if err := os.WriteFile(filepath.Join(gitDirB, "objects", "info", "alternates"), []byte(filepath.Join(refGit, "objects")+"\n"), 0o644); err != nil {
					return nil, err
				}
			}
			src := gitenv.LocalObjectPath(gitDirB, w.Hex(s.str("oid")))
			dst := gitenv.LocalObjectPath(refGit, w.Hex(s.str("oid")))
			os.MkdirAll(filepath.Dir(dst), 0o755)
			if err := os.Rename(src, dst); err != nil {
				return nil, fmt.Errorf("toreference: %v", err)
			}
		case "fetch", "pull", "checkout":
			tree := map[string]string{}
			if m, ok := s["tree"].(map[string]interface{}); ok {
				for k, v := range m {
					tree[k], _ = v.(string)
				}
			}
			before := map[string][]byte{}
			for _, p := range paths {
				before[p], _ = os.ReadFile(filepath.Join(cloneB, PathFile(p)))
			}
			// include / exclude sets become pattern lists, given as -I / -X or as lfs.fetchinclude /
			// lfs.fetchexclude, optionally padded with a pattern that matches nothing before or after
			// (how a set is spelled is a concretisation-only dimension, chosen by the behaviour's hash)
			inc, exc := toStrings(s["inc"]), toStrings(s["exc"])
			spell := func(set []string, variant uint64) string {
				var l []string
				for _, p := range set {
					l = append(l, PathFile(p))
				}
				switch variant % 3 {
				case 1:
					l = append([]string{"nothing-here/*"}, l...)
				case 2:
					l = append(l, "nothing-here/*")
				}
				return strings.Join(l, ",")
			}
			viaConfig := (b.hash/7)%2 == 1
			cmdArgs := []string{"lfs", a}
			how := "none"
			if len(inc) > 0 {
				v := spell(inc, b.hash/3)
				if viaConfig {
					w.Env.Git(cloneB, "config", "lfs.fetchinclude", v)
				} else {
					cmdArgs = append(cmdArgs, "-I", v)
				}
				how = fmt.Sprintf("include=%s", v)
			}
			if len(exc) > 0 {
				v := spell(exc, b.hash/5)
				if viaConfig {
					w.Env.Git(cloneB, "config", "lfs.fetchexclude", v)
				} else {
					cmdArgs = append(cmdArgs, "-X", v)
				}
				how += fmt.Sprintf(" exclude=%s", v)
			}
			if viaConfig && how != "none" {
				how += " (git config)"
			}
			// where the command is run from is a concretisation-only dimension: the root of the work tree or
			// an (untracked, empty) sub-directory of it, reached by its physical path or through a symlink
			runDir := cloneB
			cwdKind := []string{"root", "root-via-symlink", "subdir", "subdir-via-symlink"}[(b.hash/13)%4]
			if f := os.Getenv("VERIF_C04_CWD"); f != "" {
				cwdKind = f // debugging aid: force the dimension
			}
			os.MkdirAll(filepath.Join(cloneB, "untracked-sub"), 0o755)
			// the symlink sits at another depth than its target, so that a relative path computed from the
			// logical directory does not happen to fit the physical one
			os.MkdirAll(filepath.Join(root, "via", "a", "deeper"), 0o755)
			link := filepath.Join(root, "via", "a", "deeper", "linkB")
			os.Symlink(cloneB, link)
			switch cwdKind {
			case "root-via-symlink":
				runDir = link
			case "subdir":
				runDir = filepath.Join(cloneB, "untracked-sub")
			case "subdir-via-symlink":
				runDir = filepath.Join(link, "untracked-sub")
			}
			how += " cwd=" + cwdKind
			r := w.Env.RunIn(runDir, nil, nil, 120*time.Second, "git", cmdArgs...)
			mk := func(assertion, why string) *core.Violation {
				return &core.Violation{Assertion: assertion, Fields: map[string]string{"op": a, "filtered": fmt.Sprint(!strings.HasPrefix(how, "none")), "cwd": cwdKind},
					Detail: map[string]interface{}{"why": why, "behaviour": json.RawMessage(b.raw), "exit": r.Code, "output": core.Tail(r.All(), 900), "selection": how, "command": strings.Join(cmdArgs, " ")}}
			}
			if r.Code == -2 {
				return mk("command-terminates", "command did not finish"), nil
			}
			wantWt, _ := s["wt"].(map[string]interface{})
			wtBefore, _ := s["wtBefore"].(map[string]interface{})
			for _, p := range paths {
				got := w.classifyWt(cloneB, p, tree[p])
				wb, _ := wtBefore[p].(string)
				wv, _ := wantWt[p].(string)
				after, _ := os.ReadFile(filepath.Join(cloneB, PathFile(p)))
				if wb == "edited" || wb == "otherptr" || wb == "emptied" || wb == "rawfile" || wb == "content" {
					if string(after) != string(before[p]) {
						return mk("never-clobbers-foreign-content", fmt.Sprintf("%s held %s before `git lfs %s` and was modified (now %s)", p, wb, a, got)), nil
					}
					continue
				}
				if wb == "missing" && wv == "pointer" && got == "missing" {
					continue // either outcome leaves nothing of the user's touched
				}
				if got != wv {
					if wv == "content" {
						return mk("materialises-exact-content", fmt.Sprintf("%s should hold the object's bytes after `git lfs %s` but is %s", p, a, got)), nil
					}
					return mk("work-tree-as-specified", fmt.Sprintf("%s is %s after `git lfs %s`, the specification says %s", p, got, a, wv)), nil
				}
			}
			// the local store: every object the spec lists is present and hash-valid; nothing invalid is stored
			wantStore := toStrings(s["store"])
			for rel, by := range gitenv.ListObjects(gitDirB) {
				if core.Sha(by) != filepath.Base(rel) {
					return mk("stored-objects-are-hash-valid", "local store holds "+rel+" whose bytes do not hash to its name"), nil
				}
			}
			have := map[string]bool{}
			for rel := range gitenv.ListObjects(gitDirB) {
				have[w.Abstract(filepath.Base(rel))] = true
			}
			for _, o := range wantStore {
				if !have[o] {
					return mk("selected-objects-are-local", "object "+o+" should be in local storage after `git lfs "+a+"`"), nil
				}
			}
			if ok, _ := s["ok"].(bool); ok && r.Code != 0 && a != "checkout" {
				return mk("succeeds-when-everything-is-available", "every object is available but the command failed"), nil
			}
		default:
			return nil, fmt.Errorf("unknown step %v", s)
		}
	}
	return nil, nil
}

// treeOfLast reconstructs main's tree at the clone step from the commit steps seen so far.
func treeOfLast(steps []step, upto int) map[string]string {
	trees := map[string]map[string]string{}
	cur := map[string]string{"p1": "none", "p2": "none"}
	trees["main"] = cur
	for _, s := range steps[:upto] {
		switch s.str("a") {
		case "commit":
			b := s.str("b")
			if _, ok := trees[b]; !ok {
				cp := map[string]string{}
				for k, v := range trees["main"] {
					cp[k] = v
				}
				trees[b] = cp
			}
			trees[b][s.str("p")] = s.str("blob")
		case "merge":
			if m, ok := s["tree"].(map[string]interface{}); ok {
				t := map[string]string{}
				for k, v := range m {
					t[k], _ = v.(string)
				}
				trees[s.str("b")] = t
			}
		}
	}
	return trees["main"]
}

func init() {
	registry["C04"] = func(c *core.Ctx, replay string) {
		if replayBehaviourOnly(c, replay, replayFetchCheckout, "model_checking") {
			return
		}
		c.Level = "model_checking"
		lfs := c.BuildLFS()
		cfg, budget := "FetchCheckout_q.cfg", 420
		if !c.Quick() {
			cfg, budget = "FetchCheckout_t.cfg", 3000
		}
		gcfg := writeCfgVariant(c, cfg, "FetchCheckout_gen.cfg", map[string]string{"Emit = FALSE": "Emit = TRUE"})
		r := c.TLC(core.TLCOpts{Module: "FetchCheckout", Cfg: gcfg, Workers: 8, Timeout: 40 * time.Minute, HeapGB: 12})
		c.MustPass(r, "FetchCheckout/"+cfg)
		c.Set("states", r.Distinct)
		c.Set("transitions", r.Generated)
		actionsSeen = map[string]int{}
		byClass := map[string][]*behaviour{}
		total := 0
		if _, err := core.ReadBehaviours(r.OutFile, func(raw []byte) error {
			var st []step
			if err := json.Unmarshal(raw, &st); err != nil {
				return err
			}
			total++
			feat := []string{}
			for _, s := range st {
				actionsSeen[s.str("a")]++
				switch s.str("a") {
				case "perturb":
					feat = append(feat, "pt:"+s.str("kind"))
				case "dropb", "serverloses", "toreference":
					feat = append(feat, s.str("a"))
				case "clone":
					feat = append(feat, fmt.Sprintf("skip=%v", s["skip"]))
				case "commit":
					if s.str("blob") == "raw" || s.str("blob") == "none" {
						feat = append(feat, "b:"+s.str("blob"))
					}
				}
			}
			sort.Strings(feat)
			last := st[len(st)-1]
			k := fmt.Sprintf("%s|%v|inc%d|exc%d|%s", last.str("a"), last["ok"], len(toStrings(last["inc"])), len(toStrings(last["exc"])), strings.Join(feat, ","))
			bb := &behaviour{steps: st, raw: raw, class: k, hash: fnvStr(string(raw), c.Seed)}
			l := append(byClass[k], bb)
			if len(l) > 4 {
				sort.Slice(l, func(i, j int) bool { return l[i].hash < l[j].hash })
				l = l[:2]
			}
			byClass[k] = l
			return nil
		}); err != nil {
			c.Infra("read behaviours: %v", err)
		}
		requireActions(c, "commit", "publish", "clone", "perturb", "dropb", "toreference", "serverloses", "fetch", "pull", "checkout")
		keys := []string{}
		for k := range byClass {
			keys = append(keys, k)
		}
		sort.Slice(keys, func(i, j int) bool { return fnvStr(keys[i], c.Seed) < fnvStr(keys[j], c.Seed) })
		var bs []*behaviour
		// classes in which an object sits in the reference store only or a truncated work-tree file take up to a third of the budget first
		taken := map[string]bool{}
		for _, k := range keys {
			if len(bs) >= budget/3 {
				break
			}
			if strings.Contains(k, "toreference") || strings.Contains(k, "pt:emptied") {
				l := byClass[k]
				sort.Slice(l, func(i, j int) bool { return l[i].hash < l[j].hash })
				bs = append(bs, l[0])
				taken[k] = true
			}
		}
		for _, k := range keys {
			if len(bs) >= budget {
				break
			}
			if taken[k] {
				continue
			}
			l := byClass[k]
			sort.Slice(l, func(i, j int) bool { return l[i].hash < l[j].hash })
			bs = append(bs, l[0])
		}
		c.Set("edges_emitted", total)
		c.Set("behaviour_classes", len(keys))
		c.Logf("replaying %d of %d behaviours (%d classes)", len(bs), total, len(keys))
		runBehaviours(c, lfs, bs, replayFetchCheckout, 14)
		c.Set("traces_validated_against_impl", len(bs))
		c.Set("evaluations", len(bs))
		c.Set("distinct_nontrivial", len(bs))
		c.Set("rule", "behaviours = per-edge output of spec/FetchCheckout.tla for every edge ending in fetch / pull / checkout; one per class (command x verdict x sizes of the include / exclude sets x clone mode x perturbations x dropped objects x server losses x raw/deleted blobs)")
		for i := 0; i < len(bs); i += len(bs)/4 + 1 {
			c.Sample(json.RawMessage(bs[i].raw))
		}
		c.Assume("include / exclude sets are spelled as exact path lists (given by -I/-X or by lfs.fetchinclude/lfs.fetchexclude, optionally padded with a pattern matching nothing); the command is run from the root or an untracked sub-directory, by physical path or through a symlink; a reference store named by B's alternates file holds objects moved out of B's own store; glob patterns, read-only files and `git checkout` driving the filters are not yet in the model; the second clone is made from the bare remote with lfs.url pointing at the fake server")
	}
}
