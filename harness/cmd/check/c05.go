package main

// C05: prune.  spec/Prune.tla (over Repo/Push) computes MustRetain for every
// explored history; behaviours ending in a prune are replayed with the real
// binary and the observed deletions must avoid MustRetain.  Attribute
// spelling and ambient git configuration are concretisation-only dimensions.

import (
	"encoding/json"
	"fmt"
	"os"
	"path/filepath"
	"strings"
	"time"

	"verif/harness/internal/core"
)

var pruneAttrs = []string{
	"filter=lfs diff=lfs merge=lfs -text", // what `git lfs track` writes
	"filter=lfs diff=lfs merge=lfs binary",
	"filter=lfs -diff merge=lfs -text",
	"filter=lfs diff=lfs merge=lfs text",
	"filter=lfs diff=lfs merge=lfs text eol=lf",
	"filter=lfs diff=custom merge=lfs -text",
	"filter=lfs",
}
var pruneAmbient = [][]string{
	nil,
	{"diff.noprefix=true"},
	{"diff.mnemonicprefix=true"},
	{"diff.renames=copies"},
	{"core.quotepath=false"},
	{"log.showsignature=true"},
	{"color.ui=always"},
	{"diff.context=0"},
	{"diff.srcprefix=x/", "diff.dstprefix=y/"},
	{"diff.suppressblankempty=true"},
	{"log.date=relative"},
	{"log.showroot=false"},
}

func pruneDims(idx int) (attr int, amb int) {
	// base case for most; one varied dimension for the rest (deterministic in the behaviour index)
	switch idx % 3 {
	case 1:
		return 1 + (idx/3)%(len(pruneAttrs)-1), 0
	case 2:
		return 0, 1 + (idx/3)%(len(pruneAmbient)-1)
	}
	return 0, 0
}

func replayPrune(c *core.Ctx, lfsBin string, b *behaviour, idx int) (*core.Violation, error) {
	root := filepath.Join(c.Work, fmt.Sprintf("w%d", idx))
	defer os.RemoveAll(root)
	ai, mi := pruneDims(idx % 1000000)
	w, err := NewWorldOpts(root, filepath.Dir(lfsBin), c.Seed, WorldOpts{Attr: pruneAttrs[ai], Ambient: pruneAmbient[mi]})
	if err != nil {
		return nil, err
	}
	defer w.Close()
	fields := map[string]string{"attr": pruneAttrs[ai], "ambient": strings.Join(pruneAmbient[mi], ",")}
	// where the committer's clock and the clock of the machine running prune stand is a
	// concretisation-only dimension: every other behaviour has its commits made at UTC+14 and prune
	// run at UTC-12 (dates are instants; no zone is an argument of the retention rules)
	nearEdge := false
	if len(b.steps) > 0 {
		nearEdge, _ = b.steps[len(b.steps)-1]["nearEdge"].(bool)
	}
	if (b.hash/7)%2 == 1 || nearEdge {
		w.Env.CommitTZ = "+1400"
		w.Env.Extra = append(w.Env.Extra, "TZ=Etc/GMT+12")
		fields["zones"] = "commits+14/prune-12"
	}
	for i, s := range b.steps {
		handled, err := applyRepoStep(w, s)
		if err != nil {
			return nil, fmt.Errorf("step %d %v: %v", i, s, err)
		}
		if handled {
			continue
		}
		switch s.str("a") {
		case "push":
			args := append([]string{"push", "-q", "origin"}, toStrings(s["refs"])...)
			w.logf("git %s", strings.Join(args, " "))
			r := w.Env.RunIn(w.Clone, nil, nil, 120*time.Second, "git", args...)
			if (s.str("verdict") == "ok") != r.OK() {
				return nil, fmt.Errorf("setup push disagrees with the Push model (verdict %s, exit %d): %s", s.str("verdict"), r.Code, r.All())
			}
		case "stage":
			// what happens to the working file after git add is a concretisation-only dimension
			after := []string{"", "edited", "deleted"}[(b.hash/11)%3]
			where := s.str("where")
			if where == "" {
				where = "main"
			}
			if err := w.StageIn(where, s.str("p"), s.str("oid"), after); err != nil {
				return nil, err
			}
		case "stash":
			if err := w.Stash(s.str("p"), s.str("oid"), s.str("kind")); err != nil {
				return nil, err
			}
		case "switch":
			if err := w.Switch(s.str("b")); err != nil {
				return nil, err
			}
		case "serverloses":
			w.ServerDelete(s.str("oid"))
		case "otherremote":
			// refs/remotes/other/<b> as a fetch from a second remote would have left it
			b := s.str("b")
			w.Env.Git(w.Clone, "remote", "add", "other", filepath.Join(w.Root, "other-remote.git"))
			w.logf("git update-ref refs/remotes/other/%s %s", b, b)
			if r := w.Env.Git(w.Clone, "update-ref", "refs/remotes/other/"+b, "refs/heads/"+b); !r.OK() {
				return nil, fmt.Errorf("otherremote: %s", r.All())
			}
		case "worktree":
			if err := w.AddWorktree(s.str("b")); err != nil {
				return nil, err
			}
		case "delbranch":
			w.logf("git branch -D %s", s.str("b"))
			if r := w.Env.Git(w.Clone, "branch", "-D", s.str("b")); !r.OK() {
				return nil, fmt.Errorf("delbranch: %s", r.All())
			}
			delete(w.Br, s.str("b"))
		case "prune":
			before := w.LocalOids()
			if fmt.Sprint(before) != fmt.Sprint(toStrings(s["localBefore"])) {
				return nil, fmt.Errorf("local store before prune is %v, spec says %v", before, toStrings(s["localBefore"]))
			}
			args := []string{"lfs", "prune"}
			switch s.str("flags") {
			case "dry-run":
				args = append(args, "--dry-run")
			case "recent":
				args = append(args, "--recent")
			case "force":
				args = append(args, "--force")
			case "verify-remote":
				args = append(args, "--verify-remote")
			}
			if win := s.num("window"); win > 0 {
				// the window is fetchrecentcommitsdays + pruneoffsetdays (3, the default)
				w.logf("git config lfs.fetchrecentcommitsdays %d", win-3)
				if r := w.Env.Git(w.Clone, "config", "lfs.fetchrecentcommitsdays", fmt.Sprint(win-3)); !r.OK() {
					return nil, fmt.Errorf("config: %s", r.All())
				}
			}
			dir := w.Clone
			if s.str("from") == "linked" {
				dir = w.Linked
			}
			w.logf("(in %s) git %s", filepath.Base(dir), strings.Join(args, " "))
			r := w.Env.RunIn(dir, nil, nil, 120*time.Second, "git", args...)
			after := toSet(w.LocalOids())
			deleted := []string{}
			for _, o := range before {
				if !after[o] {
					deleted = append(deleted, o)
				}
			}
			must := toSet(toStrings(s["mustRetain"]))
			mk := func(assertion, why string) *core.Violation {
				f := map[string]string{"flags": s.str("flags"), "from": s.str("from")}
				for k, v := range fields {
					f[k] = v
				}
				return &core.Violation{Assertion: assertion, Fields: f, Detail: map[string]interface{}{"why": why, "behaviour": json.RawMessage(b.raw),
					"deleted": deleted, "must_retain": toStrings(s["mustRetain"]), "exit": r.Code, "output": core.Tail(r.All(), 1200),
					"attr": fields["attr"], "ambient": fields["ambient"], "commands": w.Log}}
			}
			if r.Code == -2 {
				return mk("prune-terminates", "prune did not finish"), nil
			}
			for _, o := range deleted {
				if must[o] {
					return mk("deleted-disjoint-from-must-retain", "prune deleted "+o+" which the checkout, index, a stash, a recent ref or an unpushed commit still needs"), nil
				}
			}
			if s.str("flags") == "dry-run" && len(deleted) > 0 {
				return mk("dry-run-deletes-nothing", "prune --dry-run removed objects"), nil
			}
			if s.str("flags") == "verify-remote" {
				srv := toSet(toStrings(s["serverHas"]))
				reach := toSet(toStrings(s["reachable"]))
				for _, o := range deleted {
					if reach[o] && !srv[o] {
						return mk("verify-remote-keeps-unverified", "prune --verify-remote removed reachable object "+o+" that the remote does not hold"), nil
					}
				}
			}
			// drift layer (never a violation): does the code delete exactly what the current implementation model predicts?
			if fmt.Sprint(deleted) != fmt.Sprint(toStrings(s["expectDeleted"])) {
				c.AddInt("drift_deleted_set_differs", 1)
			}
		default:
			return nil, fmt.Errorf("unknown step %v", s)
		}
	}
	return nil, nil
}

func init() {
	registry["C05"] = func(c *core.Ctx, replay string) {
		if replayBehaviourOnly(c, replay, replayPrune, "model_checking") {
			return
		}
		c.Level = "model_checking"
		lfs := c.BuildLFS()
		cfg, budget := "Prune_q.cfg", 450
		if !c.Quick() {
			cfg, budget = "Prune_t.cfg", 3000
		}
		gcfg := writeCfgVariant(c, cfg, "Prune_gen.cfg", map[string]string{"Emit = FALSE": "Emit = TRUE", "EmitSel = 0": fmt.Sprintf("EmitSel = %d", c.Seed%3)})
		r := c.TLC(core.TLCOpts{Module: "Prune", Cfg: gcfg, Workers: 10, Timeout: 60 * time.Minute, HeapGB: 14})
		c.MustPass(r, "Prune/"+cfg)
		c.Set("states", r.Distinct)
		c.Set("transitions", r.Generated)
		samplePriority = func(class string) bool { return strings.Contains(class, "sole:") }
		sampleFirst = func(class string) bool {
			return strings.Contains(class, "near-edge") && strings.Contains(class, "sole:recent-commits")
		}
		bs, total, nclasses := sampleBehaviours(c, r.OutFile, "flags", budget)
		sampleFirst = nil
		// the merge family: longer histories with merges and deletion of the merged branch (spec PSpecM)
		mcfg, mbudget := "Prune_merge_q.cfg", 160
		if !c.Quick() {
			mcfg, mbudget = "Prune_merge_t.cfg", 1200
		}
		mg := writeCfgVariant(c, mcfg, "Prune_merge_gen.cfg", map[string]string{"Emit = FALSE": "Emit = TRUE", "EmitSel = 0": fmt.Sprintf("EmitSel = %d", c.Seed%3)})
		rm := c.TLC(core.TLCOpts{Module: "Prune", Cfg: mg, Workers: 8, Timeout: 40 * time.Minute, HeapGB: 12})
		c.MustPass(rm, "Prune/"+mcfg)
		c.Set("merge_family_states", rm.Distinct)
		samplePriority = func(class string) bool {
			return strings.Contains(class, "side-only") && strings.Contains(class, "sole:unpushed")
		}
		mbs, mtotal, mclasses := sampleBehaviours(c, rm.OutFile, "flags", mbudget)
		samplePriority = nil
		c.Set("merge_family_prune_edges_emitted", mtotal)
		c.Set("merge_family_classes", mclasses)
		c.Set("merge_family_replayed", len(mbs))
		bs = append(bs, mbs...)
		requireActions(c, "delbranch", "merge")
		requireActions(c, "commit", "committree", "push", "otherpush", "stage", "stash", "switch", "serverloses", "worktree", "otherremote", "prune")
		c.Set("prune_edges_emitted", total)
		c.Set("behaviour_classes", nclasses)
		if len(bs) < 20 {
			c.Infra("only %d behaviours sampled", len(bs))
		}
		c.Logf("replaying %d of %d prune-edge behaviours (%d classes)", len(bs), total, nclasses)
		runBehaviours(c, lfs, bs, replayPrune, 14)
		c.Set("traces_validated_against_impl", len(bs))
		c.Set("evaluations", len(bs))
		cls := map[string]bool{}
		for _, b := range bs {
			cls[b.class] = true
		}
		c.Set("distinct_nontrivial", len(cls))
		c.Set("attr_spellings", pruneAttrs)
		c.Set("ambient_configs", pruneAmbient)
		c.Set("rule", "behaviours = TLC per-edge output of spec/Prune.tla for every edge ending in a prune with a non-empty local store; replayed: first classes in which some object is retained for one reason alone (each retention rule in isolation), then classes until every (flag, feature) and (feature, feature) pair has been replayed three times, then round-robin over classes (flags x features); each replayed with the default attribute line and git config or with one of them varied (concretisation-only dimensions); distinct_nontrivial = classes replayed")
		for i := 0; i < len(bs); i += len(bs)/4 + 1 {
			c.Sample(json.RawMessage(bs[i].raw))
		}
		c.Assume("commit dates are 0 or 20 days before now, far from the 10-day retention boundary; fetchrecentcommitsdays is 0 (default) or 18 (a 21-day window with the default offset: a 20-day-old commit under a fresh ref lies one day inside it); commits carry UTC+14 and prune runs at UTC-12 in every other behaviour (needs the system tzdata); at most one linked worktree (prune run from either side); at most one remote-tracking ref of a second remote; branch deletion only in the merge family (one path, dates all recent, prune from the main worktree); detached HEAD is not yet in the model")
	}
}
