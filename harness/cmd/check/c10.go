package main

// C10: credentials and redirects.  spec/HttpAuth.tla is model-checked
// (Confined, NoDowngrade, ChainBounded; the transcription of the pinned code
// must violate ChainBounded), its server scripts are played to the real
// lfsapi.Client over four listeners, and the request logs are validated
// against the acceptor spec/HttpAuthTrace.tla.

import (
	"sort"
	"bufio"
	"encoding/json"
	"fmt"
	"os"
	"path/filepath"
	"time"

	"verif/harness/internal/core"
)

type authScriptC struct {
	ID      int                   `json:"id"`
	Mode    string                `json:"mode"`
	Source  string                `json:"source"`
	Form    string                `json:"form"`
	Cache   bool                  `json:"cache"`
	Kind    string                `json:"kind"`
	ActHost string                `json:"acthost"`
	Answers map[string][][]string `json:"answers"`
	// predictions of the implementation model (drift layer only)
	Reqs   [][]string `json:"reqs,omitempty"`
	Helper [][]string `json:"helper,omitempty"`
	Result string     `json:"result,omitempty"`
}

func init() {
	registry["C10"] = func(c *core.Ctx, replay string) {
		c.Level = "model_checking"
		drv := c.BuildDriver()
		cfg := "HttpAuth_q.cfg"
		if !c.Quick() {
			cfg = "HttpAuth_t.cfg"
		}
		gcfg := writeCfgVariant(c, cfg, "HttpAuth_gen.cfg", map[string]string{"Emit = FALSE": "Emit = TRUE"})
		r := c.TLC(core.TLCOpts{Module: "HttpAuth", Cfg: gcfg, Workers: 6, Coverage: true, Timeout: 30 * time.Minute})
		c.MustPass(r, "HttpAuth/"+cfg)
		c.CheckCoverage(r, "Send", "Respond")
		c.Set("states", r.Distinct)
		c.Set("transitions", r.Generated)
		rp := c.TLC(core.TLCOpts{Module: "HttpAuth", Cfg: "HttpAuth_pinned.cfg", Workers: 4, Timeout: 10 * time.Minute})
		if rp.Violated == "" {
			c.Infra("non-vacuity: the transcription of the pinned redirect handling violates nothing")
		}
		c.Set("spec_mutant_violates", rp.Violated)
		seen := map[string]bool{}
		var scripts []*authScriptC
		if _, err := core.ReadBehaviours(r.OutFile, func(raw []byte) error {
			var s authScriptC
			if err := json.Unmarshal(raw, &s); err != nil {
				return err
			}
			b, _ := json.Marshal(s)
			if seen[string(b)] {
				return nil
			}
			seen[string(b)] = true
			scripts = append(scripts, &s)
			return nil
		}); err != nil {
			c.Infra("read scripts: %v", err)
		}
		if len(scripts) < 100 {
			c.Infra("only %d scripts", len(scripts))
		}
		budget := 1500
		if !c.Quick() {
			budget = 20000
		}
		total := len(scripts)
		if len(scripts) > budget {
			// stratified: round-robin over classes (Location form x kind x access mode x source x
			// which identities redirect / ask for credentials), seed-dependent order inside a class
			byClass := map[string][]*authScriptC{}
			for _, s := range scripts {
				hosts := []string{}
				for h := range s.Answers {
					hosts = append(hosts, h)
				}
				sort.Strings(hosts)
				nredir, unauth, cross, toPlain := 0, false, false, false
				for _, h := range hosts {
					for _, a := range s.Answers[h] {
						switch {
						case len(a) > 0 && a[0] == "unauth":
							unauth = true
						case len(a) > 1 && a[0] == "redir":
							nredir++
							cross = cross || a[1] != h
							toPlain = toPlain || a[1] == "plain"
						}
					}
				}
				if nredir > 2 {
					nredir = 2
				}
				pat := fmt.Sprintf("r%d u%v x%v p%v", nredir, unauth, cross, toPlain)
				if nredir == 0 && s.Form != "abs" {
					continue // no redirect: the form does not show
				}
				k := fmt.Sprint(s.Cache) + "|" + s.Form + "|" + s.Kind + "|" + s.ActHost + "|" + s.Mode + "|" + s.Source + "|" + pat
				byClass[k] = append(byClass[k], s)
			}
			keys := []string{}
			for k, l := range byClass {
				keys = append(keys, k)
				sort.Slice(l, func(i, j int) bool {
					bi, _ := json.Marshal(l[i])
					bj, _ := json.Marshal(l[j])
					return fnvStr(string(bi), c.Seed) < fnvStr(string(bj), c.Seed)
				})
			}
			sort.Slice(keys, func(i, j int) bool { return fnvStr(keys[i], c.Seed) < fnvStr(keys[j], c.Seed) })
			var pick []*authScriptC
			for round := 0; len(pick) < budget; round++ {
				added := false
				for _, k := range keys {
					if round < len(byClass[k]) && len(pick) < budget {
						pick = append(pick, byClass[k][round])
						added = true
					}
				}
				if !added {
					break
				}
			}
			scripts = pick
			c.Set("script_classes", len(keys))
		}
		c.Set("scripts_emitted", total)
		for i, s := range scripts {
			s.ID = i + 1
		}
		nproc := 8
		traces := make([]string, nproc)
		core.Parallel(nproc, nproc, func(p int) {
			in := filepath.Join(c.Work, fmt.Sprintf("auth-%d.in", p))
			out := filepath.Join(c.Work, fmt.Sprintf("auth-%d.trace", p))
			f, _ := os.Create(in)
			w := bufio.NewWriter(f)
			enc := json.NewEncoder(w)
			for i := p; i < len(scripts); i += nproc {
				enc.Encode(scripts[i])
			}
			w.Flush()
			f.Close()
			cmd := driverCmd(c, drv, "auth", in, out)
			if b, err := cmd.CombinedOutput(); err != nil {
				c.Infra("auth driver: %v\n%s", err, core.Tail(string(b), 2000))
			}
			traces[p] = out
		})
		merged := filepath.Join(c.Work, "auth-all.trace")
		concatFiles(traces, merged)
		// validate; attribute rejections to scripts and continue with the rest
		byID := map[int]*authScriptC{}
		for _, s := range scripts {
			byID[s.ID] = s
		}
		skip := map[int]bool{}
		validated, events := 0, 0
		for iter := 0; iter < 30; iter++ {
			cur := filepath.Join(c.Work, fmt.Sprintf("auth-v%d.trace", iter))
			events = filterAuthTrace(merged, cur, skip)
			ok, vr := c.ValidateTrace("HttpAuthTrace", "HttpAuthTrace.cfg", cur, false)
			if ok {
				validated = len(scripts) - len(skip)
				break
			}
			rid, line := authLineInfo(cur, vr.Depth)
			if rid == 0 {
				c.Infra("cannot attribute rejection at line %d", vr.Depth)
			}
			skip[rid] = true
			var ev map[string]interface{}
			json.Unmarshal([]byte(line), &ev)
			assertion := "chain-bounded"
			if k, _ := ev["ev"].(string); k != "req" {
				assertion = "helper-approve-reject-only-for-filled-identity"
			} else if a, _ := ev["auth"].(string); a != "none" && a != ev["host"] {
				assertion = "credentials-confined-to-their-host"
			} else if ev["scheme"] == "http" {
				assertion = "no-https-to-http-downgrade"
			}
			redirects := 0
			for _, l := range byID[rid].Answers {
				for _, a := range l {
					if a[0] == "redir" {
						redirects++
					}
				}
			}
			c.Report(core.Violation{Assertion: assertion, Fields: map[string]string{"mode": byID[rid].Mode, "source": byID[rid].Source, "kind": byID[rid].Kind},
				Detail: map[string]interface{}{"script": byID[rid], "rejected_request": ev, "trace_line": vr.Depth, "redirect_answers_in_script": redirects,
					"note": "the acceptor HttpAuthTrace has no action matching this request in the state reached by the run's earlier requests"}})
		}
		// drift layer (never a verdict): does the code send exactly the requests, and make exactly the
		// helper calls, that the implementation model spec/HttpAuth.tla predicts for this script?
		drift := authDrift(merged, byID)
		c.Set("drift_differs_from_implementation_model", len(drift))
		for i, d := range drift {
			if i < 3 {
				c.Sample(d)
			}
		}
		c.Set("traces_validated_against_impl", validated)
		c.Set("trace_events", events)
		c.Set("evaluations", len(scripts))
		c.Set("distinct_nontrivial", len(scripts))
		c.Set("rule", "scripts = per-edge output of spec/HttpAuth.tla for every finished request: answers (200 / 401 / redirect to any of 4 identities) per host up to MaxPerHost, x access mode {none, basic} x credential source {helper, URL userinfo} x spelling of Location {absolute URL, //host:port/path, /path} x in-process credential cache in front of the helper {off, on}; a host whose last scripted answer is a redirect keeps redirecting; distinct scripts")
		for i := 0; i < len(scripts); i += len(scripts)/4 + 1 {
			c.Sample(scripts[i])
		}
		c.Assume("identities: https 127.0.0.1:p1 (api), https 127.0.0.1:p2, https localhost:p3, http 127.0.0.1:p4; TLS verification disabled by configuration; credentials come from a recording helper that names the host it was asked for, or from the URL's userinfo; batch API requests, and storage downloads through a batch action that carries an Authorization header (spelled Authorization / authorization / AUTHORIZATION) for one of three identities; verify and lock requests are not issued; redirect status 307 only")
	}
}

func filterAuthTrace(in, out string, skip map[int]bool) int {
	f, err := os.Open(in)
	if err != nil {
		return 0
	}
	defer f.Close()
	of, _ := os.Create(out)
	defer of.Close()
	w := bufio.NewWriter(of)
	defer w.Flush()
	sc := bufio.NewScanner(f)
	keep := true
	n := 0
	for sc.Scan() {
		var e struct {
			Ev string `json:"ev"`
			ID int    `json:"id"`
		}
		json.Unmarshal(sc.Bytes(), &e)
		if e.Ev == "reset" {
			keep = !skip[e.ID]
		}
		if keep {
			w.Write(sc.Bytes())
			w.WriteByte('\n')
			n++
		}
	}
	return n
}

func authLineInfo(file string, line int) (int, string) {
	f, err := os.Open(file)
	if err != nil {
		return 0, ""
	}
	defer f.Close()
	sc := bufio.NewScanner(f)
	cur, n := 0, 0
	for sc.Scan() {
		n++
		var e struct {
			Ev string `json:"ev"`
			ID int    `json:"id"`
		}
		json.Unmarshal(sc.Bytes(), &e)
		if e.Ev == "reset" {
			cur = e.ID
		}
		if n == line {
			return cur, sc.Text()
		}
	}
	return cur, ""
}

// authDrift compares each run's observed requests / helper calls / outcome with the model's prediction.
func authDrift(trace string, byID map[int]*authScriptC) []map[string]interface{} {
	f, err := os.Open(trace)
	if err != nil {
		return nil
	}
	defer f.Close()
	var out []map[string]interface{}
	var reqs, helper [][]string
	sc := bufio.NewScanner(f)
	for sc.Scan() {
		var e struct {
			Ev, Host, Auth, Result string
			ID                     int
		}
		json.Unmarshal(sc.Bytes(), &e)
		switch e.Ev {
		case "reset":
			reqs, helper = nil, nil
		case "req":
			reqs = append(reqs, []string{e.Host, e.Auth})
		case "fill", "approve", "reject":
			helper = append(helper, []string{e.Ev, e.Host})
		case "done":
			s := byID[e.ID]
			if s == nil {
				continue
			}
			okReal := len(e.Result) > 8 && e.Result[:8] == "status 2"
			a, _ := json.Marshal(reqs)
			b, _ := json.Marshal(s.Reqs)
			h1, _ := json.Marshal(helper)
			h2, _ := json.Marshal(s.Helper)
			if len(s.Reqs) == 0 {
				b = []byte("null")
			}
			if len(s.Helper) == 0 {
				h2 = []byte("null")
			}
			if string(a) != string(b) || string(h1) != string(h2) || okReal != (s.Result == "ok") {
				out = append(out, map[string]interface{}{"script": s, "observed_requests": reqs, "observed_helper_calls": helper, "observed_result": e.Result})
			}
		}
	}
	return out
}
