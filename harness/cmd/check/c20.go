package main

// C20: install / update / uninstall.  spec/Install.tla enumerates initial hook
// and filter.lfs.* classes and operation sequences and gives, per step, the
// classes each hook and key may have afterwards; the harness builds the
// concrete files and configuration, runs the real commands and classifies
// what it finds.

import (
	"encoding/json"
	"fmt"
	"hash/fnv"
	"os"
	"path/filepath"
	"sort"
	"strings"
	"sync"
	"time"

	"verif/harness/internal/core"
	"verif/harness/internal/gitenv"
)

const hookBase = "#!/bin/sh\ncommand -v git-lfs >/dev/null 2>&1 || { printf >&2 \"\\n%s\\n\\n\" \"This repository is configured for Git LFS but 'git-lfs' was not found on your path. If you no longer wish to use Git LFS, remove this hook by deleting the '{{Command}}' file in the hooks directory (set by 'core.hookspath'; usually '.git/hooks').\"; exit 2; }\ngit lfs {{Command}} \"$@\""
const hookOld = "#!/bin/sh\ncommand -v git-lfs >/dev/null 2>&1 || { echo >&2 \"\\nThis repository is configured for Git LFS but 'git-lfs' was not found on your path. If you no longer wish to use Git LFS, remove this hook by deleting '.git/hooks/{{Command}}'.\\n\"; exit 2; }\ngit lfs {{Command}} \"$@\""

func hookBytes(class, h string) ([]byte, bool) {
	cur := strings.ReplaceAll(hookBase, "{{Command}}", h) + "\n"
	switch class {
	case "absent":
		return nil, false
	case "empty":
		return []byte{}, true
	case "current":
		return []byte(cur), true
	case "old":
		return []byte(strings.ReplaceAll(hookOld, "{{Command}}", h) + "\n"), true
	case "indented":
		var sb strings.Builder
		for _, l := range strings.Split(strings.TrimSuffix(cur, "\n"), "\n") {
			sb.WriteString("\t" + l + "\n")
		}
		return []byte(sb.String()), true
	case "user":
		return []byte("#!/bin/sh\necho this is the user's own " + h + " hook\nexit 0\n"), true
	case "useroff":
		return []byte("#!/bin/sh\necho the user's own " + h + " hook, switched off for now with chmod -x\nexit 0\n"), true
	case "userlfs":
		return []byte("#!/bin/sh\necho user step before lfs\ngit lfs " + h + " \"$@\"\necho user step after lfs\n"), true
	case "lfspadtail":
		pad := strings.Repeat("\n", 1100)
		return []byte(cur + pad + "echo user tail that must survive\n"), true
	}
	return nil, false
}

var cfgValues = map[string]map[string]string{
	"clean":    {"cur": "git-lfs clean -- %f", "old": "git-lfs clean %f", "custom": "my-clean-wrapper %f"},
	"smudge":   {"cur": "git-lfs smudge -- %f", "old": "git-lfs smudge %f", "skip": "git-lfs smudge --skip -- %f", "custom": "my-smudge-wrapper %f"},
	"process":  {"cur": "git-lfs filter-process", "old": "git-lfs filter", "skip": "git-lfs filter-process --skip", "custom": "my-filter-process"},
	"required": {"cur": "true", "custom": "false"},
}

type installStep struct {
	A           string                         `json:"a"`
	Cmd         string                         `json:"cmd"` // implicit: the command that installs the hooks on its way
	Sc          string                         `json:"sc"` // the scope the command names: global (no flag) | local | worktree
	Force       bool                           `json:"force"`
	Skip        bool                           `json:"skip"`
	Conflict    bool                           `json:"conflict"`
	CfgAllowed  map[string]map[string][]string `json:"cfgAllowed"` // scope -> key -> classes
	HookAllowed map[string][]string            `json:"hookAllowed"`
}
type installBehaviour struct {
	Hook0 map[string]string            `json:"hook0"`
	Cfg0  map[string]map[string]string `json:"cfg0"` // scope -> key -> class
	Steps []installStep     `json:"steps"`
	raw   []byte
	hash  uint64
}

func inList(l []string, x string) bool {
	for _, y := range l {
		if x == y {
			return true
		}
	}
	return false
}

func replayInstall(c *core.Ctx, lfsBin string, b *installBehaviour, idx int) (*core.Violation, error) {
	root := filepath.Join(c.Work, fmt.Sprintf("i%d", idx))
	defer os.RemoveAll(root)
	env, err := gitenv.New(root, filepath.Dir(lfsBin))
	if err != nil {
		return nil, err
	}
	// a global configuration without any filter.lfs section
	gc := "[user]\n\tname = Verif User\n\temail = verif@example.com\n[init]\n\tdefaultBranch = main\n"
	if err := os.WriteFile(filepath.Join(root, "home", ".gitconfig"), []byte(gc), 0o644); err != nil {
		return nil, err
	}
	repo := filepath.Join(root, "repo")
	if err := env.InitRepo(repo, false); err != nil {
		return nil, err
	}
	hooksDir := filepath.Join(repo, ".git", "hooks")
	ents, _ := os.ReadDir(hooksDir)
	for _, e := range ents {
		os.Remove(filepath.Join(hooksDir, e.Name())) // drop git's *.sample files
	}
	hooks := []string{}
	for h := range b.Hook0 {
		hooks = append(hooks, h)
	}
	sort.Strings(hooks)
	keys := []string{"clean", "smudge", "process", "required"}
	scopes := []string{"global", "local", "worktree"}
	// with the extension on, --worktree names .git/config.worktree and is a scope of its own
	if r := env.Git(repo, "config", "extensions.worktreeConfig", "true"); !r.OK() {
		return nil, fmt.Errorf("config: %s", r.All())
	}
	// "userlink": the hook is a symbolic link to a script the user keeps elsewhere
	scriptsDir := filepath.Join(root, "userscripts")
	os.MkdirAll(scriptsDir, 0o755)
	for _, h := range hooks {
		if b.Hook0[h] == "userlink" {
			by, _ := hookBytes("user", h)
			if err := os.WriteFile(filepath.Join(scriptsDir, h+".sh"), by, 0o755); err != nil {
				return nil, err
			}
			if err := os.Symlink(filepath.Join(scriptsDir, h+".sh"), filepath.Join(hooksDir, h)); err != nil {
				return nil, err
			}
			continue
		}
		if by, ok := hookBytes(b.Hook0[h], h); ok {
			mode := os.FileMode(0o755)
			if b.Hook0[h] == "useroff" {
				mode = 0o644
			}
			if err := os.WriteFile(filepath.Join(hooksDir, h), by, mode); err != nil {
				return nil, err
			}
		}
	}
	// where a scope keeps its custom values is a concretisation-only dimension: written in the scope's own
	// file, or in a file that one includes ([include] path = ...), as people do for machine-local settings
	viaInclude := (b.hash/17)%2 == 1
	for _, sc := range scopes {
		incFile := filepath.Join(root, "included-by-"+sc+".gitconfig")
		usedInclude := false
		for _, k := range keys {
			if v, ok := cfgValues[k][b.Cfg0[sc][k]]; ok {
				if viaInclude && b.Cfg0[sc][k] == "custom" {
					if r := env.Git(repo, "config", "--file", incFile, "filter.lfs."+k, v); !r.OK() {
						return nil, fmt.Errorf("config: %s", r.All())
					}
					usedInclude = true
					continue
				}
				if r := env.Git(repo, "config", "--"+sc, "filter.lfs."+k, v); !r.OK() {
					return nil, fmt.Errorf("config: %s", r.All())
				}
			}
		}
		if usedInclude {
			if r := env.Git(repo, "config", "--"+sc, "include.path", incFile); !r.OK() {
				return nil, fmt.Errorf("config: %s", r.All())
			}
		}
	}
	classifyHook := func(h string) (string, []byte) {
		if st, err := os.Lstat(filepath.Join(hooksDir, h)); err == nil && st.Mode()&os.ModeSymlink != 0 {
			// still the user's link, and the script it names still the user's bytes?
			tgt, _ := os.Readlink(filepath.Join(hooksDir, h))
			by, err := os.ReadFile(filepath.Join(scriptsDir, h+".sh"))
			if want, _ := hookBytes("user", h); err == nil && tgt == filepath.Join(scriptsDir, h+".sh") && string(by) == string(want) {
				return "userlink", by
			}
			return "other", by
		}
		by, err := os.ReadFile(filepath.Join(hooksDir, h))
		if err != nil {
			return "absent", nil
		}
		for _, cl := range []string{"empty", "current", "old", "indented", "user", "userlfs", "lfspadtail", "useroff"} {
			if want, _ := hookBytes(cl, h); string(want) == string(by) {
				if st, err := os.Stat(filepath.Join(hooksDir, h)); cl == "useroff" && err == nil && st.Mode()&0o111 != 0 {
					return "other", by // the user's bytes, but switched on behind the user's back
				}
				return cl, by
			}
		}
		return "other", by
	}
	classifyCfg := func(sc, k string) (string, string) {
		r := env.Git(repo, "config", "--"+sc, "--includes", "--get", "filter.lfs."+k)
		if !r.OK() {
			return "unset", ""
		}
		v := strings.TrimSuffix(r.Stdout, "\n")
		for cl, val := range cfgValues[k] {
			if val == v {
				return cl, v
			}
		}
		return "other", v
	}
	snapshot := func() (map[string]string, map[string]string) {
		hs, cs := map[string]string{}, map[string]string{}
		for _, h := range hooks {
			hs[h], _ = classifyHook(h)
		}
		for _, sc := range scopes {
			for _, k := range keys {
				cs[sc+"/"+k], _ = classifyCfg(sc, k)
			}
		}
		return hs, cs
	}
	prevH, prevC := snapshot()
	var beforePrev map[string]string // hook classes before the previous step
	var cmds []string
	var lastOpKey string
	lastExit := -99
	for i, s := range b.Steps {
		var args []string
		switch s.A {
		case "install":
			args = []string{"install"}
			if s.Force {
				args = append(args, "--force")
			}
			if s.Skip {
				args = append(args, "--skip-smudge")
			}
		case "update":
			args = []string{"update"}
			if s.Force {
				args = append(args, "--force")
			}
		case "uninstall":
			args = []string{"uninstall"}
		case "implicit":
			switch s.Cmd {
			case "track":
				args = []string{"track", "*.zzz"}
			case "untrack":
				args = []string{"untrack", "*.zzz"}
			case "clean":
				args = []string{"clean", "x.zzz"}
			case "fsck":
				args = []string{"fsck", "--pointers"}
			}
		}
		if s.A != "update" && s.A != "implicit" && s.Sc != "global" {
			args = append(args, "--"+s.Sc)
		}
		var stdin []byte
		if s.A == "implicit" && s.Cmd == "clean" {
			stdin = []byte("some content to clean\n")
		}
		r := env.RunIn(repo, nil, stdin, 60*time.Second, "git-lfs", args...)
		cmds = append(cmds, fmt.Sprintf("git lfs %s -> exit %d", strings.Join(args, " "), r.Code))
		curH, curC := snapshot()
		mk := func(assertion, why string) *core.Violation {
			return &core.Violation{Assertion: assertion, Fields: map[string]string{"op": s.A, "force": fmt.Sprint(s.Force), "scope": s.Sc},
				Detail: map[string]interface{}{"why": why, "behaviour": json.RawMessage(b.raw), "step": i, "commands": cmds,
					"hooks_before": prevH, "hooks_after": curH, "config_before": prevC, "config_after": curC, "output": core.Tail(r.All(), 800)}}
		}
		if r.Code == -2 {
			return mk("command-terminates", "command did not finish"), nil
		}
		if !s.Force {
			for _, h := range hooks {
				if (prevH[h] == "user" || prevH[h] == "userlfs" || prevH[h] == "lfspadtail" || prevH[h] == "userlink" || prevH[h] == "useroff") && curH[h] != prevH[h] {
					v := mk("user-hook-preserved", fmt.Sprintf("the user's %s hook (%s) was overwritten or deleted (now %s)", h, prevH[h], curH[h]))
					v.Fields["hook_class"] = prevH[h]
					return v, nil
				}
			}
			for _, sc := range scopes {
				for _, k := range keys {
					if prevC[sc+"/"+k] == "custom" && curC[sc+"/"+k] != "custom" {
						v := mk("custom-filter-setting-preserved", fmt.Sprintf("filter.lfs.%s had a custom value in the %s configuration and is now %s", k, sc, curC[sc+"/"+k]))
						v.Fields["key"] = k
						v.Fields["in_scope"] = sc
						return v, nil
					}
				}
			}
			if s.Conflict && r.Code == 0 {
				return mk("conflict-is-reported", "a user hook / custom setting stood in the way but the command reported success"), nil
			}
		}
		// a command reads and writes only the scope it names
		for _, sc := range scopes {
			if sc == s.Sc && s.A != "update" && s.A != "implicit" {
				continue
			}
			for _, k := range keys {
				if prevC[sc+"/"+k] != curC[sc+"/"+k] {
					v := mk("other-scopes-untouched", fmt.Sprintf("filter.lfs.%s of the %s configuration changed from %s to %s", k, sc, prevC[sc+"/"+k], curC[sc+"/"+k]))
					v.Fields["in_scope"] = sc
					return v, nil
				}
			}
		}
		opKey := fmt.Sprintf("%s/%s/%v/%v", s.A, s.Sc, s.Force, s.Skip)
		// (a failing install applies its configuration keys in map order and stops at the first
		// conflict, so two failing runs may differ; idempotence is asserted for installs that succeed)
		if s.A == "install" && opKey == lastOpKey && r.Code == 0 && lastExit == 0 && (fmt.Sprint(curH) != fmt.Sprint(prevH) || fmt.Sprint(curC) != fmt.Sprint(prevC)) {
			return mk("install-twice-equals-once", "the second identical install changed hooks or configuration"), nil
		}
		// uninstall after a conflict-free install from a state without LFS artefacts restores that state
		if s.A == "uninstall" && i == 1 && b.Steps[0].A == "install" && b.Steps[0].Sc == s.Sc && !b.Steps[0].Conflict && !b.Steps[0].Force {
			clean := true
			for _, h := range hooks {
				if b.Hook0[h] != "absent" {
					clean = false
				}
			}
			for _, sc := range scopes {
				for _, k := range keys {
					if b.Cfg0[sc][k] != "unset" {
						clean = false
					}
				}
			}
			if clean {
				for _, h := range hooks {
					if curH[h] != "absent" {
						return mk("uninstall-restores", "hook "+h+" left behind after install + uninstall"), nil
					}
				}
				for k, v := range curC {
					if v != "unset" {
						return mk("uninstall-restores", "filter.lfs "+k+" left behind after install + uninstall"), nil
					}
				}
			}
		}
		// ... and more generally: a hook that was absent before an install (update, implicit install) is absent
		// again after the uninstall that follows it, whatever else stood in the way of that install
		if s.A == "uninstall" && i > 0 && beforePrev != nil && (b.Steps[i-1].A == "install" || b.Steps[i-1].A == "update" || b.Steps[i-1].A == "implicit") {
			for _, h := range hooks {
				if beforePrev[h] == "absent" && curH[h] != "absent" {
					v := mk("uninstall-restores", fmt.Sprintf("hook %s was absent before `%s`, and after that command and uninstall it is left behind (%s)", h, b.Steps[i-1].A, curH[h]))
					v.Fields["after"] = b.Steps[i-1].A
					return v, nil
				}
			}
		}
		// drift layer: the classes the implementation model predicts
		for _, h := range hooks {
			if !inList(s.HookAllowed[h], curH[h]) {
				c.AddInt("drift_hook_class", 1)
				c.AddInt("drift_hook_class_"+s.A+s.Cmd, 1)
			}
		}
		for _, sc := range scopes {
			for _, k := range keys {
				if !inList(s.CfgAllowed[sc][k], curC[sc+"/"+k]) {
					c.AddInt("drift_cfg_class", 1)
				}
			}
		}
		beforePrev = prevH
		prevH, prevC = curH, curC
		lastOpKey = opKey
		lastExit = r.Code
	}
	return nil, nil
}

func init() {
	registry["C20"] = func(c *core.Ctx, replay string) {
		c.Level = "model_checking"
		lfs := c.BuildLFS()
		cfg, budget := "Install_q.cfg", 2200
		if !c.Quick() {
			cfg, budget = "Install_t.cfg", 20000
		}
		r := c.TLC(core.TLCOpts{Module: "Install", Cfg: cfg, Workers: 8, Timeout: 60 * time.Minute, HeapGB: 12})
		c.MustPass(r, "Install/"+cfg)
		c.Set("states", r.Distinct)
		c.Set("transitions", r.Generated)
		byClass := map[string][]*installBehaviour{}
		total := 0
		if _, err := core.ReadBehaviours(r.OutFile, func(raw []byte) error {
			var b installBehaviour
			if err := json.Unmarshal(raw, &b); err != nil {
				return err
			}
			total++
			b.raw = raw
			f := fnv.New64a()
			fmt.Fprintf(f, "%d|", c.Seed)
			f.Write(raw)
			b.hash = f.Sum64()
			var k []string
			for _, s := range b.Steps {
				k = append(k, fmt.Sprintf("%s%s/%s/%v/%v/%v", s.A, s.Cmd, s.Sc, s.Force, s.Skip, s.Conflict))
			}
			// initial state up to renaming: which classes occur, and for configuration values whether
			// they sit in the scope the first command names or in another one
			hs := []string{}
			for _, v := range b.Hook0 {
				if v != "absent" {
					hs = append(hs, "hook:"+v)
				}
			}
			for sc, m := range b.Cfg0 {
				rel := "other"
				if len(b.Steps) > 0 && b.Steps[0].Sc == sc {
					rel = "named"
				}
				for kk, v := range m {
					if v != "unset" {
						kind := "filter"
						if kk == "required" {
							kind = "required"
						}
						hs = append(hs, rel+"/"+kind+"="+v)
					}
				}
			}
			sort.Strings(hs)
			key := strings.Join(k, ";") + "|" + strings.Join(hs, ",")
			l := append(byClass[key], &b)
			if len(l) > 4 {
				sort.Slice(l, func(i, j int) bool { return l[i].hash < l[j].hash })
				l = l[:2]
			}
			byClass[key] = l
			return nil
		}); err != nil {
			c.Infra("read behaviours: %v", err)
		}
		keys := []string{}
		for k := range byClass {
			keys = append(keys, k)
		}
		sort.Slice(keys, func(i, j int) bool { return fnvStr(keys[i], c.Seed) < fnvStr(keys[j], c.Seed) })
		var bs []*installBehaviour
		for _, k := range keys {
			if len(bs) >= budget {
				break
			}
			l := byClass[k]
			sort.Slice(l, func(i, j int) bool { return l[i].hash < l[j].hash })
			bs = append(bs, l[0])
		}
		if len(bs) < 100 {
			c.Infra("only %d behaviours", len(bs))
		}
		c.Set("behaviours_emitted", total)
		c.Set("behaviour_classes", len(byClass))
		c.Logf("replaying %d of %d behaviours (%d classes)", len(bs), total, len(byClass))
		var mu sync.Mutex
		var infra error
		core.Parallel(len(bs), 14, func(i int) {
			v, err := replayInstall(c, lfs, bs[i], i)
			if err != nil {
				mu.Lock()
				if infra == nil {
					infra = fmt.Errorf("behaviour %s: %v", bs[i].raw, err)
				}
				mu.Unlock()
				return
			}
			if v != nil {
				c.Report(*v)
			}
		})
		if infra != nil {
			c.Infra("%v", infra)
		}
		c.Set("traces_validated_against_impl", len(bs))
		c.Set("evaluations", len(bs))
		c.Set("distinct_nontrivial", len(bs))
		c.Set("rule", "behaviours = per-edge output of spec/Install.tla: initial states with at most MaxVaried hooks/keys in a non-default class, sequences of <= MaxOps of install [--local|--worktree] [--force] [--skip-smudge] / update [--force] / uninstall [--local|--worktree]; one behaviour per class (operation sequence with flags and conflict bits x initial classes)")
		for i := 0; i < len(bs); i += len(bs)/4 + 1 {
			c.Sample(json.RawMessage(bs[i].raw))
		}
		c.Assume("scopes = the user's global configuration (private HOME), --local and --worktree (extensions.worktreeConfig on) plus the hooks of one repository; --system/--file scopes, linked worktrees, custom values sit in the scope's own file or in a file it includes; core.hooksPath, symlinked or non-executable hooks and the implicit installation by other commands are not yet modelled; an empty hook file is treated like an absent one")
	}
}
