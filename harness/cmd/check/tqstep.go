package main

// Transition-level binding of the batch goroutine: spec/BatchStep.tla runs the
// batch process of TransferQueue.tla from every start state (any batch, any
// retry counts already spent) against every answer; each finished run is one
// call of the real enqueueAndCollectRetriesFor through tq.VerifBatchStep
// (build tag verif), with the same scripted server and adapter as the
// whole-queue replays.  The verdict assertions are those of C06 / C15
// restricted to one step; the model's exact prediction is the drift layer.

import (
	"bufio"
	"encoding/json"
	"fmt"
	"os"
	"path/filepath"
	"sort"
	"strings"
	"time"

	"verif/harness/internal/core"
)

type stepRec struct {
	Batch       []string            `json:"batch"`
	RC0         map[string]int      `json:"rc0"`
	Resp        map[string][]string `json:"resp"`
	Ad          map[string][]string `json:"ad"`
	BCall       map[string][]string `json:"bcall"`
	Next        []string            `json:"next"`
	RC          map[string]int      `json:"rc"`
	Failed      []string            `json:"failed"`
	Terminal    []string            `json:"terminal"`
	Wg          int                 `json:"wg"`
	Fatal       bool                `json:"fatal"`
	Transferred []string            `json:"transferred"`
}

type stepObs struct {
	Next     []string       `json:"next"`
	RC       map[string]int `json:"rc"`
	Wait     int            `json:"wait"`
	Returned bool           `json:"returned"`
	Errors   int            `json:"errors"`
	Events   [][2]string    `json:"events"`
	Consumed map[string]int `json:"consumed"`
	Hung     bool           `json:"hung"`
}

var stepTerminalOK = map[string]bool{"obj.noaction": true, "result.ok": true}
var stepTerminalFail = map[string]bool{"obj.error": true, "obj.relerr": true, "obj.unknown": true, "batch.objfail": true, "obj.unanswered": true, "result.fail": true}

// runBatchSteps returns the number of steps replayed.  own decides which assertions this property reports.
func runBatchSteps(c *core.Ctx, drv string, own string) int {
	cfg, maxret, bs := "BatchStep_q.cfg", 2, 2
	if !c.Quick() {
		cfg, maxret, bs = "BatchStep_t.cfg", 2, 3
	}
	gcfg := writeCfgVariant(c, cfg, "BatchStep_gen.cfg", map[string]string{"Emit = FALSE": "Emit = TRUE"})
	r := c.TLC(core.TLCOpts{Module: "BatchStep", Cfg: gcfg, Workers: 8, Timeout: 30 * time.Minute, HeapGB: 12})
	c.MustPass(r, "BatchStep/"+cfg)
	var recs []*stepRec
	seen := map[string]bool{}
	if _, err := core.ReadBehaviours(r.OutFile, func(raw []byte) error {
		if seen[string(raw)] {
			return nil
		}
		seen[string(raw)] = true
		var s stepRec
		if err := json.Unmarshal(raw, &s); err != nil {
			return err
		}
		recs = append(recs, &s)
		return nil
	}); err != nil {
		c.Infra("read batch steps: %v", err)
	}
	if len(recs) < 100 {
		c.Infra("only %d batch steps generated", len(recs))
	}
	// vacuity: the start states must include a failing batch call over objects of which one has spent
	// its retries and another has not
	mixed := 0
	for _, s := range recs {
		exhausted, fresh, failed := false, false, false
		for _, o := range s.Batch {
			if s.RC0[o] >= maxret {
				exhausted = true
			} else {
				fresh = true
			}
		}
		for _, l := range s.BCall {
			for _, k := range l {
				if k == "retriable" || k == "later" {
					failed = true
				}
			}
		}
		if exhausted && fresh && failed {
			mixed++
		}
	}
	if mixed == 0 {
		c.Infra("vacuity: no generated step has a retriable batch failure over objects with different retry budgets left")
	}
	budget := 6000
	if !c.Quick() {
		budget = 60000
	}
	sort.Slice(recs, func(i, j int) bool {
		a, _ := json.Marshal(recs[i])
		b, _ := json.Marshal(recs[j])
		return fnvStr(string(a), c.Seed) < fnvStr(string(b), c.Seed)
	})
	if len(recs) > budget {
		recs = recs[:budget]
	}
	nproc := 12
	obs := make([]*stepObs, len(recs))
	core.Parallel(nproc, nproc, func(p int) {
		dir := filepath.Join(c.Work, fmt.Sprintf("step-%d", p))
		os.MkdirAll(dir, 0o755)
		in := filepath.Join(dir, "in")
		f, _ := os.Create(in)
		w := bufio.NewWriter(f)
		enc := json.NewEncoder(w)
		for i := p; i < len(recs); i += nproc {
			s := recs[i]
			enc.Encode(map[string]interface{}{"id": i + 1, "adds": s.Batch, "step": true, "steprc": s.RC0, "resp": s.Resp, "ad": s.Ad, "bcall": s.BCall,
				"bs": bs, "maxret": maxret, "conc": 1, "watch": 1})
		}
		w.Flush()
		f.Close()
		out := filepath.Join(dir, "results")
		if b, err := driverCmd(c, drv, "tq", in, filepath.Join(dir, "trace"), filepath.Join(dir, "api"), out).CombinedOutput(); err != nil {
			c.Infra("step driver: %v\n%s", err, core.Tail(string(b), 2000))
		}
		of, _ := os.Open(out)
		defer of.Close()
		sc := bufio.NewScanner(of)
		sc.Buffer(make([]byte, 1<<20), 1<<26)
		for sc.Scan() {
			var rr struct {
				ID   int      `json:"id"`
				Step *stepObs `json:"step"`
			}
			if json.Unmarshal(sc.Bytes(), &rr) == nil && rr.Step != nil && rr.ID >= 1 && rr.ID <= len(obs) {
				obs[rr.ID-1] = rr.Step
			}
		}
	})
	drift := 0
	for i, s := range recs {
		o := obs[i]
		if o == nil {
			c.Infra("no result for batch step %d (%v)", i, s.Batch)
		}
		report := func(prop, assertion, why string) {
			if prop != own {
				return
			}
			c.Report(core.Violation{Assertion: "step:" + assertion, Fields: map[string]string{"batch_size": fmt.Sprint(len(s.Batch)), "layer": "batch-step"},
				Detail: map[string]interface{}{"why": why, "step": s, "observed": o}})
		}
		if o.Hung {
			report("C06", "wait-returns", "after the step every object the step returned for another round was released, and still Wait did not return: the step left the queue's wait counter too high (some object of the batch was neither finished, failed nor returned)")
			continue
		}
		next := toSet(o.Next)
		termOK, termFail := map[string]int{}, map[string]int{}
		retried := map[string]int{}
		for _, e := range o.Events {
			if stepTerminalOK[e[0]] {
				termOK[e[1]]++
			}
			if stepTerminalFail[e[0]] {
				termFail[e[1]]++
			}
			if e[0] == "retry" {
				retried[e[1]]++
			}
		}
		bad := false
		anyFail := false
		for _, x := range s.Batch {
			n := termOK[x] + termFail[x]
			if termFail[x] > 0 {
				anyFail = true
			}
			if (next[x] && n != 0) || (!next[x] && n != 1) {
				report("C06", "each-object-accounted-once", fmt.Sprintf("object %s: handed back for another round=%v, terminal outcomes=%d", x, next[x], n))
				bad = true
			}
			if next[x] && o.RC[x] > maxret {
				report("C15", "retry-within-budget", fmt.Sprintf("object %s handed back with %d retries counted, budget %d", x, o.RC[x], maxret))
				bad = true
			}
			if retried[x] > 0 && s.RC0[x] >= maxret {
				report("C15", "retry-within-budget", fmt.Sprintf("object %s had spent its %d retries and was retried again", x, maxret))
				bad = true
			}
			if o.Consumed[x] > 0 && termOK[x] == 0 {
				report("C06", "delivered-only-transferred", "object "+x+" was delivered to the watcher without a successful transfer")
				bad = true
			}
		}
		if !s.Fatal && o.Wait != len(o.Next) {
			report("C06", "wait-counter-is-outstanding", fmt.Sprintf("wait counter %d after the step, %d objects handed back", o.Wait, len(o.Next)))
			bad = true
		}
		if anyFail && o.Errors == 0 {
			report("C06", "failure-is-reported", "an object of the batch failed for good but the queue reports no error")
			bad = true
		}
		if bad {
			continue
		}
		// drift layer: the model's exact prediction
		sn := append([]string{}, s.Next...)
		on := append([]string{}, o.Next...)
		sort.Strings(sn)
		sort.Strings(on)
		failed := []string{}
		for x := range termFail {
			failed = append(failed, x)
		}
		sort.Strings(failed)
		sf := append([]string{}, s.Failed...)
		sort.Strings(sf)
		same := strings.Join(sn, ",") == strings.Join(on, ",") && strings.Join(sf, ",") == strings.Join(failed, ",") && (s.Fatal || s.Wg == o.Wait)
		for _, x := range s.Batch {
			if s.RC[x] != o.RC[x] {
				same = false
			}
		}
		if !same {
			drift++
			if drift <= 3 {
				c.Sample(map[string]interface{}{"batch_step_drift": s, "observed": o})
			}
		}
	}
	c.Set("batch_steps_replayed", len(recs))
	c.Set("batch_steps_states", r.Distinct)
	c.Set("batch_steps_with_mixed_retry_budgets_and_failing_call", mixed)
	c.Set("batch_steps_drift_differs_from_implementation_model", drift)
	c.Set("batch_steps_rule", "steps = every finished run of spec/BatchStep.tla (the batch process of TransferQueue.tla from any batch of distinct objects with any retry counts already spent, against every batch / per-object / adapter answer), each replayed as one call of enqueueAndCollectRetriesFor via tq.VerifBatchStep")
	return len(recs)
}
