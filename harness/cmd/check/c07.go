package main

// C07: pointer text — spec/Pointer.tla enumerates abstract documents with the
// verdict the written specification gives them; the orchestrator renders each
// document to bytes, the driver decodes it with lfs.DecodePointer, and the
// result is compared with the specification's verdict.

import (
	"bufio"
	"encoding/base64"
	"encoding/json"
	"fmt"
	"math/rand"
	"os"
	"path/filepath"
	"regexp"
	"sort"
	"strconv"
	"strings"
	"time"

	"verif/harness/internal/core"
)

type ptrLine struct {
	Key  string `json:"key"`
	Prio int    `json:"prio"`
	Name string `json:"name"`
	Val  string `json:"val"`
	Term string `json:"term"`
	Pad  string `json:"pad"`
}
type ptrDoc struct {
	Doc       []ptrLine `json:"doc"`
	Trail     string    `json:"trail"`
	Verdict   string    `json:"verdict"`
	Canonical bool      `json:"canonical"`
	Denotes   struct {
		Oids  []string        `json:"oids"`
		Sizes []string        `json:"sizes"`
		Exts  [][]interface{} `json:"exts"`
	} `json:"denotes"`
	Zero  bool `json:"zero"`
	Edits int  `json:"edits"`
}

const (
	ptrLatest = "https://git-lfs.github.com/spec/v1"
	hexOK1    = "4d7a214614ab2935c943f9e0ff69d22eadbb8f32b1258daaa5e2ca24d17e2393"
	hexOK2    = "0123456789abcdef0123456789abcdef0123456789abcdef0123456789abcdef"
)

var versionText = map[string]string{"latest": ptrLatest, "alias_hawser": "https://hawser.github.com/spec/v1",
	"alias_media": "http://git-media.io/v/2", "unknown": "https://git-lfs.github.com/spec/v2",
	"latest_upper": "HTTPS://GIT-LFS.GITHUB.COM/SPEC/V1", "empty": ""}
var oidText = map[string]string{"ok1": "sha256:" + hexOK1, "ok2": "sha256:" + hexOK2, "upper": "sha256:" + strings.ToUpper(hexOK1),
	"short63": "sha256:" + hexOK1[:63], "long65": "sha256:" + hexOK1 + "a", "nonhex": "sha256:" + "g" + hexOK1[1:],
	"md5type": "md5:" + hexOK1, "nocolon": "sha256" + hexOK1, "empty": ""}
var sizeText = map[string]string{"small": "12345", "max": "9223372036854775807", "zero": "0", "plus": "+5", "lead0": "007",
	"negzero": "-0", "neg": "-1", "nonnum": "12a", "empty": "", "overflow": "9223372036854775808", "float": "1.5"}
var sizeVal = map[string]int64{"small": 12345, "max": 9223372036854775807, "zero": 0, "plus": 5, "lead0": 7, "negzero": 0}

func renderLine(l ptrLine) string {
	var key, val string
	switch l.Key {
	case "version":
		key, val = "version", versionText[l.Val]
	case "oid":
		key, val = "oid", oidText[l.Val]
	case "size":
		key, val = "size", sizeText[l.Val]
	case "ext":
		key, val = fmt.Sprintf("ext-%d-%s", l.Prio, l.Name), oidText[l.Val]
	case "other":
		key, val = "other", "x"
	case "Oid":
		key, val = "Oid", oidText[l.Val]
	case "nospace":
		return "nospace" + termText(l.Term)
	case "blank":
		return termText(l.Term)
	}
	sep := " "
	switch l.Pad {
	case "dblsp":
		sep = "  "
	case "tab":
		sep = "\t"
	}
	s := key + sep + val
	if l.Pad == "lead" {
		s = " " + s
	}
	if l.Pad == "trail" {
		s += " "
	}
	return s + termText(l.Term)
}
func termText(t string) string {
	switch t {
	case "CRLF":
		return "\r\n"
	case "NONE":
		return ""
	}
	return "\n"
}
func renderDoc(d *ptrDoc) []byte {
	var sb strings.Builder
	for _, l := range d.Doc {
		sb.WriteString(renderLine(l))
	}
	switch d.Trail {
	case "newline":
		sb.WriteString("\n")
	case "spaces":
		sb.WriteString("   ")
	case "junk":
		sb.WriteString("junk")
	}
	return []byte(sb.String())
}

type ptrRes struct {
	ID        int    `json:"id"`
	Accepted  bool   `json:"accepted"`
	Err       string `json:"err"`
	Oid       string `json:"oid"`
	OidType   string `json:"oidtype"`
	Version   string `json:"version"`
	Size      int64  `json:"size"`
	Exts      []struct {
		P int    `json:"p"`
		N string `json:"n"`
		O string `json:"o"`
		T string `json:"t"`
	} `json:"exts"`
	Canonical bool   `json:"canonical"`
	Encoded   string `json:"encoded_b64"`
	Reenc     bool   `json:"reencode_roundtrip"`
	Panic     string `json:"panic"`
}

var oidRe = regexp.MustCompile(`\A[0-9a-f]{64}\z`)

// specCanonical is the canonical encoding per docs/spec.md, written from the
// document (version first, remaining keys sorted, one LF-terminated line each).
func specCanonical(r *ptrRes) string {
	var sb strings.Builder
	sb.WriteString("version " + ptrLatest + "\n")
	for _, e := range r.Exts {
		fmt.Fprintf(&sb, "ext-%d-%s sha256:%s\n", e.P, e.N, e.O)
	}
	fmt.Fprintf(&sb, "oid sha256:%s\nsize %d\n", r.Oid, r.Size)
	return sb.String()
}

// wellFormed checks the decoder's postcondition of the property on what it returned.
func wellFormed(r *ptrRes) string {
	if !oidRe.MatchString(r.Oid) {
		return "oid is not 64 lower-case hex digits"
	}
	if r.Size < 0 {
		return "negative size"
	}
	for i, e := range r.Exts {
		if e.P < 0 || e.P > 9 {
			return "extension priority outside 0..9"
		}
		if i > 0 && r.Exts[i-1].P >= e.P {
			return "extension priorities not unique and ascending"
		}
		if !oidRe.MatchString(e.O) {
			return "extension oid is not 64 lower-case hex digits"
		}
	}
	return ""
}

func runPointerDriver(c *core.Ctx, drv string, inputs [][]byte, tag string) []ptrRes {
	in := filepath.Join(c.Work, tag+".in")
	out := filepath.Join(c.Work, tag+".out")
	f, _ := os.Create(in)
	w := bufio.NewWriter(f)
	enc := json.NewEncoder(w)
	for i, b := range inputs {
		enc.Encode(map[string]interface{}{"id": i, "b64": base64.StdEncoding.EncodeToString(b)})
	}
	w.Flush()
	f.Close()
	cmd := driverCmd(c, drv, "pointer", in, out)
	if b, err := cmd.CombinedOutput(); err != nil {
		c.Infra("pointer driver: %v\n%s", err, b)
	}
	res := make([]ptrRes, len(inputs))
	of, err := os.Open(out)
	if err != nil {
		c.Infra("pointer results: %v", err)
	}
	defer of.Close()
	sc := bufio.NewScanner(of)
	sc.Buffer(make([]byte, 1<<20), 1<<24)
	n := 0
	for sc.Scan() {
		var r ptrRes
		if json.Unmarshal(sc.Bytes(), &r) == nil && r.ID < len(res) {
			res[r.ID] = r
			n++
		}
	}
	if n != len(inputs) {
		c.Infra("pointer driver answered %d of %d cases", n, len(inputs))
	}
	for i := range res {
		for k := range res[i].Exts {
			b, _ := base64.StdEncoding.DecodeString(res[i].Exts[k].N)
			res[i].Exts[k].N = string(b)
		}
	}
	return res
}

func init() {
	registry["C07"] = func(c *core.Ctx, replay string) {
		c.Level = "exploration"
		drv := c.BuildDriver()
		cfg := "Pointer_q.cfg"
		if !c.Quick() {
			cfg = "Pointer_t.cfg"
		}
		r := c.TLC(core.TLCOpts{Module: "Pointer", Cfg: cfg, Workers: 6, Timeout: 30 * time.Minute, HeapGB: 8})
		c.MustPass(r, "Pointer/"+cfg)
		c.Set("states", r.Distinct)
		c.Set("transitions", r.Generated)
		seen := map[string]bool{}
		var docs []*ptrDoc
		var raws []string
		n, err := core.ReadBehaviours(r.OutFile, func(raw []byte) error {
			k := string(raw)
			if seen[k] {
				return nil
			}
			seen[k] = true
			var d ptrDoc
			if err := json.Unmarshal(raw, &d); err != nil {
				return err
			}
			docs = append(docs, &d)
			raws = append(raws, k)
			return nil
		})
		if err != nil {
			c.Infra("read docs: %v", err)
		}
		if int64(len(docs)) != r.Distinct {
			c.Infra("emitted %d distinct documents (of %d lines) but TLC reports %d distinct states", len(docs), n, r.Distinct)
		}
		inputs := make([][]byte, len(docs))
		verdicts := map[string]int{}
		for i, d := range docs {
			inputs[i] = renderDoc(d)
			verdicts[d.Verdict]++
		}
		if verdicts["accept"] == 0 || verdicts["reject"] == 0 || verdicts["either"] == 0 {
			c.Infra("vacuity: verdict classes %v", verdicts)
		}
		c.Set("spec_verdicts", verdicts)
		res := runPointerDriver(c, drv, inputs, "spec")
		distinctBytes := map[string]bool{}
		for i, d := range docs {
			rr := &res[i]
			distinctBytes[string(inputs[i])] = true
			report := func(assertion, msg string) {
				c.Report(core.Violation{Assertion: assertion, Fields: map[string]string{"verdict": d.Verdict},
					Detail: map[string]interface{}{"why": msg, "input": string(inputs[i]), "input_b64": base64.StdEncoding.EncodeToString(inputs[i]),
						"spec": json.RawMessage(raws[i]), "observed": rr}})
			}
			if rr.Panic != "" {
				report("decoder-never-panics", rr.Panic)
				continue
			}
			switch d.Verdict {
			case "empty":
				// zero bytes are the pointer of the empty file
				if !rr.Accepted || rr.Size != 0 {
					report("empty-input-is-the-empty-pointer", fmt.Sprintf("empty input: accepted=%v size=%d err=%s", rr.Accepted, rr.Size, rr.Err))
				}
				continue
			case "accept":
				if !rr.Accepted {
					report("canonical-accepted", "canonical encoding of a valid pointer was rejected: "+rr.Err)
					continue
				}
			case "reject":
				if rr.Accepted {
					report("must-reject", "document with no well-formed reading was accepted")
					continue
				}
			}
			if !rr.Accepted {
				continue
			}
			if msg := wellFormed(rr); msg != "" {
				report("accepted-is-wellformed", msg)
				continue
			}
			// the returned pointer is one the document denotes
			okOid := false
			for _, o := range d.Denotes.Oids {
				if oidText[o] == "sha256:"+rr.Oid {
					okOid = true
				}
			}
			okSize := false
			for _, s := range d.Denotes.Sizes {
				if v, ok := sizeVal[s]; ok && v == rr.Size {
					okSize = true
				}
			}
			if !okOid || !okSize {
				report("decoded-equals-denoted", fmt.Sprintf("decoded oid/size (%s, %d) is not what the document says", rr.Oid, rr.Size))
				continue
			}
			for _, e := range rr.Exts {
				found := false
				for _, de := range d.Denotes.Exts {
					if len(de) == 3 && int(de[0].(float64)) == e.P && de[1].(string) == e.N && oidText[de[2].(string)] == "sha256:"+e.O {
						found = true
					}
				}
				if !found {
					report("decoded-equals-denoted", fmt.Sprintf("decoded extension %v is not in the document", e))
				}
			}
			if rr.Size > 0 {
				want := string(inputs[i]) == specCanonical(rr)
				if rr.Canonical != want {
					report("canonical-flag-exact", fmt.Sprintf("canonical flag %v but input %s the canonical encoding of the decoded pointer", rr.Canonical, map[bool]string{true: "is", false: "is not"}[want]))
				}
				if want != d.Canonical {
					// two different token documents can render to the same bytes (e.g. a last line
					// without terminator followed by a trailing newline); the byte-level
					// comparison above is the one that counts
					c.AddInt("render_collisions", 1)
				}
				enc, _ := base64.StdEncoding.DecodeString(rr.Encoded)
				if string(enc) != specCanonical(rr) {
					report("encoder-emits-canonical", "Encoded() differs from the canonical form of docs/spec.md")
				}
				if !rr.Reenc {
					report("encode-decode-roundtrip", "Decode(Encode(p)) != p or not flagged canonical")
				}
			}
		}

		// totality on unstructured input (outside TLC): seeded random bytes and byte-level mutations
		rng := rand.New(rand.NewSource(c.Seed))
		nr := 4000
		if !c.Quick() {
			nr = 60000
		}
		rin := make([][]byte, nr)
		base := []byte("version " + ptrLatest + "\next-0-foo sha256:" + hexOK2 + "\noid sha256:" + hexOK1 + "\nsize 12345\n")
		for i := range rin {
			switch i % 3 {
			case 0:
				b := make([]byte, rng.Intn(2048))
				rng.Read(b)
				rin[i] = b
			case 1:
				b := append([]byte{}, base...)
				for k := 0; k < 1+rng.Intn(3); k++ {
					p := rng.Intn(len(b))
					switch rng.Intn(4) {
					case 0:
						b[p] = byte(rng.Intn(256))
					case 1:
						b = append(b[:p], b[p+1:]...)
					case 2:
						b = append(b[:p], append([]byte{byte(rng.Intn(128))}, b[p:]...)...)
					case 3:
						b[p] ^= 0x20
					}
				}
				rin[i] = b
			case 2:
				alphabet := []string{"version ", ptrLatest, "\n", "oid ", "sha256:", hexOK1, "size ", "1", "-", " ", "\r", "ext-1-a ", "ext-1-b ", "\x00", "9223372036854775808", "git-lfs", "0"}
				var sb strings.Builder
				for k := 0; k < 1+rng.Intn(10); k++ {
					sb.WriteString(alphabet[rng.Intn(len(alphabet))])
				}
				rin[i] = []byte(sb.String())
			}
		}
		rres := runPointerDriver(c, drv, rin, "rand")
		acceptedRand := 0
		for i := range rres {
			rr := &rres[i]
			report := func(assertion, msg string) {
				c.Report(core.Violation{Assertion: assertion, Fields: map[string]string{"verdict": "random"},
					Detail: map[string]interface{}{"why": msg, "input_b64": base64.StdEncoding.EncodeToString(rin[i]), "observed": rr}})
			}
			if rr.Panic != "" {
				report("decoder-never-panics", rr.Panic)
				continue
			}
			if !rr.Accepted || len(rin[i]) == 0 {
				continue
			}
			acceptedRand++
			if msg := wellFormed(rr); msg != "" {
				report("accepted-is-wellformed", msg)
				continue
			}
			if rr.Size > 0 && len(rin[i]) < 1024 {
				if want := string(rin[i]) == specCanonical(rr); want != rr.Canonical {
					report("canonical-flag-exact", "canonical flag disagrees with byte equality to the canonical encoding")
				}
			}
		}
		c.Set("random_inputs", nr)
		c.Set("random_inputs_accepted", acceptedRand)
		c.Set("evaluations", len(docs)+nr)
		c.Set("distinct_nontrivial", len(distinctBytes))
		c.Set("exhaustive", true)
		c.Set("rule", "documents = all token sequences reachable from the canonical encoding of a base pointer by <= MaxEdits edit operators of spec/Pointer.tla (TLC enumerates them completely); distinct_nontrivial = distinct rendered byte strings; plus seeded random/mutated byte strings for totality")
		idx := []int{}
		for i := range docs {
			idx = append(idx, i)
		}
		sort.Slice(idx, func(a, b int) bool { return len(inputs[idx[a]]) < len(inputs[idx[b]]) })
		for k := 0; k < len(idx); k += len(idx)/5 + 1 {
			c.Sample(map[string]interface{}{"bytes": strconv.Quote(string(inputs[idx[k]])), "spec_verdict": docs[idx[k]].Verdict, "accepted": res[idx[k]].Accepted})
		}
		c.Assume("oracle = TLA+ transcription of docs/spec.md (spec/Pointer.tla); value classes are rendered to concrete strings by the orchestrator; Encoded() of the code is only compared against the spec's canonical form")
	}
}
