package main

// C02: downloads.  spec/Download.tla transcribes the basic download adapter and
// the queue's retry; TLC enumerates every server script up to MaxReq requests
// x initial .part class and checks OkMeansValid / FailLeavesNoFinal on the
// model; the scripts are played to the real transfer queue + adapter by the
// library driver and what is left on disk is compared.

import (
	"verif/harness/internal/gitenv"
	"sync"
	"bytes"
	"bufio"
	"encoding/json"
	"fmt"
	"os"
	"path/filepath"
	"sort"
	"strings"
	"time"

	"verif/harness/internal/core"
)

type dlAnswerC struct {
	Status int    `json:"status"`
	Body   string `json:"body"`
	Range  string `json:"range"`
	Cut    int    `json:"cut"`
}
type dlSpec struct {
	Part         string      `json:"part"`
	Script       []dlAnswerC `json:"script"`
	Final0       string      `json:"final0"`
	Result       string      `json:"result"`
	Requests     []int       `json:"requests"`
	FinalValid   bool        `json:"finalValid"`
	PartLenAfter int         `json:"partLenAfter"`
	hash         uint64
}
type dlResC struct {
	ID         int      `json:"id"`
	Result     string   `json:"result"`
	Final      string   `json:"final"`
	FinalLen   int      `json:"final_len"`
	PartLen    int      `json:"part_len"`
	Leftovers  []string `json:"leftovers"`
	Ranges     []int    `json:"ranges"`
	Errors     []string `json:"errors"`
	StrayFiles []string `json:"stray_files"`
}

func init() {
	registry["C02"] = func(c *core.Ctx, replay string) {
		c.Level = "model_checking"
		drv := c.BuildDriver()
		cfg, budget, maxreq := "Download_q.cfg", 1400, 2
		if !c.Quick() {
			cfg, budget, maxreq = "Download_t.cfg", 12000, 3
		}
		gcfg := writeCfgVariant(c, cfg, "Download_gen.cfg", map[string]string{"Emit = FALSE": "Emit = TRUE"})
		r := c.TLC(core.TLCOpts{Module: "Download", Cfg: gcfg, Workers: 8, Coverage: c.Quick(), Timeout: 40 * time.Minute, HeapGB: 12})
		c.MustPass(r, "Download/"+cfg)
		if c.Quick() {
			c.CheckCoverage(r, "Adopt", "Request", "Respond", "GiveUp")
		}
		c.Set("states", r.Distinct)
		c.Set("transitions", r.Generated)
		byClass := map[string][]*dlSpec{}
		total := 0
		if _, err := core.ReadBehaviours(r.OutFile, func(raw []byte) error {
			var s dlSpec
			if err := json.Unmarshal(raw, &s); err != nil {
				return err
			}
			total++
			s.hash = fnvStr(string(raw), c.Seed)
			var k []string
			for _, a := range s.Script {
				cut := ""
				if a.Cut > 0 {
					cut = "cut"
				}
				k = append(k, fmt.Sprintf("%d%s/%s", a.Status, cut, a.Range))
			}
			key := s.Part + "|" + s.Final0 + "|" + s.Result + "|" + strings.Join(k, ",")
			l := append(byClass[key], &s)
			if len(l) > 6 {
				sort.Slice(l, func(i, j int) bool { return l[i].hash < l[j].hash })
				l = l[:3]
			}
			byClass[key] = l
			return nil
		}); err != nil {
			c.Infra("read scripts: %v", err)
		}
		keys := []string{}
		for k := range byClass {
			keys = append(keys, k)
		}
		sort.Slice(keys, func(i, j int) bool { return fnvStr(keys[i], c.Seed) < fnvStr(keys[j], c.Seed) })
		var scripts []*dlSpec
		for round := 0; round < 3 && len(scripts) < budget; round++ {
			for _, k := range keys {
				l := byClass[k]
				sort.Slice(l, func(i, j int) bool { return l[i].hash < l[j].hash })
				if round < len(l) && len(scripts) < budget {
					scripts = append(scripts, l[round])
				}
			}
		}
		if len(scripts) < 200 {
			c.Infra("only %d scripts", len(scripts))
		}
		c.Set("scripts_emitted", total)
		c.Set("script_classes", len(keys))
		c.Logf("replaying %d of %d scripts (%d classes)", len(scripts), total, len(keys))
		nproc := 16
		results := make([]*dlResC, len(scripts))
		core.Parallel(nproc, nproc, func(p int) {
			dir := filepath.Join(c.Work, fmt.Sprintf("dl-%d", p))
			os.MkdirAll(dir, 0o755)
			in, out := filepath.Join(dir, "in"), filepath.Join(dir, "out")
			f, _ := os.Create(in)
			w := bufio.NewWriter(f)
			enc := json.NewEncoder(w)
			for i := p; i < len(scripts); i += nproc {
				enc.Encode(map[string]interface{}{"id": i, "part": scripts[i].Part, "final0": scripts[i].Final0, "script": scripts[i].Script, "maxreq": maxreq})
			}
			w.Flush()
			f.Close()
			if b, err := driverCmd(c, drv, "dl", in, out).CombinedOutput(); err != nil {
				c.Infra("dl driver: %v\n%s", err, core.Tail(string(b), 2000))
			}
			of, _ := os.Open(out)
			defer of.Close()
			sc := bufio.NewScanner(of)
			sc.Buffer(make([]byte, 1<<20), 1<<24)
			for sc.Scan() {
				var rr dlResC
				if json.Unmarshal(sc.Bytes(), &rr) == nil && rr.ID < len(results) {
					cp := rr
					results[rr.ID] = &cp
				}
			}
		})
		cellOf := func(b int) int {
			if b == 0 {
				return 0
			}
			return b/1000 + map[bool]int{true: 1, false: 0}[b%1000 != 0]
		}
		agree := 0
		for i, s := range scripts {
			rr := results[i]
			if rr == nil {
				c.Infra("no result for script %d", i)
			}
			if strings.HasPrefix(rr.Result, "infra") {
				c.Infra("driver: %s", rr.Result)
			}
			mk := func(assertion, why string) {
				c.Report(core.Violation{Assertion: assertion, Fields: map[string]string{"part": s.Part, "final0": s.Final0, "spec_result": s.Result},
					Detail: map[string]interface{}{"why": why, "script": s, "observed": rr}})
			}
			switch {
			case rr.Result == "ok" && rr.Final != "valid":
				mk("success-means-hash-valid-object", fmt.Sprintf("download reported success but the file at the object's place is %s (%d bytes)", rr.Final, rr.FinalLen))
				continue
			case rr.Result == "fail" && s.Final0 == "stale" && rr.Final == "stale":
				// reported failed and the file that was there is untouched: fine
			case rr.Result == "fail" && rr.Final != "absent":
				mk("failure-leaves-no-final-file", fmt.Sprintf("download reported failure but a %s file (%d bytes) sits at the object's final place", rr.Final, rr.FinalLen))
				continue
			case rr.Final == "corrupt":
				mk("final-file-hashes-to-its-name", "a file whose bytes do not hash to the oid was put into local storage")
				continue
			case len(rr.StrayFiles) > 0:
				mk("temporaries-confined-to-incomplete", fmt.Sprintf("files outside incomplete/: %v", rr.StrayFiles))
				continue
			}
			// drift layer: the implementation model's prediction of result, ranges and .part
			same := rr.Result == s.Result && (s.PartLenAfter > 0) == (rr.PartLen > 0) && len(rr.Leftovers) == 0
			for k, want := range s.Requests {
				if k >= len(rr.Ranges) || cellOf(rr.Ranges[k]) != want {
					same = false
				}
			}
			if same {
				agree++
			} else {
				c.AddInt("drift_differs_from_implementation_model", 1)
			}
		}
		c.Set("agrees_with_implementation_model", agree)
		c.Set("traces_validated_against_impl", len(scripts))
		c.Set("evaluations", len(scripts))
		c.Set("distinct_nontrivial", len(scripts))
		customAdapterPhase(c, drv)
		sshAdapterPhase(c, drv)
		fileAgentPhase(c)
		c.Set("rule", "scripts = per-edge output of spec/Download.tla for every finished download: <= MaxReq answers (status 200/206/416/404/500/429 x body exact/suffix/wrong suffix/prefix/extra/bit flip/other object x Content-Range right/wrong/missing/malformed x connection cut) x initial .part in {absent, valid prefix, garbage, size-1, longer} x a file at the final place beforehand {none, same size with other bytes}; sampled round-robin over classes (part x result x status/cut/range pattern)")
		for i := 0; i < len(scripts); i += len(scripts)/4 + 1 {
			c.Sample(scripts[i])
		}
		c.Assume("basic adapter (HTTP scripts), custom adapter (agent scripts) and pure-SSH adapter (scripted git-lfs-transfer far side, one connection) and the standalone file agent of file:// remotes (real git lfs fetch); one process; the object is 4001 bytes so that the size-1 boundary of the resume rule is a cell boundary of the model")
	}
}

// customAdapterPhase: spec/CustomDownload.tla (transcription of customAdapter.DoTransfer) is
// model-checked, its variant without the re-hash must violate OkMeansValid, and every agent
// script it generates is played to the real queue + custom adapter by a scripted transfer agent.
type agentMsgC struct {
	Ev   string `json:"ev"`
	Oid  string `json:"oid"`
	Err  bool   `json:"err"`
	File string `json:"file"`
}
type customSpec struct {
	Script     []agentMsgC `json:"script"`
	Result     string      `json:"result"`
	FinalValid bool        `json:"finalValid"`
}

func customAdapterPhase(c *core.Ctx, drv string) {
	cfg := "CustomDownload_q.cfg"
	gcfg := writeCfgVariant(c, cfg, "CustomDownload_gen.cfg", map[string]string{"Emit = FALSE": "Emit = TRUE"})
	r := c.TLC(core.TLCOpts{Module: "CustomDownload", Cfg: gcfg, Workers: 2, Timeout: 10 * time.Minute})
	c.MustPass(r, "CustomDownload/"+cfg)
	if rm := c.TLC(core.TLCOpts{Module: "CustomDownload", Cfg: "CustomDownload_noverify.cfg", Workers: 2, Timeout: 10 * time.Minute}); rm.Violated != "OkMeansValid" {
		c.Infra("non-vacuity: the custom-adapter variant without the re-hash violates %q, expected OkMeansValid", rm.Violated)
	}
	var scripts []*customSpec
	seen := map[string]bool{}
	if _, err := core.ReadBehaviours(r.OutFile, func(raw []byte) error {
		if seen[string(raw)] {
			return nil
		}
		seen[string(raw)] = true
		var s customSpec
		if err := json.Unmarshal(raw, &s); err != nil {
			return err
		}
		scripts = append(scripts, &s)
		return nil
	}); err != nil {
		c.Infra("read agent scripts: %v", err)
	}
	if len(scripts) < 50 {
		c.Infra("only %d agent scripts", len(scripts))
	}
	nproc := 12
	results := make([]*dlResC, len(scripts))
	core.Parallel(nproc, nproc, func(p int) {
		dir := filepath.Join(c.Work, fmt.Sprintf("cdl-%d", p))
		os.MkdirAll(dir, 0o755)
		in, out := filepath.Join(dir, "in"), filepath.Join(dir, "out")
		f, _ := os.Create(in)
		w := bufio.NewWriter(f)
		enc := json.NewEncoder(w)
		for i := p; i < len(scripts); i += nproc {
			enc.Encode(map[string]interface{}{"id": i, "adapter": "custom", "msgs": scripts[i].Script, "maxreq": 2})
		}
		w.Flush()
		f.Close()
		if b, err := driverCmd(c, drv, "dl", in, out).CombinedOutput(); err != nil {
			c.Infra("dl driver (custom): %v\n%s", err, core.Tail(string(b), 2000))
		}
		of, _ := os.Open(out)
		defer of.Close()
		sc := bufio.NewScanner(of)
		sc.Buffer(make([]byte, 1<<20), 1<<24)
		for sc.Scan() {
			var rr dlResC
			if json.Unmarshal(sc.Bytes(), &rr) == nil && rr.ID < len(results) {
				cp := rr
				results[rr.ID] = &cp
			}
		}
	})
	drift := 0
	for i, s := range scripts {
		rr := results[i]
		if rr == nil {
			c.Infra("no result for agent script %d", i)
		}
		if strings.HasPrefix(rr.Result, "infra") {
			c.Infra("driver: %s", rr.Result)
		}
		mk := func(assertion, why string) {
			c.Report(core.Violation{Assertion: assertion, Fields: map[string]string{"adapter": "custom", "spec_result": s.Result},
				Detail: map[string]interface{}{"why": why, "agent_script": s, "observed": rr}})
		}
		switch {
		case rr.Result == "ok" && rr.Final != "valid":
			mk("success-means-hash-valid-object", fmt.Sprintf("download reported success but the file at the object's place is %s (%d bytes)", rr.Final, rr.FinalLen))
		case rr.Result == "fail" && rr.Final != "absent":
			mk("failure-leaves-no-final-file", fmt.Sprintf("download reported failure but a %s file (%d bytes) sits at the object's final place", rr.Final, rr.FinalLen))
		case rr.Final == "corrupt":
			mk("final-file-hashes-to-its-name", "a file whose bytes do not hash to the oid was put into local storage")
		case rr.Result != s.Result:
			drift++
		}
	}
	c.Set("custom_adapter_scripts", len(scripts))
	c.Set("custom_adapter_drift_differs_from_implementation_model", drift)
	c.AddInt("evaluations", int64(len(scripts)))
	c.AddInt("distinct_nontrivial", int64(len(scripts)))
	c.AddInt("traces_validated_against_impl", int64(len(scripts)))
	c.Set("custom_adapter_rule", "agent scripts = per-edge output of spec/CustomDownload.tla: <= MaxMsgs messages (progress / complete with right or wrong oid, with or without error, naming a file whose content is exact / prefix / extra / bit flip / other / empty / missing; unknown event; unparsable line; end of stream), all of them replayed")
}

// sshAdapterPhase: spec/SshDownload.tla (transcription of SSHAdapter.doDownload and the framing
// rules of ssh/protocol.go) is model-checked, its variant without the hash compare must violate
// OkMeansValid, and every far-side script it generates is played to the real queue + ssh adapter
// by a scripted git-lfs-transfer started through core.sshCommand.
type sshAnswerC struct {
	Status int    `json:"status"`
	Size   string `json:"size"`
	Frame  string `json:"frame"`
	Body   string `json:"body"`
}
type sshSpec struct {
	Final0     string       `json:"final0"`
	Script     []sshAnswerC `json:"script"`
	Result     string       `json:"result"`
	FinalValid bool         `json:"finalValid"`
	Requests   int          `json:"requests"`
}

func sshAdapterPhase(c *core.Ctx, drv string) {
	cfg, maxreq := "SshDownload_q.cfg", 2
	if !c.Quick() {
		cfg, maxreq = "SshDownload_t.cfg", 3
	}
	gcfg := writeCfgVariant(c, cfg, "SshDownload_gen.cfg", map[string]string{"Emit = FALSE": "Emit = TRUE"})
	r := c.TLC(core.TLCOpts{Module: "SshDownload", Cfg: gcfg, Workers: 2, Coverage: true, Timeout: 10 * time.Minute})
	c.MustPass(r, "SshDownload/"+cfg)
	c.CheckCoverage(r, "Batch", "Get")
	if rm := c.TLC(core.TLCOpts{Module: "SshDownload", Cfg: "SshDownload_noverify.cfg", Workers: 2, Timeout: 10 * time.Minute}); rm.Violated != "OkMeansValid" {
		c.Infra("non-vacuity: the ssh-adapter variant without the hash compare violates %q, expected OkMeansValid", rm.Violated)
	}
	var scripts []*sshSpec
	seen := map[string]bool{}
	if _, err := core.ReadBehaviours(r.OutFile, func(raw []byte) error {
		if seen[string(raw)] {
			return nil
		}
		seen[string(raw)] = true
		var s sshSpec
		if err := json.Unmarshal(raw, &s); err != nil {
			return err
		}
		scripts = append(scripts, &s)
		return nil
	}); err != nil {
		c.Infra("read ssh scripts: %v", err)
	}
	if len(scripts) < 100 {
		c.Infra("only %d ssh scripts", len(scripts))
	}
	nproc := 12
	results := make([]*dlResC, len(scripts))
	core.Parallel(nproc, nproc, func(p int) {
		dir := filepath.Join(c.Work, fmt.Sprintf("sdl-%d", p))
		os.MkdirAll(dir, 0o755)
		in, out := filepath.Join(dir, "in"), filepath.Join(dir, "out")
		f, _ := os.Create(in)
		w := bufio.NewWriter(f)
		enc := json.NewEncoder(w)
		for i := p; i < len(scripts); i += nproc {
			enc.Encode(map[string]interface{}{"id": i, "adapter": "ssh", "answers": scripts[i].Script, "final0": scripts[i].Final0, "maxreq": maxreq - 1})
		}
		w.Flush()
		f.Close()
		if b, err := driverCmd(c, drv, "dl", in, out).CombinedOutput(); err != nil {
			c.Infra("dl driver (ssh): %v\n%s", err, core.Tail(string(b), 2000))
		}
		of, _ := os.Open(out)
		defer of.Close()
		sc := bufio.NewScanner(of)
		sc.Buffer(make([]byte, 1<<20), 1<<24)
		for sc.Scan() {
			var rr dlResC
			if json.Unmarshal(sc.Bytes(), &rr) == nil && rr.ID < len(results) {
				cp := rr
				results[rr.ID] = &cp
			}
		}
	})
	drift, okSeen, failSeen := 0, 0, 0
	for i, s := range scripts {
		rr := results[i]
		if rr == nil {
			c.Infra("no result for ssh script %d", i)
		}
		if strings.HasPrefix(rr.Result, "infra") {
			c.Infra("driver: %s", rr.Result)
		}
		mk := func(assertion, why string) {
			c.Report(core.Violation{Assertion: assertion, Fields: map[string]string{"adapter": "ssh", "final0": s.Final0, "spec_result": s.Result},
				Detail: map[string]interface{}{"why": why, "far_side_script": s, "observed": rr}})
		}
		switch {
		case rr.Result == "ok" && rr.Final != "valid":
			mk("success-means-hash-valid-object", fmt.Sprintf("download reported success but the file at the object's place is %s (%d bytes)", rr.Final, rr.FinalLen))
		case rr.Result == "fail" && s.Final0 == "stale" && rr.Final == "stale":
		case rr.Result == "fail" && rr.Final != "absent":
			mk("failure-leaves-no-final-file", fmt.Sprintf("download reported failure but a %s file (%d bytes) sits at the object's final place", rr.Final, rr.FinalLen))
		case rr.Final == "corrupt":
			mk("final-file-hashes-to-its-name", "a file whose bytes do not hash to the oid was put into local storage")
		case len(rr.StrayFiles) > 0:
			mk("temporaries-confined-to-incomplete", fmt.Sprintf("files outside incomplete/: %v", rr.StrayFiles))
		case rr.Result != s.Result || len(rr.Ranges) != s.Requests || len(rr.Leftovers) > 0:
			drift++
			if drift <= 3 {
				c.Set(fmt.Sprintf("ssh_adapter_drift_sample_%d", drift), map[string]interface{}{"far_side_script": s, "observed": rr})
			}
		}
		if rr.Result == "ok" {
			okSeen++
		} else {
			failSeen++
		}
	}
	if okSeen == 0 || failSeen == 0 {
		c.Infra("ssh adapter phase is vacuous: %d successes, %d failures observed", okSeen, failSeen)
	}
	c.Set("ssh_adapter_scripts", len(scripts))
	c.Set("ssh_adapter_states", r.Distinct)
	c.Set("ssh_adapter_drift_differs_from_implementation_model", drift)
	c.AddInt("evaluations", int64(len(scripts)))
	c.AddInt("distinct_nontrivial", int64(len(scripts)))
	c.AddInt("traces_validated_against_impl", int64(len(scripts)))
	c.Set("ssh_adapter_rule", "far-side scripts = per-edge output of spec/SshDownload.tla: <= MaxReq answers to get-object (status 200/206/404/500 x size argument right/other/missing/twice/malformed/negative x framing ok/flush instead of delimiter/no status line/far side dies mid-body x body exact/prefix/extra/bit flip/other/empty) x a file at the final place beforehand {none, same size with other bytes}; all of them replayed through core.sshCommand")
}

// fileAgentPhase: spec/FileDownload.tla enumerates what may sit in a file:// remote's store under the
// object's name x what sits at the final place beforehand; its variant without the check-before-move
// must violate FailLeavesNoFinal; every case is run with the real `git lfs fetch` (custom adapter +
// `git-lfs standalone-file`, both git-lfs code).
type fileCase struct {
	Remote     string `json:"remote"`
	Final0     string `json:"final0"`
	Result     string `json:"result"`
	FinalValid bool   `json:"finalValid"`
}

func fileAgentPhase(c *core.Ctx) {
	lfs := c.BuildLFS()
	gcfg := writeCfgVariant(c, "FileDownload_q.cfg", "FileDownload_gen.cfg", map[string]string{"Emit = FALSE": "Emit = TRUE"})
	r := c.TLC(core.TLCOpts{Module: "FileDownload", Cfg: gcfg, Workers: 1, Coverage: true, Timeout: 5 * time.Minute})
	c.MustPass(r, "FileDownload")
	c.CheckCoverage(r, "Download")
	if rm := c.TLC(core.TLCOpts{Module: "FileDownload", Cfg: "FileDownload_noverify.cfg", Workers: 1, Timeout: 5 * time.Minute}); rm.Violated != "FailLeavesNoFinal" {
		c.Infra("non-vacuity: the file-agent variant without the check before the move violates %q, expected FailLeavesNoFinal", rm.Violated)
	}
	var cases []*fileCase
	seen := map[string]bool{}
	if _, err := core.ReadBehaviours(r.OutFile, func(raw []byte) error {
		if seen[string(raw)] {
			return nil
		}
		seen[string(raw)] = true
		var fc fileCase
		if err := json.Unmarshal(raw, &fc); err != nil {
			return err
		}
		cases = append(cases, &fc)
		return nil
	}); err != nil {
		c.Infra("read file-agent cases: %v", err)
	}
	if len(cases) != 10 {
		c.Infra("%d file-agent cases, expected 10", len(cases))
	}
	var mu sync.Mutex
	var infra error
	okSeen, failSeen := 0, 0
	core.Parallel(len(cases), 10, func(i int) {
		fc := cases[i]
		res, final, why, err := runFileCase(c, lfs, fc, i)
		mu.Lock()
		defer mu.Unlock()
		if err != nil {
			if infra == nil {
				infra = err
			}
			return
		}
		mk := func(assertion, w string) {
			c.Report(core.Violation{Assertion: assertion, Fields: map[string]string{"adapter": "standalone-file", "remote": fc.Remote, "final0": fc.Final0},
				Detail: map[string]interface{}{"why": w, "case": fc, "observed_result": res, "observed_final": final, "output": why}})
		}
		switch {
		case res == "ok" && final != "valid":
			mk("success-means-hash-valid-object", "fetch reported success but the file at the object's place is "+final)
		case res == "fail" && fc.Final0 == "stale" && final == "stale":
		case res == "fail" && final != "absent":
			mk("failure-leaves-no-final-file", "fetch reported failure but a "+final+" file sits at the object's final place")
		case final == "corrupt":
			mk("final-file-hashes-to-its-name", "a file whose bytes do not hash to the oid was put into local storage")
		case res != fc.Result:
			c.AddInt("file_agent_drift_differs_from_implementation_model", 1)
		}
		if res == "ok" {
			okSeen++
		} else {
			failSeen++
		}
	})
	if infra != nil {
		c.Infra("file-agent case: %v", infra)
	}
	if okSeen == 0 || failSeen == 0 {
		c.Infra("file-agent phase is vacuous: %d successes, %d failures", okSeen, failSeen)
	}
	c.Set("file_agent_cases", len(cases))
	c.AddInt("evaluations", int64(len(cases)))
	c.AddInt("distinct_nontrivial", int64(len(cases)))
	c.AddInt("traces_validated_against_impl", int64(len(cases)))
	c.Set("file_agent_rule", "cases = every state of spec/FileDownload.tla: the remote repository's copy of the object {exact, same size with a flipped bit, prefix, longer, missing} x the final place beforehand {empty, same size with other bytes (fetch --refetch)}; each run with the real git lfs fetch against a file:// remote")
}

// runFileCase: clone with one committed LFS object pushed to a file:// remote; the remote's copy is then
// put into the case's class, the local copy removed (or made stale), and the object fetched again.
func runFileCase(c *core.Ctx, lfsBin string, fc *fileCase, idx int) (result, final, output string, err error) {
	root := filepath.Join(c.Work, fmt.Sprintf("fa%d", idx))
	defer os.RemoveAll(root)
	w, err := NewWorldOpts(root, filepath.Dir(lfsBin), c.Seed, WorldOpts{FileRemote: true})
	if err != nil {
		return "", "", "", err
	}
	defer w.Close()
	if err := w.Commit("main", "p1", "o1", 0); err != nil {
		return "", "", "", err
	}
	if r := w.Env.RunIn(w.Clone, nil, nil, 120*time.Second, "git", "push", "-q", "origin", "main"); !r.OK() {
		return "", "", "", fmt.Errorf("push: %s", r.All())
	}
	content := w.Content("o1")
	remoteObj := gitenv.LocalObjectPath(w.Remote, w.Hex("o1"))
	if _, e := os.Stat(remoteObj); e != nil {
		return "", "", "", fmt.Errorf("the push did not store the object in the remote: %v", e)
	}
	var rb []byte
	switch fc.Remote {
	case "exact":
		rb = content
	case "flip":
		rb = append([]byte{}, content...)
		rb[len(rb)/2] ^= 1
	case "prefix":
		rb = content[:len(content)/2]
	case "extra":
		rb = append(append([]byte{}, content...), []byte("tail")...)
	}
	os.Remove(remoteObj)
	if fc.Remote != "missing" {
		if e := os.WriteFile(remoteObj, rb, 0o444); e != nil {
			return "", "", "", e
		}
	}
	localObj := gitenv.LocalObjectPath(w.GitDir(), w.Hex("o1"))
	os.Remove(localObj)
	stale := bytes.Repeat([]byte{0x55}, len(content))
	args := []string{"lfs", "fetch", "origin", "main"}
	if fc.Final0 == "stale" {
		if e := os.WriteFile(localObj, stale, 0o444); e != nil {
			return "", "", "", e
		}
		args = []string{"lfs", "fetch", "--refetch", "origin", "main"}
	}
	r := w.Env.RunIn(w.Clone, nil, nil, 120*time.Second, "git", args...)
	if r.Code == -2 {
		return "", "", "", fmt.Errorf("fetch did not finish")
	}
	result = "ok"
	if r.Code != 0 {
		result = "fail"
	}
	final = "absent"
	if b, e := os.ReadFile(localObj); e == nil {
		switch {
		case core.Sha(b) == w.Hex("o1"):
			final = "valid"
		case bytes.Equal(b, stale) && fc.Final0 == "stale":
			final = "stale"
		default:
			final = "corrupt"
		}
	}
	return result, final, core.Tail(r.All(), 600), nil
}
