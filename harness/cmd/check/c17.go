package main

// C17: credential protocol — spec/CredProto.tla enumerates credential maps
// over an alphabet containing the protocol's delimiters and says, per map,
// whether the exchange must be refused and otherwise exactly which lines the
// helper must receive; the driver pushes each map through the exported path of
// the creds package with a recording `git` shim and the raw stdin is compared.

import (
	"bufio"
	"encoding/base64"
	"encoding/json"
	"fmt"
	"os"
	"os/exec"
	"path/filepath"
	"sort"
	"strings"
	"time"

	"verif/harness/internal/core"
)

type credSpecCase struct {
	Cred    map[string][]string `json:"cred"`
	Shape   shapeMap            `json:"shape"` // multi-valued field -> [n, k]
	Protect bool                `json:"protect"`
	Prior   bool                `json:"prior"`
	Op      string              `json:"op"`
	Refuse  bool                `json:"refuse"`
}

// shapeMap: a TLA+ function with empty domain is serialised as an empty array
type shapeMap map[string][]int

func (m *shapeMap) UnmarshalJSON(b []byte) error {
	*m = shapeMap{}
	if len(b) > 0 && b[0] == '[' {
		return nil
	}
	return json.Unmarshal(b, (*map[string][]int)(m))
}

var credChar = map[string]string{"x": "x", "eq": "=", "LF": "\n", "CR": "\r", "NUL": "\x00", "sp": " "}

func init() {
	registry["C17"] = func(c *core.Ctx, replay string) {
		c.Level = "exploration"
		drv := c.BuildDriver()
		cfg := "CredProto_q.cfg"
		if !c.Quick() {
			cfg = "CredProto_t.cfg"
		}
		r := c.TLC(core.TLCOpts{Module: "CredProto", Cfg: cfg, Workers: 6, Timeout: 40 * time.Minute, HeapGB: 8})
		c.MustPass(r, "CredProto/"+cfg)
		c.Set("states", r.Distinct)
		c.Set("transitions", r.Generated)
		seen := map[string]bool{}
		var cases []credSpecCase
		if _, err := core.ReadBehaviours(r.OutFile, func(raw []byte) error {
			if seen[string(raw)] {
				return nil
			}
			seen[string(raw)] = true
			var cs credSpecCase
			if err := json.Unmarshal(raw, &cs); err != nil {
				return err
			}
			cases = append(cases, cs)
			return nil
		}); err != nil {
			c.Infra("read cases: %v", err)
		}
		nRefuse := 0
		for _, cs := range cases {
			if cs.Refuse {
				nRefuse++
			}
		}
		if nRefuse == 0 || nRefuse == len(cases) || len(cases) < 100 {
			c.Infra("vacuity: %d cases, %d refused", len(cases), nRefuse)
		}

		// shim
		shim := filepath.Join(c.Work, "shim")
		os.MkdirAll(shim, 0o755)
		realGit, _ := exec.LookPath("git")
		script := "#!/bin/sh\nif [ \"$1\" = credential ]; then cat > \"$VERIF_SHIM_DIR/capture.$2\"; if [ \"$2\" = fill ]; then printf 'username=shimuser\\npassword=shimpass\\n'; fi; exit 0; fi\nexec " + realGit + " \"$@\"\n"
		os.WriteFile(filepath.Join(shim, "git"), []byte(script), 0o755)

		type job struct {
			spec   credSpecCase
			viaURL bool
		}
		var jobs []job
		for _, cs := range cases {
			jobs = append(jobs, job{cs, false})
			onlyURLFields := true
			for k, v := range cs.Cred {
				if len(v) == 1 && v[0] == "x" {
					continue
				}
				if k != "username" && k != "path" {
					onlyURLFields = false
				}
			}
			if onlyURLFields {
				jobs = append(jobs, job{cs, true})
			}
		}
		render := func(v []string) string {
			var sb strings.Builder
			for _, ch := range v {
				sb.WriteString(credChar[ch])
			}
			return sb.String()
		}
		nproc := 8
		results := make([]map[string]interface{}, len(jobs))
		chunk := (len(jobs) + nproc - 1) / nproc
		core.Parallel(nproc, nproc, func(p int) {
			lo, hi := p*chunk, (p+1)*chunk
			if hi > len(jobs) {
				hi = len(jobs)
			}
			if lo >= hi {
				return
			}
			dir := filepath.Join(c.Work, fmt.Sprintf("cred-%d", p))
			os.MkdirAll(dir, 0o755)
			in := filepath.Join(dir, "in")
			out := filepath.Join(dir, "out")
			f, _ := os.Create(in)
			w := bufio.NewWriter(f)
			enc := json.NewEncoder(w)
			for i := lo; i < hi; i++ {
				fields := map[string]string{}
				for k, v := range jobs[i].spec.Cred {
					fields[k] = base64.StdEncoding.EncodeToString([]byte(render(v)))
				}
				enc.Encode(map[string]interface{}{"id": i, "protect": jobs[i].spec.Protect, "prior": jobs[i].spec.Prior, "op": jobs[i].spec.Op, "fields": fields, "shape": jobs[i].spec.Shape, "via_url": jobs[i].viaURL})
			}
			w.Flush()
			f.Close()
			cmd := driverCmd(c, drv, "cred", in, out)
			cmd.Env = append(os.Environ(), "PATH="+shim+":"+os.Getenv("PATH"), "VERIF_SHIM_DIR="+dir, "GIT_TERMINAL_PROMPT=0")
			if b, err := cmd.CombinedOutput(); err != nil {
				c.Infra("cred driver: %v\n%s", err, core.Tail(string(b), 2000))
			}
			of, _ := os.Open(out)
			defer of.Close()
			sc := bufio.NewScanner(of)
			sc.Buffer(make([]byte, 1<<20), 1<<24)
			for sc.Scan() {
				var m map[string]interface{}
				if json.Unmarshal(sc.Bytes(), &m) == nil {
					results[int(m["id"].(float64))] = m
				}
			}
		})
		urlRejected, refusedOK, passedOK := 0, 0, 0
		for i, jb := range jobs {
			m := results[i]
			if m == nil {
				c.Infra("no result for credential case %d", i)
			}
			str := func(k string) string { s, _ := m[k].(string); return s }
			captured, _ := m["captured"].(bool)
			stdin, _ := base64.StdEncoding.DecodeString(str("stdin_b64"))
			fields := map[string]string{}
			for k, v := range jb.spec.Cred {
				fields[k] = render(v)
			}
			report := func(assertion, why string) {
				c.Report(core.Violation{Assertion: assertion, Fields: map[string]string{"op": jb.spec.Op, "via_url": fmt.Sprint(jb.viaURL)},
					Detail: map[string]interface{}{"why": why, "fields": fmt.Sprintf("%q", fields), "entries_and_position_of_multi_valued_fields": jb.spec.Shape, "protect": jb.spec.Protect, "op": jb.spec.Op,
						"via_url": jb.viaURL, "helper_stdin": fmt.Sprintf("%q", stdin), "error": str("err")}})
			}
			if str("panic") != "" {
				report("no-panic", str("panic"))
				continue
			}
			if str("url_err") != "" {
				urlRejected++ // the URL parser refused the value before any credential exchange
				continue
			}
			if jb.spec.Refuse {
				if captured {
					report("hostile-value-refused", "a value with a newline / NUL / protected CR reached the helper")
				} else if str("err") == "" {
					report("hostile-value-refused", "no error reported for a refused exchange")
				} else {
					refusedOK++
				}
				continue
			}
			if !captured {
				report("helper-receives-supplied", "harmless credential map was not passed to the helper: "+str("err"))
				continue
			}
			pre := "capability[]=authtype\ncapability[]=state\n"
			if !strings.HasPrefix(string(stdin), pre) || !strings.HasSuffix(string(stdin), "\n") {
				report("helper-receives-supplied", "preamble or final newline missing")
				continue
			}
			got := strings.Split(strings.TrimSuffix(string(stdin)[len(pre):], "\n"), "\n")
			want := []string{}
			for k, v := range fields {
				if sh, ok := jb.spec.Shape[k]; ok && len(sh) == 2 {
					for e := 1; e <= sh[0]; e++ {
						if e == sh[1] {
							want = append(want, k+"="+v)
						} else {
							want = append(want, k+"=x")
						}
					}
					continue
				}
				want = append(want, k+"="+v)
			}
			sort.Strings(got)
			sort.Strings(want)
			if strings.Join(got, "\n") != strings.Join(want, "\n") {
				report("helper-receives-supplied", fmt.Sprintf("helper lines %q differ from supplied pairs %q", got, want))
				continue
			}
			if str("sub") != jb.spec.Op {
				report("helper-receives-supplied", "wrong git credential sub-command "+str("sub"))
				continue
			}
			passedOK++
		}
		c.Set("evaluations", len(jobs))
		c.Set("distinct_nontrivial", len(cases))
		c.Set("refused_as_required", refusedOK)
		c.Set("passed_verbatim", passedOK)
		c.Set("rejected_by_url_parser", urlRejected)
		c.Set("exhaustive", true)
		c.Set("rule", "cases = every credential map of spec/CredProto.tla with <= MaxHot fields carrying a non-plain value of length <= MaxLen over {x,=,LF,CR,NUL,space} (for wwwauth[] and state[]: as any entry of a list of up to MaxEntries entries), x protectProtocol x {fresh context, context that first served another URL whose own setting switches protection off} x {fill,approve,reject}; username/path cases are also run through url.Parse of a percent-encoded URL; distinct = distinct spec states")
		for i := 0; i < len(jobs); i += len(jobs)/5 + 1 {
			f := map[string]string{}
			for k, v := range jobs[i].spec.Cred {
				f[k] = fmt.Sprintf("%q", render(v))
			}
			c.Sample(map[string]interface{}{"fields": f, "protect": jobs[i].spec.Protect, "op": jobs[i].spec.Op, "must_refuse": jobs[i].spec.Refuse})
		}
		c.Assume("the helper side is a recording git shim first on PATH; netrc/askpass/cache helpers are disabled so that the command helper is reached; the TLA+ helper-side reader (split at LF, cut at NUL) stands for git's C implementation")
	}
}
