package main

// C18: API conformance.  Scenarios (pushes generated from spec/Push.tla, a
// fetch in a second clone, a locking session with awkward path names and
// pagination, a server that names an unsupported hash algorithm, and the batch
// requests of transfer-queue scripts) are run against the harness's server;
// every request it received is turned into one event and the event log is
// validated by TLC against the acceptor spec/ApiProto.tla.  JSON-schema
// validity (with the repository's own schema files) and the media-type headers
// are per-line preconditions established here.

import (
	"net/url"
	"strconv"
	"bufio"
	"encoding/json"
	"fmt"
	"net/http"
	"os"
	"path/filepath"
	"sort"
	"strings"
	"sync"
	"time"

	"verif/harness/internal/core"
	"verif/harness/internal/lfsserver"
)

const lfsMedia = "application/vnd.git-lfs+json"

type apiEvent map[string]interface{}

type apiRun struct {
	name string
	reqs []lfsserver.Request
}

func mediaOK(h string) bool {
	h = strings.TrimSpace(strings.SplitN(h, ";", 2)[0])
	return h == lfsMedia
}

// scenario helpers ------------------------------------------------------------

func c18PushBehaviour(c *core.Ctx, lfsBin string, b *behaviour, idx int) (*apiRun, error) {
	root := filepath.Join(c.Work, fmt.Sprintf("a%d", idx))
	defer os.RemoveAll(root)
	w, err := NewWorld(root, filepath.Dir(lfsBin), c.Seed)
	if err != nil {
		return nil, err
	}
	defer w.Close()
	w.Srv.ActionHdr = map[string]string{"X-Verif-Token": fmt.Sprintf("t%d", idx)}
	w.Srv.ExpiresIn = 3600
	// which headers the upload action carries, and whether the client's own Content-Type detection is on:
	// a header the action offers is sent as offered whatever the client would have chosen itself
	switch idx % 4 {
	case 1:
		w.Srv.UploadHdr = map[string]string{"Content-Type": "application/x-verif-object"}
	case 2:
		w.Srv.UploadHdr = map[string]string{"Content-Type": "application/x-verif-object"}
		w.Env.Git(w.Clone, "config", "lfs.contenttype", "false")
	case 3:
		w.Srv.UploadHdr = map[string]string{"content-type": "application/x-verif-object"}
		w.Env.Git(w.Clone, "config", "lfs."+w.Srv.URL+".contenttype", "false")
	}
	for i, s := range b.steps {
		handled, err := applyRepoStep(w, s)
		if err != nil {
			return nil, fmt.Errorf("step %d: %v", i, err)
		}
		if handled {
			continue
		}
		refs := toStrings(s["refs"])
		var args []string
		switch s.str("mode") {
		case "git-push":
			args = []string{"push", "origin"}
			for _, d := range toStrings(s["deletes"]) {
				args = append(args, ":"+d)
			}
			args = append(args, refs...)
		case "lfs-push":
			args = append([]string{"lfs", "push", "origin"}, refs...)
		default:
			args = []string{"lfs", "push", "--all", "origin"}
		}
		w.Env.RunIn(w.Clone, nil, nil, 120*time.Second, "git", args...)
	}
	return &apiRun{name: fmt.Sprintf("push-behaviour-%d", idx), reqs: w.Srv.Requests()}, nil
}

func c18Handmade(c *core.Ctx, lfsBin string, kind string, idx int) (*apiRun, error) {
	root := filepath.Join(c.Work, fmt.Sprintf("h%d", idx))
	defer os.RemoveAll(root)
	w, err := NewWorld(root, filepath.Dir(lfsBin), c.Seed)
	if err != nil {
		return nil, err
	}
	defer w.Close()
	w.Srv.ActionHdr = map[string]string{"X-Verif-Token": "tok-" + kind, "X-Second": "2"}
	run := func(dir string, args ...string) { w.Env.RunIn(dir, nil, nil, 120*time.Second, "git", args...) }
	switch kind {
	case "push-branches":
		w.Commit("main", "p1", "o1", 0)
		w.Commit("main", "p2", "o2", 0)
		run(w.Clone, "checkout", "-q", "-b", "feat/ü#1")
		w.cur = "feat/ü#1"
		w.Br["feat/ü#1"] = len(w.Commits)
		w.Commit("feat/ü#1", "p1", "o3", 0)
		run(w.Clone, "push", "origin", "main", "feat/ü#1")
		run(w.Clone, "tag", "v1.0-rc\"1")
		run(w.Clone, "push", "origin", "--tags")
	case "fetch":
		w.Commit("main", "p1", "o1", 0)
		w.Commit("main", "p2", "o2", 0)
		run(w.Clone, "push", "origin", "main")
		w.Srv.ResetLog()
		cloneB := filepath.Join(root, "cloneB")
		tmpl := filepath.Join(root, "tmpl")
		os.MkdirAll(filepath.Join(tmpl, "info"), 0o755)
		os.WriteFile(filepath.Join(tmpl, "info", "attributes"), []byte("*.bin "+w.Attr+"\n"), 0o644)
		w.Env.RunIn(root, skipSmudge, nil, 120*time.Second, "git", "clone", "-q", "--template="+tmpl, "-c", "lfs.url="+w.Srv.LFSURL(repoName, ""), w.Remote, cloneB)
		run(cloneB, "lfs", "fetch")
		run(cloneB, "lfs", "pull")
		run(cloneB, "lfs", "fetch", "--all")
	case "locks":
		w.Srv.PageSize = 1
		run(w.Clone, "config", "lfs.url", w.Srv.LFSURL(repoName, "alice"))
		w.Srv.RequireAuth = true
		os.WriteFile(filepath.Join(w.Clone, ".gitattributes"), []byte("*.bin filter=lfs diff=lfs merge=lfs -text lockable\n"), 0o644)
		names := []string{"plain.bin", "we\"ird é.bin", "dir/sub dir/x\\y.bin"}
		for _, n := range names {
			w.Env.WriteFile(filepath.Join(w.Clone, n), []byte("content "+n), 0o644)
		}
		run(w.Clone, "add", ".")
		run(w.Clone, "commit", "-q", "-m", "lockable files")
		for _, n := range names {
			run(w.Clone, "lfs", "lock", n)
		}
		run(w.Clone, "lfs", "locks")
		run(w.Clone, "lfs", "locks", "--verify")
		run(w.Clone, "lfs", "locks", "--path", names[1])
		run(w.Clone, "lfs", "locks", "--limit", "2")
		run(w.Clone, "lfs", "unlock", names[0])
		run(w.Clone, "lfs", "unlock", "--force", names[1])
		for _, l := range w.Srv.LocksOf(repoName) {
			run(w.Clone, "lfs", "unlock", "--id", l.ID)
		}
		run(w.Clone, "-c", "lfs.locksverify=true", "push", "origin", "main")
	case "action-401":
		// the actions carry their own Authorization; the storage and verify end points refuse the first
		// request for every object with 401 although credentials for the API are at hand (URL userinfo):
		// a refused action is asked for again through the batch API, never used with other credentials
		w.Srv.ActionHdr = map[string]string{"Authorization": "Bearer tok-" + kind, "X-Verif-Token": "tok-" + kind}
		run(w.Clone, "config", "lfs.url", w.Srv.LFSURL(repoName, "alice"))
		w.Srv.RequireAuth = true
		var fmu sync.Mutex
		refused := map[string]bool{}
		w.Srv.Fault = func(s *lfsserver.Server, k, repo string, rw http.ResponseWriter, r *http.Request, body []byte) bool {
			if k != "storage-get" && k != "storage-put" && k != "verify" {
				return false
			}
			key := k + " " + r.URL.Path
			if k == "verify" {
				key += " " + string(body)
			}
			fmu.Lock()
			first := !refused[key]
			refused[key] = true
			fmu.Unlock()
			if !first {
				return false
			}
			rw.Header().Set("WWW-Authenticate", `Basic realm="verif"`)
			rw.Header().Set("Lfs-Authenticate", `Basic realm="verif"`)
			rw.Header().Set("Content-Type", lfsMedia)
			rw.WriteHeader(401)
			rw.Write([]byte(`{"message":"token refused"}`))
			return true
		}
		w.Commit("main", "p1", "o1", 0)
		w.Commit("main", "p2", "o2", 0)
		run(w.Clone, "push", "origin", "main")
		cloneB := filepath.Join(root, "cloneB")
		tmpl := filepath.Join(root, "tmpl")
		os.MkdirAll(filepath.Join(tmpl, "info"), 0o755)
		os.WriteFile(filepath.Join(tmpl, "info", "attributes"), []byte("*.bin "+w.Attr+"\n"), 0o644)
		w.Env.RunIn(root, skipSmudge, nil, 120*time.Second, "git", "clone", "-q", "--template="+tmpl, "-c", "lfs.url="+w.Srv.LFSURL(repoName, "alice"), w.Remote, cloneB)
		run(cloneB, "lfs", "fetch")
	case "tus-fallback":
		// the client offers tus (lfs.tustransfers); the first batch response picks it, the tus end point
		// is down (503), and every later response names no adapter: those actions are basic ones (PUT)
		run(w.Clone, "config", "lfs.tustransfers", "true")
		w.Commit("main", "p1", "o1", 0)
		w.Commit("main", "p2", "o2", 0)
		var fmu sync.Mutex
		nbatch := 0
		w.Srv.Fault = func(s *lfsserver.Server, k, repo string, rw http.ResponseWriter, r *http.Request, body []byte) bool {
			if r.Method == "HEAD" || r.Method == "PATCH" {
				rw.WriteHeader(503)
				return true
			}
			if k != "batch" {
				return false
			}
			var req struct {
				Operation string `json:"operation"`
				Objects   []struct {
					Oid  string `json:"oid"`
					Size int64  `json:"size"`
				} `json:"objects"`
			}
			json.Unmarshal(body, &req)
			if req.Operation != "upload" {
				return false
			}
			fmu.Lock()
			nbatch++
			first := nbatch == 1
			fmu.Unlock()
			objs := []map[string]interface{}{}
			for _, o := range req.Objects {
				href := s.URL + "/storage/" + repo + "/" + o.Oid
				if first {
					href = s.URL + "/storage/" + repo + "-tus/" + o.Oid
				}
				objs = append(objs, map[string]interface{}{"oid": o.Oid, "size": o.Size,
					"actions": map[string]interface{}{"upload": map[string]interface{}{"href": href}}})
			}
			resp := map[string]interface{}{"objects": objs}
			if first {
				resp["transfer"] = "tus"
			}
			rw.Header().Set("Content-Type", lfsMedia)
			rw.WriteHeader(200)
			json.NewEncoder(rw).Encode(resp)
			return true
		}
		run(w.Clone, "push", "origin", "main")
	case "hashalgo":
		w.Commit("main", "p1", "o1", 0)
		w.Srv.Fault = func(s *lfsserver.Server, k, repo string, rw http.ResponseWriter, r *http.Request, body []byte) bool {
			if k != "batch" {
				return false
			}
			var req struct {
				Objects []struct {
					Oid  string `json:"oid"`
					Size int64  `json:"size"`
				} `json:"objects"`
			}
			json.Unmarshal(body, &req)
			objs := []map[string]interface{}{}
			for _, o := range req.Objects {
				objs = append(objs, map[string]interface{}{"oid": o.Oid, "size": o.Size,
					"actions": map[string]interface{}{"upload": map[string]interface{}{"href": s.URL + "/storage/" + repo + "/" + o.Oid}}})
			}
			rw.Header().Set("Content-Type", lfsMedia)
			rw.WriteHeader(200)
			json.NewEncoder(rw).Encode(map[string]interface{}{"transfer": "basic", "hash_algo": "sha512", "objects": objs})
			return true
		}
		run(w.Clone, "push", "origin", "main")
	}
	if kind == "action-401" {
		// vacuity control: refusals happened, and transfers went through afterwards
		n401, n200 := 0, 0
		for _, q := range w.Srv.Requests() {
			if q.Kind == "storage-get" || q.Kind == "storage-put" || q.Kind == "verify" {
				if q.Status == 401 {
					n401++
				} else if q.Status == 200 {
					n200++
				}
			}
		}
		if n401 < 3 || n200 < 3 {
			return nil, fmt.Errorf("action-401 scenario is vacuous: %d refused and %d served action requests", n401, n200)
		}
	}
	if kind == "tus-fallback" {
		// vacuity control: tus was tried, and afterwards plain uploads happened
		nHead, nPut := 0, 0
		for _, q := range w.Srv.Requests() {
			if q.Method == "HEAD" {
				nHead++
			} else if q.Kind == "storage-put" && q.Status == 200 {
				nPut++
			}
		}
		if nHead < 1 {
			return nil, fmt.Errorf("tus-fallback scenario is vacuous: %d tus requests, %d plain uploads", nHead, nPut)
		}
	}
	return &apiRun{name: kind, reqs: w.Srv.Requests()}, nil
}

// conversion of a server log into acceptor events -------------------------------

type schemaJob struct {
	ID   int             `json:"id"`
	Kind string          `json:"kind"`
	Body json.RawMessage `json:"body"`
}

func init() {
	registry["C18"] = func(c *core.Ctx, replay string) {
		c.Level = "model_checking"
		lfs := c.BuildLFS()
		drv := c.BuildDriver()
		// traffic 1: pushes generated from the Push model
		gcfg := writeCfgVariant(c, "Push_q.cfg", "Push_gen18.cfg", map[string]string{"Emit = FALSE": "Emit = TRUE", "MaxSteps = 6": "MaxSteps = 5"})
		r := c.TLC(core.TLCOpts{Module: "Push", Cfg: gcfg, Workers: 8, Timeout: 30 * time.Minute, HeapGB: 10})
		c.MustPass(r, "Push (traffic generation)")
		c.Set("states", r.Distinct)
		c.Set("transitions", r.Generated)
		npush := 60
		if !c.Quick() {
			npush = 600
		}
		bs, _, _ := sampleBehaviours(c, r.OutFile, "verdict", npush)
		var mu sync.Mutex
		var runs []*apiRun
		var infra error
		core.Parallel(len(bs), 14, func(i int) {
			ar, err := c18PushBehaviour(c, lfs, bs[i], i)
			mu.Lock()
			defer mu.Unlock()
			if err != nil {
				if infra == nil {
					infra = err
				}
				return
			}
			runs = append(runs, ar)
		})
		kinds := []string{"push-branches", "fetch", "locks", "hashalgo", "action-401", "tus-fallback"}
		core.Parallel(len(kinds), 6, func(i int) {
			ar, err := c18Handmade(c, lfs, kinds[i], i)
			mu.Lock()
			defer mu.Unlock()
			if err != nil {
				if infra == nil {
					infra = err
				}
				return
			}
			runs = append(runs, ar)
		})
		if infra != nil {
			c.Infra("traffic generation: %v", infra)
		}
		sort.Slice(runs, func(i, j int) bool { return runs[i].name < runs[j].name })

		// schema validation of every body that has a published schema
		var jobs []schemaJob
		type key struct{ run, seq int }
		jobOf := map[key]int{}
		for ri, ar := range runs {
			for qi, q := range ar.reqs {
				k := ""
				switch q.Kind {
				case "batch":
					k = "batch"
				case "lock":
					k = "lock"
				case "unlock":
					k = "unlock"
				}
				if k != "" {
					body := q.Body
					if body == nil {
						body = json.RawMessage(`"<body was not JSON>"`)
					}
					jobOf[key{ri, qi}] = len(jobs)
					jobs = append(jobs, schemaJob{ID: len(jobs), Kind: k, Body: body})
				}
			}
		}
		sin, sout := filepath.Join(c.Work, "schema.in"), filepath.Join(c.Work, "schema.out")
		f, _ := os.Create(sin)
		enc := json.NewEncoder(f)
		for _, j := range jobs {
			enc.Encode(j)
		}
		f.Close()
		if b, err := driverCmd(c, drv, "schema", c.Repo, sin, sout).CombinedOutput(); err != nil {
			c.Infra("schema driver: %v\n%s", err, core.Tail(string(b), 1500))
		}
		schemaOK := make([]bool, len(jobs))
		schemaErr := make([][]string, len(jobs))
		sf, _ := os.Open(sout)
		sc := bufio.NewScanner(sf)
		sc.Buffer(make([]byte, 1<<20), 1<<24)
		for sc.Scan() {
			var x struct {
				ID     int      `json:"id"`
				OK     bool     `json:"ok"`
				Errors []string `json:"errors"`
			}
			if json.Unmarshal(sc.Bytes(), &x) == nil && x.ID < len(jobs) {
				schemaOK[x.ID], schemaErr[x.ID] = x.OK, x.Errors
			}
		}
		sf.Close()

		// events
		trace := filepath.Join(c.Work, "api.trace")
		tf, _ := os.Create(trace)
		tw := bufio.NewWriter(tf)
		tenc := json.NewEncoder(tw)
		var lines []lineInfo
		emit := func(ri int, q *lfsserver.Request, e apiEvent, note string) {
			tenc.Encode(e)
			lines = append(lines, lineInfo{ri, q, note})
		}
		kindsSeen := map[string]int{}
		for ri, ar := range runs {
			emit(ri, nil, apiEvent{"ev": "reset", "run": ar.name}, "")
			offeredHdr := map[string]map[string]string{}
			for qi := range ar.reqs {
				q := &ar.reqs[qi]
				kindsSeen[q.Kind]++
				href := "http://" + q.Host + q.Path
				switch q.Kind {
				case "batch":
					var body struct {
						Operation string `json:"operation"`
						Objects   []struct {
							Oid  string  `json:"oid"`
							Size float64 `json:"size"`
						} `json:"objects"`
					}
					json.Unmarshal(q.Body, &body)
					oids := []string{}
					sizesOk := true
					for _, o := range body.Objects {
						oids = append(oids, o.Oid)
						if o.Size < 0 {
							sizesOk = false
						}
					}
					j := jobOf[key{ri, qi}]
					emit(ri, q, apiEvent{"ev": "batch", "op": body.Operation, "oids": oids, "sizesOk": sizesOk, "schemaOk": schemaOK[j],
						"acceptOk": mediaOK(q.Accept), "ctypeOk": mediaOK(q.ContentType)}, strings.Join(schemaErr[j], "; "))
					var resp struct {
						HashAlgo string `json:"hash_algo"`
						Transfer string `json:"transfer"`
						Objects  []struct {
							Oid     string `json:"oid"`
							Actions map[string]struct {
								Href   string            `json:"href"`
								Header map[string]string `json:"header"`
							} `json:"actions"`
						} `json:"objects"`
					}
					json.Unmarshal(q.Response, &resp)
					if resp.HashAlgo != "" && resp.HashAlgo != "sha256" {
						emit(ri, q, apiEvent{"ev": "hashalgo", "algo": resp.HashAlgo}, "")
						continue
					}
					adapter := resp.Transfer
					if adapter == "" {
						adapter = "basic" // docs/api/batch.md: "If omitted, the basic transfer adapter MUST be assumed"
					}
					for _, o := range resp.Objects {
						rels := []string{}
						for rel := range o.Actions {
							rels = append(rels, rel)
						}
						sort.Strings(rels)
						for _, rel := range rels {
							a := o.Actions[rel]
							emit(ri, q, apiEvent{"ev": "offer", "oid": o.Oid, "rel": rel, "href": a.Href, "adapter": adapter}, "")
							offeredHdr[o.Oid+"|"+rel] = a.Header
						}
					}
				case "storage-get", "storage-put", "verify":
					rel := map[string]string{"storage-get": "download", "storage-put": "upload", "verify": "verify"}[q.Kind]
					if q.Method == "HEAD" || q.Method == "PATCH" {
						rel = "upload" // tus.io
					}
					oid := q.Oid
					bodyOk := true
					if q.Kind == "verify" {
						var vb struct {
							Oid  string   `json:"oid"`
							Size *float64 `json:"size"`
						}
						if json.Unmarshal(q.Body, &vb) != nil || vb.Oid == "" || vb.Size == nil || *vb.Size < 0 {
							bodyOk = false
						}
						oid = vb.Oid
					}
					hdrOk := true
					for k, v := range offeredHdr[oid+"|"+rel] {
						if q.Headers[http.CanonicalHeaderKey(k)] != v {
							hdrOk = false
						}
					}
					emit(ri, q, apiEvent{"ev": "use", "method": q.Method, "oid": oid, "rel": rel, "href": href, "hdrOk": hdrOk, "bodyOk": bodyOk,
						"acceptOk": mediaOK(q.Accept), "ctypeOk": mediaOK(q.ContentType)}, "")
				case "lock", "unlock", "locks-list", "locks-verify":
					ok := true
					note := ""
					if j, has := jobOf[key{ri, qi}]; has {
						ok, note = schemaOK[j], strings.Join(schemaErr[j], "; ")
					}
					ctype := q.Method == "GET" || mediaOK(q.ContentType)
					// paging of lock lists (docs/api/locking.md): a cursor is a next_cursor the server handed
					// out for the same kind of listing; a limit, when sent, is a positive number of locks
					cursor, limitOk, next := "", true, ""
					switch q.Kind {
					case "locks-list":
						if vals, err := url.ParseQuery(q.Query); err == nil {
							cursor = vals.Get("cursor")
							if l, has := vals["limit"]; has {
								n, err := strconv.Atoi(l[0])
								limitOk = err == nil && n > 0
							}
						}
					case "locks-verify":
						var vb map[string]json.RawMessage
						if json.Unmarshal(q.Body, &vb) == nil {
							if cr, has := vb["cursor"]; has {
								json.Unmarshal(cr, &cursor)
							}
							if lr, has := vb["limit"]; has {
								var n float64
								limitOk = json.Unmarshal(lr, &n) == nil && n > 0 && n == float64(int64(n))
							}
						}
					}
					if q.Kind == "locks-list" || q.Kind == "locks-verify" {
						var rb struct {
							Next string `json:"next_cursor"`
						}
						json.Unmarshal(q.Response, &rb)
						next = rb.Next
					}
					emit(ri, q, apiEvent{"ev": "lockreq", "kind": q.Kind, "schemaOk": ok, "acceptOk": mediaOK(q.Accept), "ctypeOk": ctype,
						"cursor": cursor, "limitOk": limitOk, "next": next}, note)
				}
			}
		}
		tw.Flush()
		tf.Close()
		for _, k := range []string{"batch", "storage-put", "storage-get", "verify", "lock", "unlock", "locks-list", "locks-verify"} {
			if kindsSeen[k] == 0 {
				c.Infra("vacuity: no %s request was generated (seen %v)", k, kindsSeen)
			}
		}
		c.Set("requests_by_kind", kindsSeen)

		// validation with attribution
		skip := map[int]bool{}
		validated := 0
		for iter := 0; iter < 30; iter++ {
			cur := filepath.Join(c.Work, fmt.Sprintf("api-%d.trace", iter))
			idxMap := filterByRun(trace, cur, lines2runs(lines), skip)
			ok, vr := c.ValidateTrace("ApiProto", "ApiProto.cfg", cur, false)
			if ok {
				validated = len(runs) - len(skip)
				break
			}
			if vr.Depth-1 >= len(idxMap) || vr.Depth < 1 {
				c.Infra("cannot attribute rejection at line %d", vr.Depth)
			}
			li := lines[idxMap[vr.Depth-1]]
			skip[li.run] = true
			evb, _ := os.ReadFile(cur)
			evLines := strings.Split(string(evb), "\n")
			var ev map[string]interface{}
			json.Unmarshal([]byte(evLines[vr.Depth-1]), &ev)
			assertion := "request-conforms"
			switch ev["ev"] {
			case "batch":
				assertion = "batch-request-schema-and-headers"
			case "use":
				assertion = "action-used-as-offered"
				if p, _ := ev["hdrOk"].(bool); !p {
					assertion = "action-headers-sent"
				}
			case "lockreq":
				assertion = "lock-request-schema-and-headers"
			case "offer":
				assertion = "server-answered-about-unasked-object"
			}
			c.Report(core.Violation{Assertion: assertion, Fields: map[string]string{"scenario": runs[li.run].name, "event": fmt.Sprint(ev["ev"])},
				Detail: map[string]interface{}{"rejected_event": ev, "request": li.req, "schema_errors": li.note, "trace_line": vr.Depth,
					"note": "the acceptor ApiProto has no action matching this event in the state reached by the scenario's earlier requests"}})
		}
		c.Set("traces_validated_against_impl", validated)
		c.Set("trace_events", len(lines))
		c.Set("evaluations", len(lines))
		c.Set("distinct_nontrivial", len(runs))
		c.Set("rule", "scenarios = pushes generated per edge from spec/Push.tla (sampled) + hand-written scenarios (branches and tags with special characters, clone + fetch + pull + fetch --all, a locking session over path names needing JSON escaping with a paginating server, a server naming hash_algo sha512); every request the server received is one event; distinct = scenarios")
		for i := 0; i < len(lines) && i < 400; i += 80 {
			if lines[i].req != nil {
				c.Sample(map[string]interface{}{"scenario": runs[lines[i].run].name, "kind": lines[i].req.Kind, "method": lines[i].req.Method, "path": lines[i].req.Path, "body": lines[i].req.Body})
			}
		}
		c.Assume("JSON-schema validity is checked with the repository's own schema files (tq/schemas, locking/schemas) through the JSON-schema library it vendors; verify and lock-list / lock-verify requests have no published request schema and are checked structurally; single-field corruptions of responses other than hash_algo are not yet generated")
	}
}

type lineInfo struct {
	run  int
	req  *lfsserver.Request
	note string
}

func lines2runs(l []lineInfo) []int {
	out := make([]int, len(l))
	for i := range l {
		out[i] = l[i].run
	}
	return out
}

// filterByRun copies the lines of runs not in skip and returns, per output line, the index of the input line.
func filterByRun(in, out string, runOf []int, skip map[int]bool) []int {
	b, _ := os.ReadFile(in)
	ls := strings.Split(strings.TrimSuffix(string(b), "\n"), "\n")
	var idx []int
	var sb strings.Builder
	for i, l := range ls {
		if i < len(runOf) && !skip[runOf[i]] {
			sb.WriteString(l)
			sb.WriteByte('\n')
			idx = append(idx, i)
		}
	}
	os.WriteFile(out, []byte(sb.String()), 0o644)
	return idx
}
