#!/usr/bin/env python3
"""Regenerates MANIFEST.json from the table below (single source of truth)."""
import json, os
ROOT = os.path.dirname(os.path.dirname(os.path.abspath(__file__)))
props = [json.loads(l) for l in open(os.path.join(ROOT, "properties.jsonl"))]
ids = [p["id"] for p in props]

# id -> (category, technique, level text, level note, design ref)
CLAIMED = {
 "C06": ("model_checking",
   "TLA+ model of the queue's goroutines checked exhaustively by TLC; TLC-generated environment scripts replayed against the real tq.TransferQueue; hook traces validated against the TLA+ accounting acceptor TQAcct",
   "Every interleaving of producer, collector, batch goroutine, adapter completions and watcher is explored by TLC on small constants (design verdict: NoPanic, DeadlockFree, WgMatches, Conservation, NoPhantom; the transcription of the pre-repair code is kept as a spec mutant that must violate them). One environment script per environment edge of that run is replayed against the real queue in child processes (panic and hang observed directly) under perturbed schedules, and every recorded hook trace must be accepted by the acceptor, which evaluates the wait-counter and delivery accounting after every event.",
   "Trusted: TLC, the placement of the verif hooks (inside the critical sections they report), the scripted batch server and fake adapter. Real-code schedules are sampled, not exhausted.", "DESIGN.md §5 C06, §3.4-3.5, App. A"),
 "C15": ("model_checking",
   "same TLA+ queue model (Budget, NoOverlap, NotBeforeReady invariants) + replay of TLC scripts + trace validation against TQAcct (attempt/retry budget, no retry after fatal, no overlap, Retry-After lower bound, back-off cap)",
   "TLC exhausts the retry/back-off design on small constants with MaxRetries 2..3; the replayed runs are judged by the acceptor at the adapter and server (the points of truth): attempts <= maxretries+1, retries <= maxretries, no retry after a fatal outcome, never two transfers of one oid armed/in flight/unhandled, nothing requested or started before a Retry-After instant (real time used as lower bound only), computed back-off <= lfs.transfer.maxretrydelay, expired actions re-requested instead of used.",
   "Trusted: as C06. lfs.transfer.maxretrydelay is fixed to 1 s in the runs; expiry classes are {absent, past}.", "DESIGN.md §5 C15"),
 "C07": ("exploration",
   "TLA+ transcription of the pointer format (spec/Pointer.tla) enumerated completely by TLC; every abstract document rendered to bytes and decoded by the real lfs.DecodePointer; spec verdict vs observed",
   "TLC enumerates every token document within <=1 (quick) / <=2 (thorough) edit operations of the canonical encoding of the base pointers, with the verdict the written specification gives it (must accept / must reject / open), the pointer it denotes and whether it is canonical. The real decoder's answer is compared per document: canonical forms accepted and flagged canonical, documents without a well-formed oid or size rejected, anything accepted is well-formed (64 lower hex, size>=0, unique ascending priorities 0-9), equals what the document denotes, canonical flag == byte equality with the spec's canonical form, Encoded() == that form, decode(encode(p)) == p; seeded random and mutated byte strings check totality (no panic).",
   "Oracle is my TLA+ reading of docs/spec.md; abstract value classes are rendered to one concrete string each; inputs >1024 bytes only in the random part.", "DESIGN.md §5 C07"),
 "C17": ("exploration",
   "TLA+ model of the git-credential wire format (spec/CredProto.tla: writer, refusal rule, helper-side reader) checked by TLC; every enumerated credential map pushed through the real creds package with a recording git shim; raw helper stdin compared",
   "TLC enumerates every credential map with <=1 (quick) / <=2 (thorough) fields carrying a value of length <=2 over {x,=,LF,CR,NUL,space}, both protectProtocol settings and fill/approve/reject, proves on the model that the refusal rule is sufficient (helper parses exactly the supplied pairs) and necessary, and the real code is run on each map: must-refuse maps never reach the helper and yield an error, all others arrive as exactly one k=v line per supplied pair after the capability preamble. username/path cases also go through url.Parse of a percent-encoded URL.",
   "Helper side = recording shim for `git credential`; values longer than 2 characters and more than 2 hostile fields are outside the bound.", "DESIGN.md §5 C17"),
 "C03": ("model_checking",
   "TLA+ model of repository + push (spec/Repo.tla, spec/Push.tla) checked exhaustively by TLC (RemoteComplete, RefsOnlyAfterObjects); per-edge behaviours ending in a push replayed with real git + git-lfs + fake LFS server; observed verdict/server/refs compared with the spec's prediction",
   "TLC explores every history of <=3 commits / <=6 steps (quick; thorough <=5 commits, 3 objects) over 2 branches, 2 paths, raw/pointer/deleted blobs, local damage (absent, same-size corrupt), stale remote-tracking refs (another clone pushed) and the three push front-ends, and checks that whatever becomes reachable on the remote has its objects on the server. One behaviour per push edge is emitted; a stratified sample plus random walks over the larger configuration are replayed against the real binary: push verdict, server contents (hash-validated), remote refs and the RemoteComplete invariant are compared after every push.",
   "Trusted: real git 2.39 as transport for refs (bare remote over a file path), the fake LFS server (rejects uploads that do not hash to their oid), skip-smudge work trees. --object-id, lfs.allowincompletepush, tags and file:// standalone transfer are not yet in the model.", "DESIGN.md §5 C03"),
 "C05": ("model_checking",
   "TLA+ model of retention (spec/Prune.tla over Repo/Push: MustRetain from git-lfs-prune(1)) explored by TLC; per-edge behaviours ending in a prune replayed with real git + git-lfs + fake server under varied attribute spellings and ambient git configuration; observed deletions must avoid MustRetain",
   "TLC explores every history of <=3 commits / <=5 steps (thorough <=4/6) with commit dates 0 or 20 days old, single- and multi-path commits, partial pushes, stale remote-tracking refs, staged files, stashes, branch switches, a server that lost objects, and prune with no flag / --dry-run / --recent / --force / --verify-remote. The acceptor lets prune delete any subset of local minus MustRetain; replayed runs are judged on Deleted /\\ MustRetain = {}, dry-run deletes nothing, --verify-remote deletes nothing reachable the server lacks. Each behaviour is concretised with the default attribute line and git config or with one of 6 other spellings / 10 ambient settings.",
   "MustRetain uses the conservative reading of 'unpushed' (referenced by an unpushed commit and by no commit the remote has). fetchrecentcommitsdays=0 (default), extra worktrees and detached HEAD not yet modelled; dates far from the window boundary.", "DESIGN.md §5 C05"),
 "C01": ("exploration",
   "TLA+ enumeration of the filter's input domain (spec/Filter.tla: content class x delivery x front-end x work-tree state, branch oracle depending on content only); every case concretised and run through the real one-shot filters (pipe with forced short reads), filter-process (pkt-line client) and git add/checkout",
   "TLC enumerates the complete product of 12 data classes (lengths 0, 1, around 1024, around the 65516 pkt-line limit, 2x65516; thorough adds 1 MiB+1 and 4 MiB) x 11 deliveries (single write, splits at 1 / middle / 1023 / 1024 / 1025, single bytes through the prefix and the cutoff, packets of 1 / 7 / 1024 / 65516 bytes) x 3 front-ends x 5 work-tree states. For each case the harness computes SHA-256 and length itself and requires: clean emits exactly the canonical pointer of that pair, local storage holds exactly the input under that id and nothing else new, smudging the pointer returns the input bytes, empty maps to empty.",
   "Short reads are forced by delivering each chunk only while the filter is blocked in read(0) (observed via /proc). merge-driver front-end and pointer extensions are not yet covered.", "DESIGN.md §5 C01"),
 "C08": ("exploration",
   "same enumeration (spec/Filter.tla, pointer classes) with the C08 branch oracle: well-formed pointer < 1024 bytes passes through clean unchanged and stores nothing; look-alikes and anything >= 1024 bytes are content in full; non-pointers pass through smudge",
   "All pointer classes (canonical, CRLF, padded to 1023 / 1024 / 1025 bytes, pointer + byte / + line / + 64 KiB / + data to 1500, upper-case oid; thorough adds extension and legacy-version pointers) x every delivery that puts a chunk boundary inside or exactly after the pointer text x front-ends x work-tree states. Invariants NoPointerToPointer and LookAlikeIsContent hold on the model; on the code: pass-through is byte-identical and the object store is unchanged, look-alikes get the canonical pointer of their full bytes, non-pointer bytes pass through smudge unchanged.",
   "As C01. The skip-smudge checkout followed by git add / stash / commit -a front-end is represented by the gitadd front-end with a pointer work-tree file.", "DESIGN.md §5 C08"),
 "C19": ("exploration",
   "TLA+ model of what the user asked to track (spec/Track.tla: literal names, glob patterns with a wildcard matcher defined in the spec) enumerated by TLC over names built from every character with a meaning in .gitattributes; real git lfs track/untrack run per behaviour; git check-attr over every name compared with the spec's set",
   "TLC enumerates all sequences of <=2 operations (track --filename, track <pattern>, the same again, untrack) over all names of <=2 characters (thorough <=3) from 13 character classes (letter, space, tab, #, !, quote, * ? [ ] backslash, non-ASCII, dot), 4 glob patterns and 3 pre-existing .gitattributes classes (absent, comments+macro+other patterns, CRLF). After every step Git's own attribute lookup is asked about every name and must report filter=lfs for exactly the spec's set; attributes of unrelated patterns must be unchanged; re-running track must leave the file byte-identical.",
   "Git 2.39's check-attr is the authority on matching. Nested directories, invocation from sub-directories and --lockable are not yet modelled. Eight genuine defects are recorded in known_findings.jsonl, each matched on the observed cause.", "DESIGN.md §5 C19"),
 "C20": ("model_checking",
   "TLA+ model of hook and filter.lfs.* classes under install/update/uninstall (spec/Install.tla; NoDestroy and Idempotent checked by TLC as action properties); per-edge behaviours replayed with the real git-lfs in a private HOME; hook bytes and configuration classified and compared",
   "TLC explores every initial state with <=2 hooks/keys in a non-default class (8 hook classes incl. historical, re-indented, user script, user script containing the LFS line, LFS text + >1024 bytes padding + user tail; unset/current/historical/skip-smudge/custom values for the four keys) and every sequence of <=2 (thorough <=3, all four hooks) operations install [--force] [--skip-smudge], update [--force], uninstall. Replayed runs are judged on: a user-owned hook is byte-identical after any operation without --force, a custom filter.lfs.* value survives, a conflict is reported (non-zero exit) when a user hook or custom value stands in the way, a successful install repeated changes nothing, install + uninstall from a clean state leaves nothing behind; the classes the implementation model predicts are tracked as drift only.",
   "Global scope + one repository's hooks; --local/--worktree/--system/--file, core.hooksPath, symlinks, non-executable hooks and implicit installs not yet modelled. uninstall removing custom filter values is a recorded finding.", "DESIGN.md §5 C20"),
 "C11": ("exploration",
   "TLA+ model of configuration layering (spec/LfsConfig.tla: read sources, filter .lfsconfig to the documented allow-list, Git's configuration overlays; OnlyDocumented, GitWins, Independent checked by TLC) enumerated over key classes; per case the real git-lfs is observed through `git lfs env` and sentinel programs/listeners",
   "TLC enumerates the complete product of 33 key classes (the documented allow-list and every other family git-lfs or git reads: lfs.*, lfs.<url>.*, lfs.customtransfer.*, lfs.extension.*, remote.* incl. two-part and dotted-name forms, url.*.insteadof, filter.lfs.*, credential.helper, core.askpass, core.sshcommand, http.proxy, include.path) x {lower, mixed} spelling x .lfsconfig in {work tree, index only, HEAD only} x {only in .lfsconfig, also in Git's configuration}. For each case distinguishable values are planted in the two sources and the harness observes which one git-lfs acts on; a value from .lfsconfig may be acted on only for a documented key that Git's configuration does not set.",
   "Observation channels are `git lfs env` fields and sentinels exercised by a fixed command battery (clean, smudge, fetch, locks, ls-files, push --dry-run); a key whose effect none of these shows would be missed. Bare repositories and duplicated keys are not covered.", "DESIGN.md §5 C11"),
 "C10": ("model_checking",
   "TLA+ model of request / challenge / redirect handling (spec/HttpAuth.tla; Confined, NoDowngrade, ChainBounded checked by TLC, pinned-code transcription kept as a violating spec mutant); TLC-generated server scripts played to the real lfsapi.Client over four listeners; request logs validated by TLC against the acceptor HttpAuthTrace",
   "TLC explores every server behaviour of <=2 (thorough <=3) answers per identity over {https api, same host other port, other host, api host over http}, each answer 200 / 401 / redirect to any identity, x access mode {none, basic} x credential source {helper, URL userinfo}. Every finished behaviour's script is replayed against the real client; each request a listener receives is logged with the identity whose credentials its Authorization carries, and the acceptor rejects a log in which credentials reach another identity, an http request follows an https one, or a logical request takes more than 12 HTTP requests.",
   "Only batch API requests and 307 redirects are issued; storage/verify/lock requests use the same client path. netrc, askpass and multistage credential sources are not yet covered.", "DESIGN.md §5 C10"),
 "C16": ("model_checking",
   "TLA+ model of two users, their clones and the lock server (spec/Locking.tla; AtMostOneOwner, NoUnlockDirty, FreshAfterVerify checked by TLC); per-edge behaviours replayed with two real clones, the real git-lfs and the harness's lock server; lock table, cached own locks, write bits and command verdicts compared after every step",
   "TLC explores every sequence of <=4 (thorough <=6) commands of two users over two lockable paths: lock, unlock by path and by id with and without --force, locks --verify, a hook run, an edit, and a final commit + push with lock verification on. Replayed runs are judged on: the server's table equals the specification's (in particular a lock on a file with uncommitted changes or held by the other user is not released without --force), command verdicts (conflict, refusal), a granted lock is in the cached list and a released own lock is not, after --verify the cached list equals the user's own locks, write bits after lock / unlock / hook run, and a push modifying a path locked by the other user is rejected while own locks do not block it.",
   "Lock server answers are always well-formed (no 403/404/5xx/pagination faults yet); lfs.setlockablereadonly and locksverify are at true. `locks --verify` caching the other user's locks is a recorded finding that the pinned test-suite itself asserts.", "DESIGN.md §5 C16"),
 "C13": ("model_checking",
   "TLA+ model of fsck over the abstract repository (spec/Fsck.tla over Repo; IntactUntouched, MovedNotDeleted checked by TLC); per-edge behaviours ending in an fsck replayed with real git + git-lfs; reported objects / pointers, exit status and the object store before/after compared with the spec",
   "TLC explores every history of <=3 commits (thorough <=4) over canonical pointers, a non-canonical pointer, raw content at a tracked path and deletions, every damage of local objects (deleted, same-size corruption, truncated, extended, replaced by another object), and fsck with no flag / --objects / --pointers / --dry-run on HEAD or HEAD^..HEAD. Replayed runs must report exactly the missing and corrupt objects in scope and exactly as many pointer problems as the spec lists, exit 0 iff both sets are empty, move corrupt objects byte-identically to lfs/bad (unless --dry-run), and leave every other object untouched.",
   "Scope follows git-lfs-fsck(1): the tree of the checked commit (not its history). fetchexclude and index-only entries are not yet modelled; pointer problems are compared by count.", "DESIGN.md §5 C13"),
 "C04": ("model_checking",
   "TLA+ model of a second clone (spec/FetchCheckout.tla over Repo; NoClobber checked by TLC); per-edge behaviours ending in git lfs fetch / pull / checkout replayed with real git + git-lfs + fake server; work-tree classes, local store and verdict compared with the spec",
   "TLC explores published histories of <=3 commits (raw / pointer / deleted blobs), a server that lost objects, smudging and skip-smudge clones, every perturbation of tracked work-tree files (user edit, deletion, replacement by a pointer to another object), objects dropped from the clone's store, and a final fetch, pull or checkout. Replayed runs are judged on: the clone itself materialises content or pointers as specified, paths holding the user's edit / another pointer / ordinary content / already-smudged content are byte-identical afterwards, pointer or deleted files whose object is available end up with exactly the object's bytes, everything in local storage hashes to its name and the objects of the checked-out tree that the server holds are local after fetch/pull.",
   "fetchinclude/fetchexclude, -I/-X, reference stores, read-only files and git checkout driving the smudge filter are not yet modelled.", "DESIGN.md §5 C04"),
}

checks = []
for i in ids:
    if i not in CLAIMED: continue
    cat, tech, text, note, ref = CLAIMED[i]
    checks.append({
      "property_id": i,
      "quick_cmd": f"bin/check {i} --tier quick",
      "thorough_cmd": f"bin/check {i} --tier thorough",
      "evidence_file": f"/verif/evidence/{i}.json",
      "replay_cmd_template": f"bin/check {i} --replay {{path}}",
      "engine": "tlc+harness",
      "level_claimed": {"category": cat, "text": text, "design_ref": ref},
      "level_note": note,
      "technique": tech,
    })
na = [{"property_id": i, "reason": "check not built yet in this session (planned; see DESIGN.md §8 build order) — not claimed until its registered check exists and is seed-stable"} for i in ids if i not in CLAIMED]
m = {
 "version": 1,
 "setup_cmd": "bin/setup",
 "hooks": {"guard": "verif", "enable": "go build -tags verif (done by bin/check on every invocation, from /repo's working tree)",
           "baseline_off_cmd": "cd /repo && H=$(mktemp -d) && HOME=$H GIT_CONFIG_NOSYSTEM=1 GOPATH=/root/go GOCACHE=/root/.cache/go-build GOMODCACHE=/root/go/pkg/mod GOFLAGS=-mod=mod GOTOOLCHAIN=local go test -vet=off -count=1 -timeout 25m ./...; rc=$?; rm -rf $H; exit $rc",
           "source_commits": [l.strip() for l in open(os.path.join(ROOT, "hooks_commits.txt")) if l.strip()],
           "add_only": True},
 "engines": [{"name": "tlc+harness", "path": "/verif/harness", "serves_properties": [c["property_id"] for c in checks],
              "kind_free_text": "TLA+ specifications in /verif/spec checked/enumerated by TLC 1.8; Go orchestrator (harness/cmd/check) replays TLC-generated behaviours into the real code (library driver harness/cmd/lfsdrv, or the git-lfs binary) and validates recorded traces with TLC trace specs"}],
 "checks": checks,
 "not_applicable": na,
 "notes": "bin/check <ID> --tier quick|thorough; exit 0 held / 1 violation (VIOLATION line) / 2 infrastructure (no verdict). known_findings.jsonl lists fixed and recorded findings.",
}
json.dump(m, open(os.path.join(ROOT, "MANIFEST.json"), "w"), indent=1)
print("claimed", [c["property_id"] for c in checks])
