# sourced by every entry point: offline Go settings
export GOFLAGS=-mod=mod GOPROXY=off GOSUMDB=off GOTOOLCHAIN=local
export VERIF_ROOT=${VERIF_ROOT:-/verif}
export VERIF_REPO=${VERIF_REPO:-/repo}
