CONSTANTS
 Hooks = {"pre-push", "post-checkout", "post-commit", "post-merge"}
 Keys = {"clean", "smudge", "process", "required"}
Scopes = {"global", "local", "worktree"}
 MaxOps = 3
 MaxVaried = 2
 Emit = TRUE
SPECIFICATION Spec
VIEW View
PROPERTY NoDestroy
PROPERTY Idempotent
PROPERTY ScopeIsolation
ACTION_CONSTRAINT EmitEdge
CHECK_DEADLOCK FALSE
