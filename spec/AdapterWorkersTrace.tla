------------------------ MODULE AdapterWorkersTrace ------------------------
(***************************************************************************)
(* Acceptor for the trace lines the worker pool of a real transfer adapter *)
(* writes itself (tq/adapterbase.go, Trace(): "worker N waiting for Auth", *)
(* "auth signal received", "processing job", "finished job", "stopping"),  *)
(* in the order they reached the trace file, against the worker automaton  *)
(* of AdapterWorkers.tla.                                                  *)
(*                                                                         *)
(* Lines of different goroutines are ordered by the file only where the    *)
(* code orders them: a worker's "auth signal received" is written after    *)
(* worker 0 opened the gate, which worker 0 does inside a transfer it      *)
(* announced before ("processing job") or after the last job it finished.  *)
(* So: a worker other than 0 never processes a job before it passed the    *)
(* gate; it passes the gate only when worker 0 has begun a transfer the    *)
(* server answers well (mayOpen) or is not in the middle of one; every     *)
(* worker ends, and then - and only then - the wait for the queue returns. *)
(***************************************************************************)
EXTENDS Integers, Sequences, FiniteSets, TLC, Json, IOUtils

Trace == ndJsonDeserialize(IOEnv.TRACE)
VARIABLES l, n, st, job, mayOpen, ended
vars == <<l, n, st, job, mayOpen, ended>>
E == Trace[l]
Is(e) == l <= Len(Trace) /\ E.ev = e /\ l' = l + 1
W == 0..(n - 1)

Init == l = 1 /\ n = 0 /\ st = <<>> /\ job = <<>> /\ mayOpen = FALSE /\ ended = TRUE
Reset == /\ Is("reset") /\ ended /\ n' = E.workers
         /\ st' = [w \in 0..(E.workers - 1) |-> IF w = 0 THEN "loop" ELSE "new"]
         /\ job' = [w \in 0..(E.workers - 1) |-> ""] /\ mayOpen' = FALSE /\ ended' = FALSE
Wait == /\ Is("wait") /\ E.w \in W /\ E.w # 0 /\ st[E.w] = "new" /\ st' = [st EXCEPT ![E.w] = "waiting"]
        /\ UNCHANGED <<n, job, mayOpen, ended>>
Recv == /\ Is("recv") /\ E.w \in W /\ st[E.w] = "waiting" /\ (mayOpen \/ st[0] # "busy")
        /\ st' = [st EXCEPT ![E.w] = "loop"] /\ UNCHANGED <<n, job, mayOpen, ended>>
Proc == /\ Is("proc") /\ E.w \in W /\ st[E.w] = "loop"
        /\ st' = [st EXCEPT ![E.w] = "busy"] /\ job' = [job EXCEPT ![E.w] = E.oid]
        /\ mayOpen' = (mayOpen \/ (E.w = 0 /\ E.good))
        /\ UNCHANGED <<n, ended>>
Fin == /\ Is("fin") /\ E.w \in W /\ st[E.w] = "busy" /\ job[E.w] = E.oid
       /\ st' = [st EXCEPT ![E.w] = "loop"] /\ UNCHANGED <<n, job, mayOpen, ended>>
Stop == /\ Is("stop") /\ E.w \in W /\ st[E.w] = "loop" /\ st' = [st EXCEPT ![E.w] = "stopped"]
        /\ UNCHANGED <<n, job, mayOpen, ended>>
\* the wait for the queue returned, every object reported exactly once
\* (a queue nothing was added to never starts the pool: every worker is still where it began)
End == /\ Is("end") /\ ~ended /\ E.returned /\ E.once
       /\ \/ \A w \in W : st[w] = "stopped"
          \/ \A w \in W : st[w] = (IF w = 0 THEN "loop" ELSE "new")
       /\ ended' = TRUE /\ UNCHANGED <<n, st, job, mayOpen>>
Next == Reset \/ Wait \/ Recv \/ Proc \/ Fin \/ Stop \/ End
Spec == Init /\ [][Next]_vars
Accepted == TLCGet("stats").diameter - 1 = Len(Trace)
=============================================================================
