------------------------------ MODULE BatchStep ------------------------------
(***************************************************************************)
(* One run of the batch goroutine of TransferQueue.tla                     *)
(* (enqueueAndCollectRetriesFor + the result loop of addToAdapter) from    *)
(* every start state: any batch of distinct objects, any retry counts the  *)
(* objects may already carry, against every answer of the server and the   *)
(* adapter.  The actions are those of TransferQueue.tla, unchanged; only   *)
(* the initial state and the set of enabled processes differ.  TLC's       *)
(* finished runs are replayed one by one through the real function         *)
(* (tq.VerifBatchStep, build tag verif): a transition-level binding that   *)
(* does not depend on getting a schedule of the whole queue to line up     *)
(* (the queue's back-off keeps a fresh and a retried object apart in most  *)
(* sampled schedules, yet one failing batch may hold both).                *)
(***************************************************************************)
EXTENDS TransferQueue

VARIABLES batch0, rc0        \* the start of the run (never change)
svars == <<vars, batch0, rc0>>

Injective(s) == \A i, j \in DOMAIN s : i # j => s[i] # s[j]
Batches == {s \in UNION {[1..k -> Oids] : k \in 1..BatchSize} : Injective(s)}

StepInit ==
  /\ batch0 \in Batches
  /\ rc0 \in [Oids -> 0..MaxRetries] /\ \A o \in Oids : o \notin SeqToSet(batch0) => rc0[o] = 0
  /\ ppc = "idle" /\ pcur = (CHOOSE o \in Oids : TRUE) /\ nadds = MaxAdds
  /\ tr = [o \in Oids |-> [n |-> IF o \in SeqToSet(batch0) THEN 1 ELSE 0, completed |-> FALSE]]
  /\ wg = Len(batch0) /\ aborted = FALSE /\ panicked = FALSE
  /\ incoming = <<>> /\ incClosed = FALSE
  /\ cpc = "collect" /\ cnext = <<>> /\ cpending = <<>> /\ cclosing = FALSE
  /\ bpc = "call" /\ bbatch = batch0 /\ bxfer = {} /\ bretries = <<>> /\ berr = "none"
  /\ bjobs = {} /\ bresults = <<>> /\ bdeliver = <<>>
  /\ rc = rc0 /\ notReady = {}
  /\ watch = <<>> /\ delivered = [o \in Oids |-> 0] /\ errs = {} /\ attempts = [o \in Oids |-> 0]
  /\ terminal = {} /\ xferOk = {} /\ inflight = {}
  /\ sAdds = <<>> /\ sResp = EmptyPer /\ sAd = EmptyPer /\ sCall = EmptyPer

StepNext ==
  /\ \/ \E k \in BatchKinds : BatchFail(k)
     \/ BatchFailStep \/ BatchFailEnd
     \/ \E k \in RespKinds : BatchOkStep(k)
     \/ BatchDispatch
     \/ \E o \in Oids, k \in AdKinds : AdapterFinish(o, k)
     \/ HandleResult \/ Deliver \/ BatchEnd \/ Consume
  /\ UNCHANGED <<batch0, rc0>>
StepSpec == StepInit /\ [][StepNext]_svars

Finished == bpc = "finished"
InBatch(o) == o \in SeqToSet(batch0)
\* C06 at the level of one step: every object of the batch is either handed back for another
\* round or has exactly one terminal outcome; the wait counter is the number handed back
EachAccountedOnce == Finished => \A o \in Oids : InBatch(o) => ((o \in SeqToSet(bretries)) # (o \in terminal))
WaitIsOutstanding == (Finished /\ ~panicked /\ berr # "fatal") => wg = Len(bretries)
\* C15: nothing is handed back beyond its budget
WithinBudget      == \A o \in Oids : rc[o] <= MaxRetries

Out == [batch |-> batch0, rc0 |-> rc0, resp |-> sResp', ad |-> sAd', bcall |-> sCall',
        next |-> bretries', rc |-> rc', failed |-> errs', terminal |-> terminal', wg |-> wg',
        fatal |-> (berr' = "fatal"), later |-> notReady', transferred |-> xferOk']
EmitStep == (Emit /\ bpc' = "finished" /\ bpc # "finished") => CSVWrite("%1$s", <<ToJson(Out)>>, IOEnv.OUT)
=============================================================================
