---- MODULE HttpAuth_TTrace_1790902595 ----
EXTENDS Sequences, TLCExt, HttpAuth, Toolbox, Naturals, TLC

_expression ==
    LET HttpAuth_TEExpression == INSTANCE HttpAuth_TEExpression
    IN HttpAuth_TEExpression!expression
----

_trace ==
    LET HttpAuth_TETrace == INSTANCE HttpAuth_TETrace
    IN HttpAuth_TETrace!trace
----

_inv ==
    ~(
        TLCGet("level") = Len(_TETrace)
        /\
        access = ("basic")
        /\
        sawHttps = (TRUE)
        /\
        frames = (<<[host |-> "api2", creds |-> FALSE], [host |-> "api", creds |-> TRUE], [host |-> "api", creds |-> FALSE], [host |-> "api", creds |-> FALSE]>>)
        /\
        log = (<<[host |-> "api2", auth |-> "act", scheme |-> "https", hop |-> 0, afterHttps |-> FALSE], [host |-> "api", auth |-> "api", scheme |-> "https", hop |-> 1, afterHttps |-> TRUE], [host |-> "api", auth |-> "api", scheme |-> "https", hop |-> 2, afterHttps |-> TRUE]>>)
        /\
        acthost = ("api2")
        /\
        kind = ("storage")
        /\
        origHdr = ("act")
        /\
        source = ("helper")
        /\
        hlog = (<<<<"fill", "api">>>>)
        /\
        script = ([api |-> <<<<"redir", "api">>, <<"redir", "api">>>>, api2 |-> <<<<"redir", "api">>>>, other |-> <<>>, plain |-> <<>>])
        /\
        mode = ("basic")
        /\
        result = ("none")
        /\
        pc = ("send")
        /\
        hdr = ("api")
        /\
        host = ("api")
        /\
        hops = (3)
    )
----

_init ==
    /\ log = _TETrace[1].log
    /\ mode = _TETrace[1].mode
    /\ pc = _TETrace[1].pc
    /\ hdr = _TETrace[1].hdr
    /\ hops = _TETrace[1].hops
    /\ script = _TETrace[1].script
    /\ kind = _TETrace[1].kind
    /\ origHdr = _TETrace[1].origHdr
    /\ access = _TETrace[1].access
    /\ sawHttps = _TETrace[1].sawHttps
    /\ host = _TETrace[1].host
    /\ source = _TETrace[1].source
    /\ hlog = _TETrace[1].hlog
    /\ result = _TETrace[1].result
    /\ frames = _TETrace[1].frames
    /\ acthost = _TETrace[1].acthost
----

_next ==
    /\ \E i,j \in DOMAIN _TETrace:
        /\ \/ /\ j = i + 1
              /\ i = TLCGet("level")
        /\ log  = _TETrace[i].log
        /\ log' = _TETrace[j].log
        /\ mode  = _TETrace[i].mode
        /\ mode' = _TETrace[j].mode
        /\ pc  = _TETrace[i].pc
        /\ pc' = _TETrace[j].pc
        /\ hdr  = _TETrace[i].hdr
        /\ hdr' = _TETrace[j].hdr
        /\ hops  = _TETrace[i].hops
        /\ hops' = _TETrace[j].hops
        /\ script  = _TETrace[i].script
        /\ script' = _TETrace[j].script
        /\ kind  = _TETrace[i].kind
        /\ kind' = _TETrace[j].kind
        /\ origHdr  = _TETrace[i].origHdr
        /\ origHdr' = _TETrace[j].origHdr
        /\ access  = _TETrace[i].access
        /\ access' = _TETrace[j].access
        /\ sawHttps  = _TETrace[i].sawHttps
        /\ sawHttps' = _TETrace[j].sawHttps
        /\ host  = _TETrace[i].host
        /\ host' = _TETrace[j].host
        /\ source  = _TETrace[i].source
        /\ source' = _TETrace[j].source
        /\ hlog  = _TETrace[i].hlog
        /\ hlog' = _TETrace[j].hlog
        /\ result  = _TETrace[i].result
        /\ result' = _TETrace[j].result
        /\ frames  = _TETrace[i].frames
        /\ frames' = _TETrace[j].frames
        /\ acthost  = _TETrace[i].acthost
        /\ acthost' = _TETrace[j].acthost

\* Uncomment the ASSUME below to write the states of the error trace
\* to the given file in Json format. Note that you can pass any tuple
\* to `JsonSerialize`. For example, a sub-sequence of _TETrace.
    \* ASSUME
    \*     LET J == INSTANCE Json
    \*         IN J!JsonSerialize("HttpAuth_TTrace_1790902595.json", _TETrace)

=============================================================================

 Note that you can extract this module `HttpAuth_TEExpression`
  to a dedicated file to reuse `expression` (the module in the 
  dedicated `HttpAuth_TEExpression.tla` file takes precedence 
  over the module `HttpAuth_TEExpression` below).

---- MODULE HttpAuth_TEExpression ----
EXTENDS Sequences, TLCExt, HttpAuth, Toolbox, Naturals, TLC

expression == 
    [
        \* To hide variables of the `HttpAuth` spec from the error trace,
        \* remove the variables below.  The trace will be written in the order
        \* of the fields of this record.
        log |-> log
        ,mode |-> mode
        ,pc |-> pc
        ,hdr |-> hdr
        ,hops |-> hops
        ,script |-> script
        ,kind |-> kind
        ,origHdr |-> origHdr
        ,access |-> access
        ,sawHttps |-> sawHttps
        ,host |-> host
        ,source |-> source
        ,hlog |-> hlog
        ,result |-> result
        ,frames |-> frames
        ,acthost |-> acthost
        
        \* Put additional constant-, state-, and action-level expressions here:
        \* ,_stateNumber |-> _TEPosition
        \* ,_logUnchanged |-> log = log'
        
        \* Format the `log` variable as Json value.
        \* ,_logJson |->
        \*     LET J == INSTANCE Json
        \*     IN J!ToJson(log)
        
        \* Lastly, you may build expressions over arbitrary sets of states by
        \* leveraging the _TETrace operator.  For example, this is how to
        \* count the number of times a spec variable changed up to the current
        \* state in the trace.
        \* ,_logModCount |->
        \*     LET F[s \in DOMAIN _TETrace] ==
        \*         IF s = 1 THEN 0
        \*         ELSE IF _TETrace[s].log # _TETrace[s-1].log
        \*             THEN 1 + F[s-1] ELSE F[s-1]
        \*     IN F[_TEPosition - 1]
    ]

=============================================================================



Parsing and semantic processing can take forever if the trace below is long.
 In this case, it is advised to uncomment the module below to deserialize the
 trace from a generated binary file.

\*
\*---- MODULE HttpAuth_TETrace ----
\*EXTENDS IOUtils, HttpAuth, TLC
\*
\*trace == IODeserialize("HttpAuth_TTrace_1790902595.bin", TRUE)
\*
\*=============================================================================
\*

---- MODULE HttpAuth_TETrace ----
EXTENDS HttpAuth, TLC

trace == 
    <<
    ([access |-> "basic",sawHttps |-> FALSE,frames |-> <<>>,log |-> <<>>,acthost |-> "api2",kind |-> "storage",origHdr |-> "act",source |-> "helper",hlog |-> <<>>,script |-> [api |-> <<>>, api2 |-> <<>>, other |-> <<>>, plain |-> <<>>],mode |-> "basic",result |-> "none",pc |-> "start",hdr |-> "none",host |-> "api",hops |-> 0]),
    ([access |-> "basic",sawHttps |-> FALSE,frames |-> <<[host |-> "api2", creds |-> FALSE]>>,log |-> <<>>,acthost |-> "api2",kind |-> "storage",origHdr |-> "act",source |-> "helper",hlog |-> <<>>,script |-> [api |-> <<>>, api2 |-> <<>>, other |-> <<>>, plain |-> <<>>],mode |-> "basic",result |-> "none",pc |-> "send",hdr |-> "act",host |-> "api2",hops |-> 0]),
    ([access |-> "basic",sawHttps |-> TRUE,frames |-> <<[host |-> "api2", creds |-> FALSE]>>,log |-> <<[host |-> "api2", auth |-> "act", scheme |-> "https", hop |-> 0, afterHttps |-> FALSE]>>,acthost |-> "api2",kind |-> "storage",origHdr |-> "act",source |-> "helper",hlog |-> <<>>,script |-> [api |-> <<>>, api2 |-> <<>>, other |-> <<>>, plain |-> <<>>],mode |-> "basic",result |-> "none",pc |-> "wait",hdr |-> "act",host |-> "api2",hops |-> 0]),
    ([access |-> "basic",sawHttps |-> TRUE,frames |-> <<[host |-> "api2", creds |-> FALSE], [host |-> "api", creds |-> TRUE]>>,log |-> <<[host |-> "api2", auth |-> "act", scheme |-> "https", hop |-> 0, afterHttps |-> FALSE]>>,acthost |-> "api2",kind |-> "storage",origHdr |-> "act",source |-> "helper",hlog |-> <<<<"fill", "api">>>>,script |-> [api |-> <<>>, api2 |-> <<<<"redir", "api">>>>, other |-> <<>>, plain |-> <<>>],mode |-> "basic",result |-> "none",pc |-> "send",hdr |-> "api",host |-> "api",hops |-> 1]),
    ([access |-> "basic",sawHttps |-> TRUE,frames |-> <<[host |-> "api2", creds |-> FALSE], [host |-> "api", creds |-> TRUE]>>,log |-> <<[host |-> "api2", auth |-> "act", scheme |-> "https", hop |-> 0, afterHttps |-> FALSE], [host |-> "api", auth |-> "api", scheme |-> "https", hop |-> 1, afterHttps |-> TRUE]>>,acthost |-> "api2",kind |-> "storage",origHdr |-> "act",source |-> "helper",hlog |-> <<<<"fill", "api">>>>,script |-> [api |-> <<>>, api2 |-> <<<<"redir", "api">>>>, other |-> <<>>, plain |-> <<>>],mode |-> "basic",result |-> "none",pc |-> "wait",hdr |-> "api",host |-> "api",hops |-> 1]),
    ([access |-> "basic",sawHttps |-> TRUE,frames |-> <<[host |-> "api2", creds |-> FALSE], [host |-> "api", creds |-> TRUE], [host |-> "api", creds |-> FALSE]>>,log |-> <<[host |-> "api2", auth |-> "act", scheme |-> "https", hop |-> 0, afterHttps |-> FALSE], [host |-> "api", auth |-> "api", scheme |-> "https", hop |-> 1, afterHttps |-> TRUE]>>,acthost |-> "api2",kind |-> "storage",origHdr |-> "act",source |-> "helper",hlog |-> <<<<"fill", "api">>>>,script |-> [api |-> <<<<"redir", "api">>>>, api2 |-> <<<<"redir", "api">>>>, other |-> <<>>, plain |-> <<>>],mode |-> "basic",result |-> "none",pc |-> "send",hdr |-> "api",host |-> "api",hops |-> 2]),
    ([access |-> "basic",sawHttps |-> TRUE,frames |-> <<[host |-> "api2", creds |-> FALSE], [host |-> "api", creds |-> TRUE], [host |-> "api", creds |-> FALSE]>>,log |-> <<[host |-> "api2", auth |-> "act", scheme |-> "https", hop |-> 0, afterHttps |-> FALSE], [host |-> "api", auth |-> "api", scheme |-> "https", hop |-> 1, afterHttps |-> TRUE], [host |-> "api", auth |-> "api", scheme |-> "https", hop |-> 2, afterHttps |-> TRUE]>>,acthost |-> "api2",kind |-> "storage",origHdr |-> "act",source |-> "helper",hlog |-> <<<<"fill", "api">>>>,script |-> [api |-> <<<<"redir", "api">>>>, api2 |-> <<<<"redir", "api">>>>, other |-> <<>>, plain |-> <<>>],mode |-> "basic",result |-> "none",pc |-> "wait",hdr |-> "api",host |-> "api",hops |-> 2]),
    ([access |-> "basic",sawHttps |-> TRUE,frames |-> <<[host |-> "api2", creds |-> FALSE], [host |-> "api", creds |-> TRUE], [host |-> "api", creds |-> FALSE], [host |-> "api", creds |-> FALSE]>>,log |-> <<[host |-> "api2", auth |-> "act", scheme |-> "https", hop |-> 0, afterHttps |-> FALSE], [host |-> "api", auth |-> "api", scheme |-> "https", hop |-> 1, afterHttps |-> TRUE], [host |-> "api", auth |-> "api", scheme |-> "https", hop |-> 2, afterHttps |-> TRUE]>>,acthost |-> "api2",kind |-> "storage",origHdr |-> "act",source |-> "helper",hlog |-> <<<<"fill", "api">>>>,script |-> [api |-> <<<<"redir", "api">>, <<"redir", "api">>>>, api2 |-> <<<<"redir", "api">>>>, other |-> <<>>, plain |-> <<>>],mode |-> "basic",result |-> "none",pc |-> "send",hdr |-> "api",host |-> "api",hops |-> 3])
    >>
----


=============================================================================

---- CONFIG HttpAuth_TTrace_1790902595 ----
CONSTANTS
    Hosts = { "api" , "api2" , "other" , "plain" }
    MaxPerHost = 3
    MaxHops = 3
    Cut = 40
    Kinds = { "api" , "storage" }
    ActHosts = { "api" , "api2" , "other" }
    Fixed = FALSE
    Emit = FALSE
    CredSources = { "helper" , "urluser" }

INVARIANT
    _inv

CHECK_DEADLOCK
    \* CHECK_DEADLOCK off because of PROPERTY or INVARIANT above.
    FALSE

INIT
    _init

NEXT
    _next

CONSTANT
    _TETrace <- _trace

ALIAS
    _expression
=============================================================================
\* Generated on Fri Oct 02 00:56:37 UTC 2026