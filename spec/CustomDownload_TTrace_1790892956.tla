---- MODULE CustomDownload_TTrace_1790892956 ----
EXTENDS Sequences, TLCExt, CustomDownload, Toolbox, Naturals, TLC

_expression ==
    LET CustomDownload_TEExpression == INSTANCE CustomDownload_TEExpression
    IN CustomDownload_TEExpression!expression
----

_trace ==
    LET CustomDownload_TETrace == INSTANCE CustomDownload_TETrace
    IN CustomDownload_TETrace!trace
----

_inv ==
    ~(
        TLCGet("level") = Len(_TETrace)
        /\
        result = ("ok")
        /\
        pc = ("done")
        /\
        final = ("corrupt")
        /\
        script = (<<[ev |-> "complete", oid |-> "right", err |-> FALSE, file |-> "prefix"]>>)
    )
----

_init ==
    /\ final = _TETrace[1].final
    /\ pc = _TETrace[1].pc
    /\ script = _TETrace[1].script
    /\ result = _TETrace[1].result
----

_next ==
    /\ \E i,j \in DOMAIN _TETrace:
        /\ \/ /\ j = i + 1
              /\ i = TLCGet("level")
        /\ final  = _TETrace[i].final
        /\ final' = _TETrace[j].final
        /\ pc  = _TETrace[i].pc
        /\ pc' = _TETrace[j].pc
        /\ script  = _TETrace[i].script
        /\ script' = _TETrace[j].script
        /\ result  = _TETrace[i].result
        /\ result' = _TETrace[j].result

\* Uncomment the ASSUME below to write the states of the error trace
\* to the given file in Json format. Note that you can pass any tuple
\* to `JsonSerialize`. For example, a sub-sequence of _TETrace.
    \* ASSUME
    \*     LET J == INSTANCE Json
    \*         IN J!JsonSerialize("CustomDownload_TTrace_1790892956.json", _TETrace)

=============================================================================

 Note that you can extract this module `CustomDownload_TEExpression`
  to a dedicated file to reuse `expression` (the module in the 
  dedicated `CustomDownload_TEExpression.tla` file takes precedence 
  over the module `CustomDownload_TEExpression` below).

---- MODULE CustomDownload_TEExpression ----
EXTENDS Sequences, TLCExt, CustomDownload, Toolbox, Naturals, TLC

expression == 
    [
        \* To hide variables of the `CustomDownload` spec from the error trace,
        \* remove the variables below.  The trace will be written in the order
        \* of the fields of this record.
        final |-> final
        ,pc |-> pc
        ,script |-> script
        ,result |-> result
        
        \* Put additional constant-, state-, and action-level expressions here:
        \* ,_stateNumber |-> _TEPosition
        \* ,_finalUnchanged |-> final = final'
        
        \* Format the `final` variable as Json value.
        \* ,_finalJson |->
        \*     LET J == INSTANCE Json
        \*     IN J!ToJson(final)
        
        \* Lastly, you may build expressions over arbitrary sets of states by
        \* leveraging the _TETrace operator.  For example, this is how to
        \* count the number of times a spec variable changed up to the current
        \* state in the trace.
        \* ,_finalModCount |->
        \*     LET F[s \in DOMAIN _TETrace] ==
        \*         IF s = 1 THEN 0
        \*         ELSE IF _TETrace[s].final # _TETrace[s-1].final
        \*             THEN 1 + F[s-1] ELSE F[s-1]
        \*     IN F[_TEPosition - 1]
    ]

=============================================================================



Parsing and semantic processing can take forever if the trace below is long.
 In this case, it is advised to uncomment the module below to deserialize the
 trace from a generated binary file.

\*
\*---- MODULE CustomDownload_TETrace ----
\*EXTENDS IOUtils, CustomDownload, TLC
\*
\*trace == IODeserialize("CustomDownload_TTrace_1790892956.bin", TRUE)
\*
\*=============================================================================
\*

---- MODULE CustomDownload_TETrace ----
EXTENDS CustomDownload, TLC

trace == 
    <<
    ([result |-> "none",pc |-> "reading",final |-> "none",script |-> <<>>]),
    ([result |-> "ok",pc |-> "done",final |-> "corrupt",script |-> <<[ev |-> "complete", oid |-> "right", err |-> FALSE, file |-> "prefix"]>>])
    >>
----


=============================================================================

---- CONFIG CustomDownload_TTrace_1790892956 ----
CONSTANTS
    MaxMsgs = 3
    Emit = FALSE
    Verify = FALSE

INVARIANT
    _inv

CHECK_DEADLOCK
    \* CHECK_DEADLOCK off because of PROPERTY or INVARIANT above.
    FALSE

INIT
    _init

NEXT
    _next

CONSTANT
    _TETrace <- _trace

ALIAS
    _expression
=============================================================================
\* Generated on Thu Oct 01 22:15:59 UTC 2026