CONSTANTS
 Hosts = {"api", "api2", "other", "plain"}
 MaxPerHost = 2
 MaxHops = 3
 MaxAuth = 3
 Fixed = TRUE
 Emit = FALSE
 CredSources = {"helper", "urluser"}
SPECIFICATION Spec
VIEW View
INVARIANT Confined
INVARIANT NoDowngrade
INVARIANT ChainBounded
ACTION_CONSTRAINT EmitEdge
CHECK_DEADLOCK FALSE
