---------------------------- MODULE FileDownload ----------------------------
(***************************************************************************)
(* C02 for the standalone file transfer agent (`git-lfs standalone-file`,  *)
(* lfshttp/standalone: the transfer adapter of file:// remotes) together   *)
(* with the custom adapter that drives it (tq/custom.go).  Both ends are   *)
(* git-lfs code, so the only free variable is what sits in the remote      *)
(* repository's lfs/objects under the object's name, and what sits at the  *)
(* object's final place locally beforehand (with --refetch a download is   *)
(* made although a file is there).                                         *)
(*   remote  "exact" | "flip" (same size, other bytes) | "prefix" |        *)
(*           "extra" | "missing"                                           *)
(*   final   "none" | "valid" | "stale" (same size, other bytes, there     *)
(*           before) | "corrupt"                                           *)
(* The agent hands git-lfs a copy (or link) of the remote file; git-lfs    *)
(* hashes it before it may reach the final place.  Verify = FALSE is the   *)
(* variant that lets the copy reach the final place first; it must violate *)
(* FailLeavesNoFinal.                                                      *)
(***************************************************************************)
EXTENDS Integers, Sequences, FiniteSets, TLC, Json, CSV, IOUtils

CONSTANTS Remotes, Finals, Emit, Verify

VARIABLES remote, final0, final, result
vars == <<remote, final0, final, result>>

Init == remote \in Remotes /\ final0 \in Finals /\ final = (IF final0 = "stale" THEN "stale" ELSE "none") /\ result = "none"

Download ==
  /\ result = "none"
  /\ IF remote = "exact" THEN result' = "ok" /\ final' = "valid"
     ELSE /\ result' = "fail"
          /\ final' = IF Verify \/ remote = "missing" THEN final ELSE "corrupt"    \* without the check first, the copy is already in place
  /\ UNCHANGED <<remote, final0>>

Next == Download
Spec == Init /\ [][Next]_vars

OkMeansValid      == result = "ok" => final = "valid"
FailLeavesNoFinal == result = "fail" => final = (IF final0 = "stale" THEN "stale" ELSE "none")
FinalOnlyValid    == final \in {"none", "stale", "valid"}

Out == [remote |-> remote, final0 |-> final0, result |-> result', finalValid |-> (final' = "valid")]
EmitEdge == (Emit /\ result' # "none" /\ result = "none") => CSVWrite("%1$s", <<ToJson(Out)>>, IOEnv.OUT)
=============================================================================
