CONSTANTS
 Keys <- KeysAll
 Spellings <- SpellAll
 Locations <- LocAll
 Emit = TRUE
SPECIFICATION Spec
INVARIANT OnlyDocumented
INVARIANT GitWins
INVARIANT Independent
CONSTRAINT EmitState
CHECK_DEADLOCK FALSE
