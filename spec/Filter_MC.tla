----------------------------- MODULE Filter_MC -----------------------------
EXTENDS Filter
D(n, l)        == [name |-> n, kind |-> "data", len |-> l, wf |-> FALSE]
P(n, l, wf)    == [name |-> n, kind |-> "ptr",  len |-> l, wf |-> wf]
\* blank_*: nothing but white space (what a trim-happy pointer parser reduces to the empty input)
DataQuick == { D("empty", 0), D("one", 1), D("blank_nl", 1), D("blank_mix", 8), D("blank1023", 1023), D("text200", 200), D("bin1023", 1023), D("bin1024", 1024), D("bin1025", 1025),
               D("bin5000", 5000), D("bin65515", 65515), D("bin65516", 65516), D("bin65517", 65517), D("bin131032", 131032) }
PtrQuick  == { P("ptr_canon", 130, TRUE), P("ptr_crlf", 133, TRUE), P("ptr_pad1023", 1023, TRUE),
               P("ptr_pad1024", 1024, TRUE), P("ptr_pad1025", 1025, TRUE), P("ptr_ext_dash", 320, TRUE),
               P("ptr_plus_byte", 131, FALSE), P("ptr_plus_line", 140, FALSE), P("ptr_plus_64k", 66000, FALSE),
               P("ptr_then_data_1500", 1500, FALSE), P("ptr_upper_oid", 130, FALSE),
               \* look-alikes whose oid or size value is not one the format allows (no reading of them is a pointer)
               P("ptr_short_oid", 129, FALSE), P("ptr_md5_oid", 127, FALSE), P("ptr_neg_size", 131, FALSE), P("ptr_nonnum_size", 130, FALSE) }
MergeQuick == { [name |-> "merged_text", kind |-> "merge", len |-> 9000, wf |-> FALSE] }
ContentsQuick    == DataQuick \cup PtrQuick \cup MergeQuick
ContentsThorough == ContentsQuick \cup { D("bin4m", 4194304), D("bin1m1", 1048577), P("ptr_ext", 300, TRUE), P("ptr_legacy", 128, TRUE) }
DeliveriesAll == {"whole", "split1", "split_mid", "split1023", "split1024", "split1025", "bytes1", "pkt1", "pkt7", "pkt1024", "pktmax"}
FrontEndsAll  == {"oneshot", "process", "gitadd", "mergedriver"}
ExtsAll       == {"none", "rot13", "gzip", "base64", "rot13+gzip"}
PrevsAll      == {"none", "empty", "shortdata", "ptr"}
WtAll         == {"none", "same", "shorter", "longer", "pointer"}
=============================================================================
