CONSTANTS
 Keys <- KeysAll
 Neighbours <- NeighAll
 Spellings <- SpellAll
 Locations <- LocAll
 MaxBefore = 1
 MaxAfter = 1
 Thin = TRUE
 Stateful = TRUE
 Forms = {"plain", "access-suffix"}
 PrefixMatch = FALSE
 Emit = FALSE
SPECIFICATION Spec
INVARIANT OnlyDocumented
INVARIANT GitWins
INVARIANT Independent
CONSTRAINT EmitState
CHECK_DEADLOCK FALSE
