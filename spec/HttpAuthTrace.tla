--------------------------- MODULE HttpAuthTrace ---------------------------
(***************************************************************************)
(* Acceptor for the request logs of the four listeners (verdict layer of   *)
(* C10).  One line per request a server received: the receiving identity,  *)
(* its scheme, and whose credentials the Authorization header carried.     *)
(*   Confined      credentials only reach the identity they belong to      *)
(*   NoDowngrade   no http request once the chain has used https           *)
(*   ChainBounded  at most Bound consecutive redirect hops; a 401 starts   *)
(*                 a new chain (re-authentication is not a hop)            *)
(*   HelperSound   approve/reject only for identities the helper filled    *)
(***************************************************************************)
EXTENDS Integers, Sequences, TLC, Json, IOUtils

Trace == ndJsonDeserialize(IOEnv.TRACE)
Bound == 10     \* "a small fixed number of hops": the code stops at 2, net/http at 10; the driver cuts an endless chain at 50 requests

VARIABLES l, n, sawHttps, filled, acthost     \* acthost: the identity whose batch action handed out the value "act" (storage runs)
vars == <<l, n, sawHttps, filled, acthost>>
E == Trace[l]
Is(e) == l <= Len(Trace) /\ E.ev = e /\ l' = l + 1

Init  == l = 1 /\ n = 0 /\ sawHttps = FALSE /\ filled = {} /\ acthost = "api"
Reset == Is("reset") /\ n' = 0 /\ sawHttps' = FALSE /\ filled' = {} /\ acthost' = E.acthost
Req   == /\ Is("req")
         /\ (E.auth \in {"none", E.host} \/ (E.auth = "act" /\ E.host = acthost))   \* Confined
         /\ LET chained == E.after = "redir" IN
            /\ (E.scheme = "http" /\ chained => ~sawHttps)               \* NoDowngrade
            /\ n' = (IF chained THEN n + 1 ELSE 0) /\ n' <= Bound        \* ChainBounded
            /\ sawHttps' = ((chained /\ sawHttps) \/ E.scheme = "https")
         /\ UNCHANGED <<filled, acthost>>
Fill  == Is("fill") /\ filled' = filled \cup {E.host} /\ UNCHANGED <<n, sawHttps, acthost>>
Judge == (Is("approve") \/ Is("reject")) /\ E.host \in filled /\ UNCHANGED <<n, sawHttps, filled, acthost>>   \* HelperSound
Done  == Is("done") /\ UNCHANGED <<n, sawHttps, filled, acthost>>
Next  == Reset \/ Req \/ Fill \/ Judge \/ Done
Spec  == Init /\ [][Next]_vars
Accepted == TLCGet("stats").diameter - 1 = Len(Trace)
=============================================================================
