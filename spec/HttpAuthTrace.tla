--------------------------- MODULE HttpAuthTrace ---------------------------
(***************************************************************************)
(* Acceptor for the request logs of the four listeners (verdict layer of   *)
(* C10).  One line per request a server received: the receiving identity,  *)
(* its scheme, and whose credentials the Authorization header carried.     *)
(*   Confined      credentials only reach the identity they belong to      *)
(*   NoDowngrade   no http request once the chain has used https           *)
(*   ChainBounded  at most Bound requests per logical request              *)
(***************************************************************************)
EXTENDS Integers, Sequences, TLC, Json, IOUtils

Trace == ndJsonDeserialize(IOEnv.TRACE)
Bound == 12     \* 1 + 3 redirect hops + 3 authentication attempts, doubled once by the access-mode upgrade

VARIABLES l, n, sawHttps
vars == <<l, n, sawHttps>>
E == Trace[l]
Is(e) == l <= Len(Trace) /\ E.ev = e /\ l' = l + 1

Init  == l = 1 /\ n = 0 /\ sawHttps = FALSE
Reset == Is("reset") /\ n' = 0 /\ sawHttps' = FALSE
Req   == /\ Is("req")
         /\ E.auth \in {"none", E.host}                 \* Confined
         /\ (E.scheme = "http" => ~sawHttps)            \* NoDowngrade
         /\ n' = n + 1 /\ n' <= Bound                   \* ChainBounded
         /\ sawHttps' = (sawHttps \/ E.scheme = "https")
Done  == Is("done") /\ UNCHANGED <<n, sawHttps>>
Next  == Reset \/ Req \/ Done
Spec  == Init /\ [][Next]_vars
Accepted == TLCGet("stats").diameter - 1 = Len(Trace)
=============================================================================
