CONSTANTS
 Hooks = {"pre-push", "post-checkout"}
 Keys = {"clean", "smudge", "process", "required"}
Scopes = {"global", "local", "worktree"}
 MaxOps = 2
 MaxVaried = 2
 Emit = TRUE
SPECIFICATION Spec
VIEW View
PROPERTY NoDestroy
PROPERTY Idempotent
PROPERTY ScopeIsolation
ACTION_CONSTRAINT EmitEdge
CHECK_DEADLOCK FALSE
