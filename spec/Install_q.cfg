CONSTANTS
 Hooks = {"pre-push", "post-checkout"}
 Keys = {"clean", "smudge", "process", "required"}
 MaxOps = 2
 MaxVaried = 2
 Emit = TRUE
SPECIFICATION Spec
VIEW View
PROPERTY NoDestroy
PROPERTY Idempotent
ACTION_CONSTRAINT EmitEdge
CHECK_DEADLOCK FALSE
