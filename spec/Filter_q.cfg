CONSTANTS
 Contents <- ContentsQuick
 Deliveries <- DeliveriesAll
 FrontEnds <- FrontEndsAll
 WtStates <- WtAll
 Exts <- ExtsAll
 Prevs <- PrevsAll
 Emit = TRUE
SPECIFICATION Spec
INVARIANT NoPointerToPointer
INVARIANT LookAlikeIsContent
CONSTRAINT EmitState
CHECK_DEADLOCK FALSE
