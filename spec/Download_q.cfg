CONSTANTS
 MaxReq = 2
 Parts = {"absent", "prefix", "garbage", "almost", "longer"}
 Finals = {"absent", "stale"}
 Emit = FALSE
SPECIFICATION Spec
INVARIANT OkMeansValid
INVARIANT FailLeavesNoFinal
INVARIANT FinalOnlyValid
ACTION_CONSTRAINT EmitEdge
CHECK_DEADLOCK FALSE
