CONSTANTS
 Oids = {"a","b","c"}
 MaxAdds = 3
 BatchSize = 2
 MaxRetries = 1
 Fixed = TRUE
 Emit = FALSE
 RespKinds = {"action","noaction"}
 AdKinds = {"ok","retriable"}
 BatchKinds = {"ok","retriable","later"}
SPECIFICATION Spec
VIEW View
INVARIANT NoPanic
INVARIANT DeadlockFree
INVARIANT WgMatches
INVARIANT Conservation
INVARIANT NoPhantom
INVARIANT Budget
INVARIANT NoOverlap
INVARIANT NotBeforeReady
ACTION_CONSTRAINT EmitEdge
CHECK_DEADLOCK FALSE
