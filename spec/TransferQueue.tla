---------------------------- MODULE TransferQueue ----------------------------
(***************************************************************************)
(* Implementation-shaped model of tq.TransferQueue (tq/transfer_queue.go). *)
(*                                                                         *)
(* Processes: the producer (caller of Add / Wait), the collector           *)
(* goroutine (collectBatches + collectPendingUntil), the batch goroutine   *)
(* (enqueueAndCollectRetriesFor + the result loop of addToAdapter), the    *)
(* adapter workers (environment), the watcher consumer (caller side).      *)
(* One action per channel operation / critical section of the code.        *)
(*                                                                         *)
(* The environment (LFS server answering the batch call, the transfer      *)
(* adapter) chooses nondeterministically among all answer kinds.           *)
(*                                                                         *)
(* Fixed = TRUE is the behaviour of the tree after the repairs recorded in *)
(* known_findings.jsonl (each requested object of a batch is accounted     *)
(* exactly once; the collector keeps draining after an abort).             *)
(* Fixed = FALSE transcribes the code as pinned and is kept as the         *)
(* non-vacuity witness: TLC must find NoPanic / DeadlockFree violated.     *)
(***************************************************************************)
EXTENDS Integers, Sequences, FiniteSets, TLC, Json, CSV, IOUtils

CONSTANTS Oids,        \* object ids
          MaxAdds,     \* number of Add calls the producer may make
          BatchSize,   \* lfs.transfer.batchsize (= channel buffer depth)
          MaxRetries,  \* lfs.transfer.maxretries
          Fixed,
          RespKinds,   \* per-object answers in a 200 batch response
          AdKinds,     \* adapter outcomes per attempt
          BatchKinds,  \* outcomes of the batch call as a whole
          Emit         \* TRUE: write the environment script of every finished run

VARIABLES ppc, pcur, nadds,                    \* producer
          tr,                                  \* oid -> [n, completed]   (q.transfers)
          wg, aborted, panicked,               \* abortableWaitGroup
          incoming, incClosed,                 \* q.incoming
          cpc, cnext, cpending, cclosing,      \* collector
          bpc, bbatch, bxfer, bretries, berr,  \* batch goroutine
          bjobs, bresults, bdeliver,           \* adapter + result loop
          rc, notReady,                        \* retry counter, retry-later marks
          watch, delivered, errs, attempts, terminal, xferOk, inflight,
          sAdds, sResp, sAd, sCall             \* history: the environment script (sCall: outcomes of the batch calls, keyed by the first oid of the batch)

ctl  == <<ppc, pcur, nadds, tr, wg, aborted, panicked, incoming, incClosed, cpc, cnext, cpending, cclosing,
          bpc, bbatch, bxfer, bretries, berr, bjobs, bresults, bdeliver, rc, notReady,
          watch, delivered, errs, attempts, terminal, xferOk, inflight>>
hist == <<sAdds, sResp, sAd, sCall>>
vars == <<ctl, hist>>
View == ctl

SeqToSet(s) == {s[i] : i \in DOMAIN s}
EmptyPer == [o \in Oids |-> <<>>]

Init ==
  /\ ppc = "idle" /\ pcur = (CHOOSE o \in Oids : TRUE) /\ nadds = 0
  /\ tr = [o \in Oids |-> [n |-> 0, completed |-> FALSE]]
  /\ wg = 0 /\ aborted = FALSE /\ panicked = FALSE
  /\ incoming = <<>> /\ incClosed = FALSE
  /\ cpc = "fill" /\ cnext = <<>> /\ cpending = <<>> /\ cclosing = FALSE
  /\ bpc = "idle" /\ bbatch = <<>> /\ bxfer = {} /\ bretries = <<>> /\ berr = "none"
  /\ bjobs = {} /\ bresults = <<>> /\ bdeliver = <<>>
  /\ rc = [o \in Oids |-> 0] /\ notReady = {}
  /\ watch = <<>> /\ delivered = [o \in Oids |-> 0] /\ errs = {} /\ attempts = [o \in Oids |-> 0]
  /\ terminal = {} /\ xferOk = {} /\ inflight = {}
  /\ sAdds = <<>> /\ sResp = EmptyPer /\ sAd = EmptyPer /\ sCall = EmptyPer

\* abortableWaitGroup.Done(): under mu; no-op once aborted; a negative
\* counter is the runtime panic "sync: negative WaitGroup counter".
WgDone == /\ wg' = IF aborted THEN wg ELSE wg - 1
          /\ panicked' = (panicked \/ (~aborted /\ wg - 1 < 0))

CanRetry(o) == rc[o] < MaxRetries       \* retryCounter.CanRetry

-----------------------------------------------------------------------------
\* Producer: Add(oid) = remember (trMutex) ; then incoming<-t | watcher sends | return
UNCH_P == UNCHANGED <<cpc, cnext, cpending, cclosing, bpc, bbatch, bxfer, bretries, berr, bjobs, bresults, bdeliver,
                      rc, notReady, delivered, errs, attempts, terminal, xferOk, inflight, sResp, sAd, sCall>>

AddBegin(o) ==
  /\ ppc = "idle" /\ nadds < MaxAdds /\ ~panicked
  /\ nadds' = nadds + 1 /\ pcur' = o /\ sAdds' = Append(sAdds, o)
  /\ IF tr[o].n = 0
       THEN /\ tr' = [tr EXCEPT ![o].n = 1]
            /\ wg' = IF aborted THEN wg ELSE wg + 1
            /\ ppc' = "send"
       ELSE /\ tr' = [tr EXCEPT ![o].n = @ + 1]
            /\ wg' = wg
            /\ ppc' = IF tr[o].completed THEN "notify" ELSE "idle"
  /\ UNCHANGED <<aborted, panicked, incoming, incClosed, watch>> /\ UNCH_P

AddSend ==                                  \* q.incoming <- t   (blocks while the buffer is full)
  /\ ppc = "send" /\ Len(incoming) < BatchSize
  /\ incoming' = Append(incoming, pcur) /\ ppc' = "idle"
  /\ UNCHANGED <<pcur, nadds, tr, wg, aborted, panicked, incClosed, watch, sAdds>> /\ UNCH_P

AddNotify ==                                \* completed chain: w <- t.ToTransfer()
  /\ ppc = "notify" /\ Len(watch) < BatchSize
  /\ watch' = Append(watch, pcur) /\ ppc' = "idle"
  /\ UNCHANGED <<pcur, nadds, tr, wg, aborted, panicked, incoming, incClosed, sAdds>> /\ UNCH_P

WaitCall ==                                 \* close(q.incoming)
  /\ ppc = "idle" /\ ~panicked
  /\ incClosed' = TRUE /\ ppc' = "waitwg"
  /\ UNCHANGED <<pcur, nadds, tr, wg, aborted, panicked, incoming, watch, sAdds>> /\ UNCH_P

WaitWg ==                                   \* q.wait.Wait()
  /\ ppc = "waitwg" /\ wg = 0
  /\ ppc' = "waitcol"
  /\ UNCHANGED <<pcur, nadds, tr, wg, aborted, panicked, incoming, incClosed, watch, sAdds>> /\ UNCH_P

WaitCol ==                                  \* q.collectorWait.Wait(); close(watchers) ...
  /\ ppc = "waitcol" /\ cpc = "done"
  /\ ppc' = "done"
  /\ UNCHANGED <<pcur, nadds, tr, wg, aborted, panicked, incoming, incClosed, watch, sAdds>> /\ UNCH_P

-----------------------------------------------------------------------------
\* Collector
UNCH_C == UNCHANGED <<ppc, pcur, nadds, tr, panicked, bxfer, bjobs, bresults, bdeliver, rc, watch, delivered,
                      errs, attempts, terminal, xferOk, inflight, hist>>

ColRecvFill ==
  /\ cpc = "fill" /\ ~cclosing /\ Len(cnext) < BatchSize /\ incoming # <<>>
  /\ cnext' = Append(cnext, Head(incoming)) /\ incoming' = Tail(incoming)
  /\ UNCHANGED <<cpc, cpending, cclosing, wg, aborted, incClosed, bpc, bbatch, bretries, berr, notReady>> /\ UNCH_C

ColSeeClosedFill ==
  /\ cpc = "fill" /\ ~cclosing /\ Len(cnext) < BatchSize /\ incoming = <<>> /\ incClosed
  /\ cclosing' = TRUE
  /\ UNCHANGED <<cpc, cnext, cpending, incoming, wg, aborted, incClosed, bpc, bbatch, bretries, berr, notReady>> /\ UNCH_C

ColLaunch ==                                \* go func() { retries, err = enqueueAndCollectRetriesFor(next) }
  /\ cpc = "fill" /\ (cclosing \/ Len(cnext) >= BatchSize)
  /\ cpc' = "collect"
  /\ bbatch' = cnext /\ bretries' = <<>> /\ berr' = "none"
  /\ bpc' = IF cnext = <<>> THEN "finished" ELSE "call"
  /\ UNCHANGED <<cnext, cpending, cclosing, incoming, wg, aborted, incClosed, notReady>> /\ UNCH_C

ColRecvPending ==                           \* collectPendingUntil: case t := <-q.incoming
  /\ cpc = "collect" /\ ~cclosing /\ incoming # <<>>
  /\ cpending' = Append(cpending, Head(incoming)) /\ incoming' = Tail(incoming)
  /\ UNCHANGED <<cpc, cnext, cclosing, wg, aborted, incClosed, bpc, bbatch, bretries, berr, notReady>> /\ UNCH_C

ColSeeClosedPending ==
  /\ cpc = "collect" /\ ~cclosing /\ incoming = <<>> /\ incClosed
  /\ cclosing' = TRUE
  /\ UNCHANGED <<cpc, cnext, cpending, incoming, wg, aborted, incClosed, bpc, bbatch, bretries, berr, notReady>> /\ UNCH_C

ReadyOf(s)    == SelectSeq(s, LAMBDA o : o \notin notReady)
NotReadyOf(s) == SelectSeq(s, LAMBDA o : o \in notReady)
Min(a, b) == IF a < b THEN a ELSE b
Take(s, n) == SubSeq(s, 1, Min(Len(s), n))
Drop(s, n) == SubSeq(s, Min(Len(s), n) + 1, Len(s))

ColAfterBatch ==                            \* <-done ; abort test ; retries.Concat(pending ++ collected)
  /\ cpc = "collect" /\ bpc = "finished"
  /\ bpc' = "idle"
  /\ IF berr = "fatal"
       THEN /\ aborted' = TRUE /\ wg' = 0       \* q.wait.Abort()
            /\ cpc' = IF Fixed THEN "drain" ELSE "done"
            /\ UNCHANGED <<cnext, cpending>>
       ELSE LET u  == bretries \o cpending
                l  == ReadyOf(u)
                r  == NotReadyOf(u)
                nx == Take(l, BatchSize)
                pd == r \o Drop(l, BatchSize)
            IN /\ cnext' = nx /\ cpending' = pd
               /\ cpc' = IF nx = <<>> /\ pd # <<>> THEN "sleep"
                         ELSE IF nx = <<>> /\ pd = <<>> /\ cclosing THEN "done" ELSE "fill"
               /\ UNCHANGED <<aborted, wg>>
  /\ UNCHANGED <<cclosing, incoming, incClosed, bbatch, bretries, berr, notReady>> /\ UNCH_C

ColDrain ==                                 \* repaired code: keep receiving until incoming is closed
  /\ cpc = "drain"
  /\ \/ /\ incoming # <<>> /\ incoming' = Tail(incoming) /\ cpc' = cpc
     \/ /\ incoming = <<>> /\ incClosed /\ incoming' = incoming /\ cpc' = "done"
  /\ UNCHANGED <<cnext, cpending, cclosing, wg, aborted, incClosed, bpc, bbatch, bretries, berr, notReady>> /\ UNCH_C

ColWake ==                                  \* time.Sleep(minWaitTime) returns: deferred objects are ready
  /\ cpc = "sleep"
  /\ notReady' = {}
  /\ cpc' = "fill"
  /\ UNCHANGED <<cnext, cpending, cclosing, incoming, wg, aborted, incClosed, bpc, bbatch, bretries, berr>> /\ UNCH_C

-----------------------------------------------------------------------------
\* Batch goroutine
UNCH_B == UNCHANGED <<ppc, pcur, nadds, incoming, incClosed, cpc, cnext, cpending, cclosing, aborted, sAdds>>

EnqRetry(o, later) ==
  /\ rc' = [rc EXCEPT ![o] = @ + 1]
  /\ bretries' = Append(bretries, o)
  /\ notReady' = IF later THEN notReady \cup {o} ELSE notReady

Fail(o) == WgDone /\ errs' = errs \cup {o} /\ terminal' = terminal \cup {o}

BatchFail(kind) ==                          \* Batch() returned an error
  /\ bpc = "call" /\ kind \in BatchKinds \ {"ok", "missing"}
  /\ bpc' = "failloop" /\ berr' = kind /\ sCall' = [sCall EXCEPT ![Head(bbatch)] = Append(@, kind)]
  /\ UNCHANGED <<tr, wg, panicked, bbatch, bxfer, bretries, bjobs, bresults, bdeliver, rc, notReady, watch,
                 delivered, errs, attempts, terminal, xferOk, inflight, sResp, sAd>> /\ UNCH_B

BatchFailStep ==                            \* for _, t := range batch { retry | retry later | Done }
  /\ bpc = "failloop" /\ bbatch # <<>>
  /\ LET o == Head(bbatch) IN
     /\ bbatch' = Tail(bbatch)
     /\ IF berr \in {"retriable", "later"} /\ CanRetry(o)
          THEN EnqRetry(o, berr = "later") /\ UNCHANGED <<wg, panicked, errs, terminal>>
          ELSE Fail(o) /\ UNCHANGED <<rc, bretries, notReady>>
  /\ UNCHANGED <<bpc, berr, tr, bxfer, bjobs, bresults, bdeliver, watch, delivered, attempts, xferOk, inflight, sResp, sAd, sCall>> /\ UNCH_B

BatchFailEnd ==                             \* returned error is wrapped retriable: never aborts
  /\ bpc = "failloop" /\ bbatch = <<>>
  /\ bpc' = "finished" /\ berr' = "none"
  /\ UNCHANGED <<tr, wg, panicked, bbatch, bxfer, bretries, bjobs, bresults, bdeliver, rc, notReady, watch,
                 delivered, errs, attempts, terminal, xferOk, inflight, sResp, sAd, sCall>> /\ UNCH_B

\* 200 response; the environment picks a kind per requested object, one object per step
BatchOkStep(kind) ==
  /\ bpc \in {"call", "okloop"} /\ bbatch # <<>> /\ kind \in RespKinds /\ bpc' = "okloop"
  /\ sCall' = IF bpc = "call" THEN [sCall EXCEPT ![Head(bbatch)] = Append(@, "ok")] ELSE sCall
  /\ LET o == Head(bbatch) IN
     /\ bbatch' = Tail(bbatch)
     /\ sResp' = [sResp EXCEPT ![o] = Append(@, kind)]
     /\ CASE kind = "action"   -> /\ bxfer' = bxfer \cup {o}
                                  /\ UNCHANGED <<wg, panicked, errs, terminal, rc, bretries, notReady>>
          [] kind = "noaction" -> /\ WgDone /\ terminal' = terminal \cup {o}
                                  /\ UNCHANGED <<bxfer, errs, rc, bretries, notReady>>
          [] kind = "error"    -> /\ Fail(o) /\ UNCHANGED <<bxfer, rc, bretries, notReady>>
          [] kind = "expired"  -> IF CanRetry(o)       \* tr.Rel() returns a retriable expiry error
                                    THEN /\ EnqRetry(o, FALSE) /\ UNCHANGED <<wg, panicked, errs, terminal, bxfer>>
                                    ELSE /\ Fail(o) /\ UNCHANGED <<bxfer, rc, bretries, notReady>>
          [] kind \in {"omit", "unknown"} ->           \* o not answered (unknown: another id listed instead)
                                  IF Fixed
                                    THEN /\ Fail(o) /\ UNCHANGED <<bxfer, rc, bretries, notReady>>
                                    ELSE IF kind = "omit"
                                      THEN UNCHANGED <<wg, panicked, errs, terminal, bxfer, rc, bretries, notReady>>
                                      ELSE /\ WgDone /\ errs' = errs \cup {o}   \* Done() for an id nobody added
                                           /\ UNCHANGED <<terminal, bxfer, rc, bretries, notReady>>
          [] kind = "twice"    -> IF Fixed               \* listed twice without actions: second listing ignored
                                    THEN /\ WgDone /\ terminal' = terminal \cup {o}
                                         /\ UNCHANGED <<bxfer, errs, rc, bretries, notReady>>
                                    ELSE /\ wg' = IF aborted THEN wg ELSE wg - 2
                                         /\ panicked' = (panicked \/ (~aborted /\ wg - 2 < 0))
                                         /\ terminal' = terminal \cup {o}
                                         /\ UNCHANGED <<bxfer, errs, rc, bretries, notReady>>
  /\ UNCHANGED <<berr, tr, bjobs, bresults, bdeliver, watch, delivered, attempts, xferOk, inflight, sAd>> /\ UNCH_B

MissingAbort ==                             \* upload: Missing && actions offered -> return nil, err (fatal)
  /\ bpc = "call" /\ "missing" \in BatchKinds /\ bbatch # <<>>
  /\ bpc' = "finished" /\ berr' = "fatal" /\ errs' = errs \cup SeqToSet(bbatch)
  /\ bbatch' = <<>> /\ bxfer' = {} /\ sCall' = [sCall EXCEPT ![Head(bbatch)] = Append(@, "missing")]
  /\ UNCHANGED <<tr, wg, panicked, bretries, bjobs, bresults, bdeliver, rc, notReady, watch, delivered, attempts,
                 terminal, xferOk, inflight, sResp, sAd>> /\ UNCH_B

BatchDispatch ==                            \* addToAdapter(toTransfer)
  /\ bpc = "okloop" /\ bbatch = <<>>
  /\ bjobs' = bxfer /\ bxfer' = {}
  /\ attempts' = [o \in Oids |-> IF o \in bxfer THEN attempts[o] + 1 ELSE attempts[o]]
  /\ inflight' = inflight \cup bxfer
  /\ bpc' = "xfer"
  /\ UNCHANGED <<berr, tr, wg, panicked, bbatch, bretries, bresults, bdeliver, rc, notReady, watch, delivered,
                 errs, terminal, xferOk, hist>> /\ UNCH_B

AdapterFinish(o, kind) ==                   \* a worker finishes one object
  /\ bpc = "xfer" /\ o \in bjobs /\ kind \in AdKinds
  /\ bjobs' = bjobs \ {o} /\ inflight' = inflight \ {o}
  /\ bresults' = Append(bresults, <<o, kind>>)
  /\ sAd' = [sAd EXCEPT ![o] = Append(@, kind)]
  /\ xferOk' = IF kind = "ok" THEN xferOk \cup {o} ELSE xferOk
  /\ UNCHANGED <<bpc, berr, tr, wg, panicked, bbatch, bxfer, bretries, bdeliver, rc, notReady, watch, delivered,
                 errs, attempts, terminal, sResp, sCall>> /\ UNCH_B

HandleResult ==                             \* handleTransferResult
  /\ bpc = "xfer" /\ bresults # <<>> /\ bdeliver = <<>>
  /\ LET o == Head(bresults)[1]  k == Head(bresults)[2] IN
     /\ bresults' = Tail(bresults)
     /\ CASE k = "ok" -> /\ tr' = [tr EXCEPT ![o].completed = TRUE]
                         /\ bdeliver' = [i \in 1..tr[o].n |-> o]
                         /\ UNCHANGED <<wg, panicked, errs, terminal, rc, bretries, notReady>>
          [] k \in {"retriable", "later"} ->
                         IF CanRetry(o)
                           THEN /\ EnqRetry(o, k = "later") /\ UNCHANGED <<tr, bdeliver, wg, panicked, errs, terminal>>
                           ELSE /\ Fail(o) /\ UNCHANGED <<tr, bdeliver, rc, bretries, notReady>>
          \* "unproc": the storage server answered 422 (it will not take the request as it stands): as final
          \* as any other fatal outcome - the object is failed and an error reports it
          [] k \in {"fatal", "unproc"} -> /\ Fail(o) /\ UNCHANGED <<tr, bdeliver, rc, bretries, notReady>>
  /\ UNCHANGED <<bpc, berr, bbatch, bxfer, bjobs, watch, delivered, attempts, xferOk, inflight, hist>> /\ UNCH_B

Deliver ==                                  \* under trMutex: one send per remembered tuple, then wait.Done()
  /\ bpc = "xfer" /\ bdeliver # <<>> /\ Len(watch) < BatchSize
  /\ watch' = Append(watch, Head(bdeliver)) /\ bdeliver' = Tail(bdeliver)
  /\ IF Len(bdeliver) = 1
       THEN WgDone /\ terminal' = terminal \cup {Head(bdeliver)}
       ELSE UNCHANGED <<wg, panicked, terminal>>
  /\ UNCHANGED <<bpc, berr, tr, bbatch, bxfer, bretries, bjobs, bresults, rc, notReady, delivered, errs, attempts,
                 xferOk, inflight, hist>> /\ UNCH_B

BatchEnd ==                                 \* results channel closed; retries collected; return next, nil
  /\ bpc = "xfer" /\ bjobs = {} /\ bresults = <<>> /\ bdeliver = <<>>
  /\ bpc' = "finished"
  /\ UNCHANGED <<berr, tr, wg, panicked, bbatch, bxfer, bretries, bjobs, bresults, bdeliver, rc, notReady, watch,
                 delivered, errs, attempts, terminal, xferOk, inflight, hist>> /\ UNCH_B

-----------------------------------------------------------------------------
Consume ==                                  \* the caller's watcher goroutine
  /\ watch # <<>>
  /\ delivered' = [delivered EXCEPT ![Head(watch)] = @ + 1] /\ watch' = Tail(watch)
  /\ UNCHANGED <<ppc, pcur, nadds, tr, wg, aborted, panicked, incoming, incClosed, cpc, cnext, cpending, cclosing,
                 bpc, bbatch, bxfer, bretries, berr, bjobs, bresults, bdeliver, rc, notReady, errs, attempts,
                 terminal, xferOk, inflight, hist>>

QueueStep ==
  \/ AddSend \/ AddNotify \/ WaitWg \/ WaitCol
  \/ ColRecvFill \/ ColSeeClosedFill \/ ColLaunch \/ ColRecvPending \/ ColSeeClosedPending \/ ColAfterBatch \/ ColWake \/ ColDrain
  \/ BatchFailStep \/ BatchFailEnd \/ BatchDispatch \/ HandleResult \/ Deliver \/ BatchEnd
  \/ Consume

EnvStep ==
  \/ \E o \in Oids : AddBegin(o)
  \/ WaitCall
  \/ \E k \in BatchKinds : BatchFail(k)
  \/ \E k \in RespKinds : BatchOkStep(k)
  \/ MissingAbort
  \/ \E o \in Oids, k \in AdKinds : AdapterFinish(o, k)

Next == QueueStep \/ EnvStep

\* Fairness: the queue's own steps, the caller eventually calling Wait, the
\* server eventually answering and the adapter eventually finishing.
Spec == Init /\ [][Next]_vars /\ WF_vars(QueueStep) /\ WF_vars(WaitCall)
        /\ WF_vars(\E k \in BatchKinds : BatchFail(k) \/ \E k2 \in RespKinds : BatchOkStep(k2))
        /\ WF_vars(\E o \in Oids, k \in AdKinds : AdapterFinish(o, k))

-----------------------------------------------------------------------------
\* Properties (C06, C15)
NoPanic      == ~panicked
Done         == ppc = "done"
Terminated   == Done /\ watch = <<>>
DeadlockFree == (~ENABLED Next) => (Done \/ panicked)
WgMatches    == (~aborted /\ ~panicked) =>
                   wg = Cardinality({o \in Oids : tr[o].n > 0 /\ o \notin terminal})
Conservation == Terminated =>
   \A o \in Oids : tr[o].n > 0 =>
       \/ delivered[o] = tr[o].n
       \/ (delivered[o] = 0 /\ (o \in errs \/ (o \in terminal /\ o \notin xferOk) \/ (aborted /\ errs # {})))
NoPhantom    == \A o \in Oids : (delivered[o] > 0 \/ o \in SeqToSet(watch)) => o \in xferOk
Budget       == \A o \in Oids : attempts[o] <= MaxRetries + 1
NoOverlap    == \A o \in Oids : o \in bxfer => o \notin inflight
NotBeforeReady == \A o \in notReady : o \notin bxfer /\ o \notin inflight /\ o \notin SeqToSet(bbatch)
AddReturns   == (ppc \in {"send", "notify"}) ~> (ppc = "idle")
Live         == <>(Done \/ panicked)

\* ---- behaviour generation: one script per environment edge ------------------
\* Every edge on which the environment makes a choice (hist changes) writes the
\* script of the path TLC found to the source state extended by that choice;
\* the replayer completes it with default answers (action / ok) and Wait.
Script == [adds |-> sAdds', resp |-> sResp', ad |-> sAd', bcall |-> sCall',
           bs |-> BatchSize, maxret |-> MaxRetries, upload |-> (\E o \in Oids : "missing" \in SeqToSet(sCall'[o]))]
EmitEdge == (Emit /\ hist' # hist) => CSVWrite("%1$s", <<ToJson(Script)>>, IOEnv.OUT)
=============================================================================
