------------------------------ MODULE Download ------------------------------
(***************************************************************************)
(* C02: the basic download adapter (tq/basic_download.go) plus the retry   *)
(* of the transfer queue, transcribed step by step, against a storage      *)
(* server that may answer every request with any status, any kind of body  *)
(* and any Content-Range, or cut the connection.                           *)
(*                                                                         *)
(* The object is the sequence Obj; files are sequences of cells, so "the   *)
(* file hashes to the oid" is "the file equals Obj".                       *)
(*   part   <lfs>/incomplete/<oid>.part left by an earlier attempt         *)
(*   tmp    the temporary file of the running attempt                      *)
(*   final  the file at the object's final place in lfs/objects (<<>>: none)*)
(***************************************************************************)
EXTENDS Integers, Sequences, FiniteSets, TLC, Json, CSV, IOUtils

CONSTANTS MaxReq,       \* number of requests the server script may answer
          Parts,        \* initial .part classes
          Finals,       \* what sits at the object's final place beforehand: "absent" | "stale" (same size, other bytes)
          Emit

Obj  == <<1, 2, 3, 4, 5>>
N    == Len(Obj)
PartOf(c) == CASE c = "absent" -> <<>> [] c = "prefix" -> <<1, 2>> [] c = "garbage" -> <<9, 9>>
               [] c = "almost" -> <<1, 2, 3, 4>> [] c = "longer" -> <<1, 2, 3, 4, 5, 6>> [] OTHER -> <<>>

Statuses == {200, 206, 416, 404, 500, 429}
Bodies   == {"exact", "suffix", "wrongsuffix", "prefix", "extra", "flip", "other"}
Ranges   == {"right", "wrong", "missing", "malformed"}
Cuts     == {0, 2}      \* 0: body delivered completely; k: connection cut after k cells

Body(kind, from) ==
  CASE kind = "exact"       -> Obj
    [] kind = "suffix"      -> SubSeq(Obj, from + 1, N)
    [] kind = "wrongsuffix" -> SubSeq(Obj, from + 2, N)
    [] kind = "prefix"      -> SubSeq(Obj, 1, 3)
    [] kind = "extra"       -> Obj \o <<7>>
    [] kind = "flip"        -> <<1, 2, 8, 4, 5>>
    [] OTHER                -> <<8, 8, 8, 8, 8>>
Take(s, k) == SubSeq(s, 1, IF Len(s) < k THEN Len(s) ELSE k)

VARIABLES pc, part, tmp, from, final, result, reqs, script, part0, final0
vars == <<pc, part, tmp, from, final, result, reqs, script, part0, final0>>
Stale == <<8, 8, 8, 8, 8>>          \* a file of the object's size whose bytes are not the object's (e.g. damaged in place; --refetch)
FinalOf(c) == IF c = "stale" THEN Stale ELSE <<>>

Init == /\ part0 \in Parts /\ part = PartOf(part0) /\ final0 \in Finals
        /\ pc = "adopt" /\ tmp = <<>> /\ from = 0 /\ final = FinalOf(final0) /\ result = "none"
        /\ reqs = <<>> /\ script = <<>>

\* DoTransfer: create the temp file, move the .part over it, hash it, decide whether to resume
Adopt == /\ pc = "adopt"
         /\ LET have == Len(part) IN
            IF have > 0 /\ have < N - 1
              THEN tmp' = part /\ from' = have            \* resume: hash preloaded with the part's bytes
              ELSE tmp' = <<>> /\ from' = 0               \* nothing, or too long to be worth it: truncate
         /\ part' = <<>> /\ pc' = "request"
         /\ UNCHANGED <<final, result, reqs, script, part0, final0>>

Request == /\ pc = "request" /\ Len(reqs) < MaxReq
           /\ reqs' = Append(reqs, from) /\ pc' = "wait"
           /\ UNCHANGED <<part, tmp, from, final, result, script, part0, final0>>

\* the attempt failed with a retriable error: the temp file is saved as .part, the queue retries
FailRetriable == pc' = "adopt" /\ part' = tmp' /\ UNCHANGED <<from, final, result>>
\* the attempt failed for good
FailFinal     == pc' = "done" /\ part' = tmp' /\ result' = "fail" /\ UNCHANGED <<from, final>>

Respond(st, body, cr, cut) ==
  /\ pc = "wait" /\ st \in Statuses /\ body \in Bodies /\ cr \in Ranges /\ cut \in Cuts
  /\ (st \notin {200, 206} => body = "exact" /\ cr = "missing" /\ cut = 0)       \* error answers carry nothing of interest
  /\ (st = 200 => cr = "missing")
  /\ script' = Append(script, [status |-> st, body |-> body, range |-> cr, cut |-> cut])
  /\ UNCHANGED <<reqs, part0, final0>>
  /\ IF st \notin {200, 206} THEN
        IF st = 416 /\ from > 0
          THEN /\ tmp' = <<>> /\ from' = 0 /\ pc' = "request" /\ UNCHANGED <<part, final, result>>   \* re-download from the start
          ELSE /\ tmp' = tmp /\ FailRetriable
     ELSE
        LET rangeOk == from = 0 \/ (st = 206 /\ cr = "right")
            base    == IF rangeOk THEN tmp ELSE <<>>              \* a refused resume truncates the file
            reuse   == rangeOk \/ st = 200                        \* a 200 answer to a range request is used as a full body
        IN IF ~reuse
             THEN /\ tmp' = <<>> /\ from' = 0 /\ pc' = "request" /\ UNCHANGED <<part, final, result>>
             ELSE LET data == Body(body, reqs[Len(reqs)])
                      got  == IF cut > 0 THEN Take(data, cut) ELSE data
                  IN /\ tmp' = base \o got
                     /\ IF cut > 0 /\ Len(data) > cut
                          THEN FailRetriable                           \* read error while copying
                          ELSE IF tmp' = Obj                           \* hash compare
                                 THEN /\ final' = Obj /\ result' = "ok" /\ pc' = "done" /\ part' = part /\ UNCHANGED from
                                 ELSE FailFinal

\* the queue's retry budget is spent, or the script is: report failure
GiveUp == /\ pc = "request" /\ Len(reqs) >= MaxReq
          /\ pc' = "done" /\ result' = "fail" /\ part' = tmp
          /\ UNCHANGED <<tmp, from, final, reqs, script, part0, final0>>

Next == Adopt \/ Request \/ GiveUp \/ \E st \in Statuses, b \in Bodies, cr \in Ranges, cut \in Cuts : Respond(st, b, cr, cut)
Spec == Init /\ [][Next]_vars

\* ---- C02 ---------------------------------------------------------------------
OkMeansValid      == result = "ok" => final = Obj                    \* also when a stale file was there: it is replaced
FailLeavesNoFinal == result = "fail" => final = FinalOf(final0)      \* nothing created, nothing replaced
FinalOnlyValid    == final \in {FinalOf(final0), Obj}

Out == [part |-> part0, final0 |-> final0, script |-> script', result |-> result', requests |-> reqs',
        finalValid |-> (final' = Obj), partLenAfter |-> Len(part')]
EmitEdge == (Emit /\ pc' = "done" /\ pc # "done") => CSVWrite("%1$s", <<ToJson(Out)>>, IOEnv.OUT)
=============================================================================
