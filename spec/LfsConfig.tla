----------------------------- MODULE LfsConfig -----------------------------
(***************************************************************************)
(* C11: which configuration is effective for git-lfs when a repository     *)
(* carries a `.lfsconfig`.                                                  *)
(*                                                                         *)
(* Documented is the allow-list of docs/man/git-lfs-config.adoc            *)
(* ("LFSCONFIG": lfs.allowincompletepush, lfs.fetchexclude, lfs.fetch-     *)
(* include, lfs.gitprotocol, lfs.locksverify, lfs.pushurl, lfs.skip-       *)
(* downloaderrors, lfs.url, lfs.<url>.access, remote.<name>.lfsurl).       *)
(*   Effective(k) = the value from Git's own configuration if it has one,  *)
(*                  else the .lfsconfig value if k is Documented,           *)
(*                  else nothing.                                          *)
(*                                                                         *)
(* The .lfsconfig is a sequence of lines: the key under test with          *)
(* neighbours before and after it taken from the documented classes.       *)
(* config.readGitConfig walks the lines of each source in a loop; whether  *)
(* a line is kept is decided per line (`allowed`), so the neighbours must  *)
(* have no influence.  Stateful = TRUE is the variant where that decision  *)
(* survives from one line to the next (a realistic slip: the flag hoisted  *)
(* out of the loop); it must violate OnlyDocumented.                       *)
(*                                                                         *)
(* form = "access-suffix": the value is carried by the key with ".access"  *)
(* appended.  The allow-list lets every "<...>.access" key through (it is  *)
(* the documented lfs.<url>.access pattern), so the line is kept - as the  *)
(* access mode of a URL, which is harmless.  It must not become effective  *)
(* for the key it is a suffix of; a consumer that recognises its keys by   *)
(* an unanchored pattern (PrefixMatch = TRUE) makes it so and must violate *)
(* Independent.                                                            *)
(***************************************************************************)
EXTENDS Integers, Sequences, FiniteSets, TLC, Json, CSV, IOUtils

CONSTANTS Keys,        \* set of [name, doc, pat]: key classes; doc: documented as safe; pat: allow-listed by pattern rather than by name
          Neighbours,  \* set of such records used as the other lines of the file
          MaxBefore, MaxAfter,
          Spellings, Locations, Emit, Stateful, Thin, Forms, PrefixMatch

VARIABLES key, before, after, spelling, location, alsoGit, i, allowed, kept, gitconfig, effective, form
vars == <<key, before, after, spelling, location, alsoGit, i, allowed, kept, gitconfig, effective, form>>

SeqsUpTo(S, n) == UNION {[1..k -> S] : k \in 0..n}
\* the line under test as it stands in the file
Carrier == IF form = "access-suffix" THEN [name |-> key.name \o ".access", doc |-> TRUE, pat |-> TRUE] ELSE key
\* a neighbour that repeats the key under test has the key's own standing with the allow-list
AsLine(n) == IF n.name \in {"ctx.dupkey", "ctx.samekey"} THEN [name |-> n.name, doc |-> key.doc, pat |-> key.pat] ELSE n
File == [j \in DOMAIN before |-> AsLine(before[j])] \o <<Carrier>> \o [j \in DOMAIN after |-> AsLine(after[j])]
At   == Len(before) + 1                           \* position of the key under test

Init == /\ key \in Keys /\ spelling \in Spellings /\ location \in Locations /\ alsoGit \in BOOLEAN
        /\ before \in SeqsUpTo(Neighbours, MaxBefore) /\ after \in SeqsUpTo(Neighbours, MaxAfter)
        \* Thin: neighbours are only combined with the plain spelling/location/no overlay
        /\ (Thin /\ (before # <<>> \/ after # <<>>)) => (spelling = "lower" /\ location = "worktree")
        \* "ctx.samekey": the key under test a second time, with the very value Git's configuration has for
        \* it (so only with the overlay, and only for keys that are kept at all); otherwise no overlay
        \* "ctx.dupkey": the line under test written once more (every occurrence is filtered on its own)
        /\ LET same == \E j \in DOMAIN before : before[j].name = "ctx.samekey"
               sameAfter == \E j \in DOMAIN after : after[j].name = "ctx.samekey"
               dup == \E j \in DOMAIN before : before[j].name = "ctx.dupkey"
               dupAfter == \E j \in DOMAIN after : after[j].name = "ctx.dupkey"
           IN /\ ~sameAfter /\ ~dupAfter
              /\ (same => (alsoGit /\ key.doc /\ Len(before) = 1 /\ after = <<>>))
              /\ (dup => (~alsoGit /\ Len(before) = 1 /\ after = <<>>))
              /\ ((Thin /\ ~same /\ (before # <<>> \/ after # <<>>)) => ~alsoGit)
        /\ form \in Forms
        \* the suffixed form is only of interest for keys that are not allowed by themselves, on its own
        /\ (form = "access-suffix" => (~key.doc /\ before = <<>> /\ after = <<>> /\ spelling = "lower" /\ location = "worktree"))
        /\ i = 1 /\ allowed = FALSE /\ kept = {} /\ gitconfig = "unread" /\ effective = "undecided"

\* one iteration of the loop over the lines of the OnlySafeKeys source
Line == /\ i <= Len(File) /\ effective = "undecided"
        /\ LET ln == File[i]
               a0 == IF Stateful THEN allowed ELSE FALSE        \* allowed := !gc.OnlySafeKeys
               a1 == a0 \/ ln.pat                               \* *.access / remote.<name>.lfsurl
           IN /\ allowed' = a1
              /\ kept' = IF a1 \/ ln.doc THEN kept \cup {i} ELSE kept   \* !allowed && keyIsUnsafe(key) => ignored
        /\ i' = i + 1
        /\ UNCHANGED <<key, before, after, spelling, location, alsoGit, gitconfig, effective, form>>

\* Git's own sources are read after it and shadow it
Overlay == /\ i > Len(File) /\ effective = "undecided"
           /\ gitconfig' = IF alsoGit THEN "V2" ELSE "none"
           \* the value becomes the setting of key only if the kept line names exactly that key
           /\ effective' = IF alsoGit THEN "git"
                           ELSE IF At \in kept /\ (form = "plain" \/ PrefixMatch) THEN "lfsconfig" ELSE "none"
           /\ UNCHANGED <<key, before, after, spelling, location, alsoGit, i, allowed, kept, form>>
Next == Line \/ Overlay
Spec == Init /\ [][Next]_vars

Decided == effective \in {"git", "lfsconfig", "none"}
\* C11
OnlyDocumented == \A j \in kept : File[j].doc
GitWins        == (Decided /\ alsoGit) => effective = "git"
\* neither spelling, location nor the other lines of the file are an argument of the outcome
Independent    == Decided => effective = (IF alsoGit THEN "git" ELSE IF key.doc THEN "lfsconfig" ELSE "none")

Names(s) == [j \in DOMAIN s |-> s[j].name]
Case == [key |-> key.name, documented |-> key.doc, form |-> form, before |-> Names(before), after |-> Names(after),
         spelling |-> spelling, location |-> location, alsoGit |-> alsoGit, expect |-> effective]
EmitState == (Emit /\ Decided) => CSVWrite("%1$s", <<ToJson(Case)>>, IOEnv.OUT)
=============================================================================
