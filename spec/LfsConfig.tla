----------------------------- MODULE LfsConfig -----------------------------
(***************************************************************************)
(* C11: which configuration is effective for git-lfs when a repository     *)
(* carries a `.lfsconfig`.                                                  *)
(*                                                                         *)
(* Documented is the allow-list of docs/man/git-lfs-config.adoc            *)
(* ("LFSCONFIG": lfs.allowincompletepush, lfs.fetchexclude, lfs.fetch-     *)
(* include, lfs.gitprotocol, lfs.locksverify, lfs.pushurl, lfs.skip-       *)
(* downloaderrors, lfs.url, lfs.<url>.access, remote.<name>.lfsurl).       *)
(*   Effective(k) = the value from Git's own configuration if it has one,  *)
(*                  else the .lfsconfig value if k is Documented,           *)
(*                  else nothing.                                          *)
(* The module enumerates key class x spelling x where the .lfsconfig lives *)
(* x whether Git's configuration also sets the key, and states the source  *)
(* the effective value must come from; the harness observes it with        *)
(* `git lfs env` or with sentinels (programs that leave a mark, listeners).*)
(***************************************************************************)
EXTENDS Integers, Sequences, FiniteSets, TLC, Json, CSV, IOUtils

CONSTANTS Keys,        \* set of [name, doc]: key classes with "documented as safe" flag
          Spellings, Locations, Emit

VARIABLES key, spelling, location, alsoGit, lfsconfig, gitconfig, effective
vars == <<key, spelling, location, alsoGit, lfsconfig, gitconfig, effective>>

Init == /\ key \in Keys /\ spelling \in Spellings /\ location \in Locations /\ alsoGit \in BOOLEAN
        /\ lfsconfig = "unread" /\ gitconfig = "unread" /\ effective = "undecided"

\* the three steps of config.readGitConfig: sources are read, the .lfsconfig source is filtered, Git's overlay wins
ReadSources == /\ lfsconfig = "unread"
               /\ lfsconfig' = "V1" /\ gitconfig' = IF alsoGit THEN "V2" ELSE "none"
               /\ UNCHANGED <<key, spelling, location, alsoGit, effective>>
FilterSafe  == /\ lfsconfig = "V1" /\ effective = "undecided"
               /\ lfsconfig' = IF key.doc THEN "V1" ELSE "dropped"
               /\ effective' = "filtered"
               /\ UNCHANGED <<key, spelling, location, alsoGit, gitconfig>>
Overlay     == /\ effective = "filtered"
               /\ effective' = IF gitconfig = "V2" THEN "git" ELSE IF lfsconfig = "V1" THEN "lfsconfig" ELSE "none"
               /\ UNCHANGED <<key, spelling, location, alsoGit, lfsconfig, gitconfig>>
Next == ReadSources \/ FilterSafe \/ Overlay
Spec == Init /\ [][Next]_vars

Decided == effective \in {"git", "lfsconfig", "none"}
\* C11
OnlyDocumented == (Decided /\ effective = "lfsconfig") => key.doc
GitWins        == (Decided /\ alsoGit) => effective = "git"
\* neither spelling nor location is an argument of the outcome
Independent    == Decided => effective = (IF alsoGit THEN "git" ELSE IF key.doc THEN "lfsconfig" ELSE "none")

Case == [key |-> key.name, documented |-> key.doc, spelling |-> spelling, location |-> location, alsoGit |-> alsoGit, expect |-> effective]
EmitState == (Emit /\ Decided) => CSVWrite("%1$s", <<ToJson(Case)>>, IOEnv.OUT)
=============================================================================
