CONSTANTS
 Oids = {"a","b"}
 MaxAdds = 3
 BatchSize = 1
 MaxRetries = 1
 Fixed = TRUE
 Emit = FALSE
 RespKinds = {"action","noaction","error","expired","omit","twice","unknown"}
 AdKinds = {"ok","retriable","later","fatal","unproc"}
 BatchKinds = {"ok","retriable","later","hard","missing"}
SPECIFICATION Spec
VIEW View
INVARIANT NoPanic
INVARIANT DeadlockFree
INVARIANT WgMatches
INVARIANT Conservation
INVARIANT NoPhantom
INVARIANT Budget
INVARIANT NoOverlap
INVARIANT NotBeforeReady
ACTION_CONSTRAINT EmitEdge
CHECK_DEADLOCK FALSE
