------------------------------- MODULE Pointer -------------------------------
(***************************************************************************)
(* Pointer text (docs/spec.md "The Pointer") as an abstract document: a    *)
(* sequence of line tokens.  The module enumerates every document that is  *)
(* reachable from the canonical encoding of a valid pointer by at most     *)
(* MaxEdits edit operations and computes, from the written specification   *)
(* only, what a conforming decoder may do with it:                         *)
(*   verdict "accept"  - the canonical encoding of a valid pointer         *)
(*   verdict "reject"  - no reading of the document is a well-formed       *)
(*                       pointer (no well-formed oid line, or no           *)
(*                       well-formed size line)                            *)
(*   verdict "either"  - leniencies the text leaves open                   *)
(* together with the pointer the document denotes and whether the document *)
(* is the canonical encoding (so that the decoder's canonical flag can be  *)
(* checked).  The Go side renders tokens to bytes and compares.            *)
(***************************************************************************)
EXTENDS Integers, Sequences, FiniteSets, TLC, Json, CSV, IOUtils

CONSTANTS MaxEdits, Emit

VARIABLES doc, nedits, trail   \* trail: bytes class appended after the last line
vars == <<doc, nedits, trail>>

\* value classes ------------------------------------------------------------
VersionOK     == {"latest", "alias_hawser", "alias_media"}
VersionBad    == {"unknown", "latest_upper", "empty"}
OidOK         == {"ok1", "ok2"}
OidBad        == {"upper", "short63", "long65", "nonhex", "md5type", "nocolon", "empty"}
SizeCanon     == {"small", "max"}                \* canonical decimal numerals > 0
SizeLenient   == {"zero", "plus", "lead0", "negzero"}   \* parse to a non-negative integer, not canonical
SizeBad       == {"neg", "nonnum", "empty", "overflow", "float"}
Terms         == {"LF", "CRLF", "NONE"}
Pads          == {"none", "lead", "trail", "dblsp", "tab"}

L(key, prio, name, val) == [key |-> key, prio |-> prio, name |-> name, val |-> val, term |-> "LF", pad |-> "none"]

\* base pointers: extension priority lists
\* priorities; the second extension's name has a hyphen and a dot.  Between them the lists use every
\* priority 0..9, so that the "dup" extra line below can collide at each of them.
ExtSets == { <<>>, <<0>>, <<1, 5>>, <<0, 9>>, <<2, 3, 4>>, <<6, 7, 8>> }
Canonical(sizeC, exts) ==
   <<L("version", -1, "", "latest")>>
   \o [i \in 1..Len(exts) |-> L("ext", exts[i], IF i = 1 THEN "foo" ELSE IF i = 2 THEN "my-ext.v2" ELSE "zz", "ok2")]   \* keys may use [a-z] [0-9] . -
   \o <<L("oid", -1, "", "ok1"), L("size", -1, "", sizeC)>>

\* start from a canonical pointer, or from the empty document (docs/spec.md: "an empty file is the
\* pointer for an empty file"; anything else without lines - white space only - is not)
Init == /\ \/ \E s \in SizeCanon, e \in ExtSets : doc = Canonical(s, e)
           \/ doc = <<>>
        /\ nedits = 0 /\ trail = "none"

\* edits --------------------------------------------------------------------
Idx == 1..Len(doc)
Replace(i, ln) == [doc EXCEPT ![i] = ln]
InsertAt(i, ln) == SubSeq(doc, 1, i - 1) \o <<ln>> \o SubSeq(doc, i, Len(doc))   \* before position i (i may be Len+1)
DeleteAt(i) == SubSeq(doc, 1, i - 1) \o SubSeq(doc, i + 1, Len(doc))

ExtraLines == { L("ext", p, "dup", "ok2") : p \in 0..9 } \cup    \* another extension at priority p (collides where the base uses p)
              { L("other", -1, "", "x"),          \* unknown key
                L("nospace", -1, "", ""),         \* a line without a space
                L("blank", -1, "", ""),           \* empty line
                L("Oid", -1, "", "ok1"),          \* key in the wrong case
                L("ext", 10, "ten", "ok2"),       \* priority out of range
                L("ext", -1, "neg", "ok2"),       \* negative priority
                L("ext", 3, "bad", "upper"),      \* extension with a bad oid
                L("size", -1, "", "small"),       \* second size line
                L("oid", -1, "", "ok2") }         \* second oid line

Edit ==
  /\ nedits < MaxEdits
  /\ nedits' = nedits + 1
  /\ \/ \E i \in Idx, t \in Terms \ {"LF"} : (t = "NONE" => (i = Len(doc) /\ doc[i].key # "blank")) /\ doc' = Replace(i, [doc[i] EXCEPT !.term = t]) /\ UNCHANGED trail
     \/ \E i \in Idx, p \in Pads \ {"none"} : doc[i].pad = "none" /\ doc' = Replace(i, [doc[i] EXCEPT !.pad = p]) /\ UNCHANGED trail
     \/ \E i \in Idx, v \in VersionOK \cup VersionBad : doc[i].key = "version" /\ v # doc[i].val /\ doc' = Replace(i, [doc[i] EXCEPT !.val = v]) /\ UNCHANGED trail
     \/ \E i \in Idx, v \in OidBad : doc[i].key \in {"oid", "ext"} /\ doc' = Replace(i, [doc[i] EXCEPT !.val = v]) /\ UNCHANGED trail
     \/ \E i \in Idx, v \in SizeCanon \cup SizeLenient \cup SizeBad : doc[i].key = "size" /\ v # doc[i].val /\ doc' = Replace(i, [doc[i] EXCEPT !.val = v]) /\ UNCHANGED trail
     \/ \E i \in 1..(Len(doc) - 1) : doc' = [doc EXCEPT ![i] = doc[i + 1], ![i + 1] = doc[i]] /\ UNCHANGED trail
     \/ \E i \in Idx : doc' = InsertAt(i, doc[i]) /\ UNCHANGED trail                           \* duplicate a line
     \/ \E i \in Idx : Len(doc) > 1 /\ doc' = DeleteAt(i) /\ UNCHANGED trail
     \/ \E i \in 1..(Len(doc) + 1), x \in ExtraLines : doc' = InsertAt(i, x) /\ UNCHANGED trail
     \/ \E t \in {"newline", "spaces", "junk"} : trail = "none" /\ trail' = t /\ UNCHANGED doc

Next == Edit
Spec == Init /\ [][Next]_vars

\* what the written specification says about a document -----------------------
Lines(k)  == {i \in Idx : doc[i].key = k}
ValOK(ln) == CASE ln.key = "version" -> ln.val \in VersionOK
               [] ln.key = "oid"     -> ln.val \in OidOK
               [] ln.key = "ext"     -> ln.val \in OidOK /\ ln.prio \in 0..9
               [] ln.key = "size"    -> ln.val \in SizeCanon \cup SizeLenient
               [] OTHER -> FALSE
GoodLines(k) == {i \in Lines(k) : ValOK(doc[i])}

\* MUST be rejected: the property lets the decoder either reject or return a
\* well-formed pointer that the document denotes; when the document has no
\* well-formed oid line or no well-formed size line no such pointer exists, so
\* rejection is the only conforming answer.  Everything else that is not the
\* canonical form (malformed extension lines that a later line overrides,
\* unknown versions, duplicate priorities, stray lines ...) is left open:
\* a decoder may reject it or may skip the offending line.
MustReject ==
  \/ GoodLines("oid") = {}
  \/ GoodLines("size") = {}

\* the canonical encoding of a valid pointer: MUST be accepted, canonical = TRUE
ExtPrios == [i \in 1..(Len(doc) - 3) |-> doc[i + 1].prio]
IsCanonicalDoc ==
  /\ trail = "none"
  /\ Len(doc) >= 3
  /\ \A i \in Idx : doc[i].term = "LF" /\ doc[i].pad = "none"
  /\ doc[1].key = "version" /\ doc[1].val = "latest"
  /\ doc[Len(doc) - 1].key = "oid" /\ doc[Len(doc) - 1].val \in OidOK
  /\ doc[Len(doc)].key = "size" /\ doc[Len(doc)].val \in SizeCanon
  /\ \A i \in 2..(Len(doc) - 2) : doc[i].key = "ext" /\ ValOK(doc[i])
  /\ \A i \in 2..(Len(doc) - 3) : doc[i].prio < doc[i + 1].prio

IsEmptyDoc == doc = <<>> /\ trail = "none"
Verdict == IF IsEmptyDoc THEN "empty" ELSE IF IsCanonicalDoc THEN "accept" ELSE IF MustReject THEN "reject" ELSE "either"

\* the pointer(s) the document may denote if accepted
Denotes == [oids  |-> {doc[i].val : i \in GoodLines("oid")},
            sizes |-> {doc[i].val : i \in GoodLines("size")},
            exts  |-> {<<doc[i].prio, doc[i].name, doc[i].val>> : i \in GoodLines("ext")}]
ZeroSized == \E i \in GoodLines("size") : doc[i].val \in {"zero", "negzero"}

Out == [doc |-> doc, trail |-> trail, verdict |-> Verdict, canonical |-> IsCanonicalDoc,
        denotes |-> Denotes, zero |-> ZeroSized, edits |-> nedits]

\* design-level sanity: the three verdicts partition, canonical documents are never rejectable
VerdictSound == ~(IsCanonicalDoc /\ MustReject)
\* the canonical form is unique: two canonical documents denoting the same pointer are equal
\* (checked here per state: a canonical document denotes exactly one pointer)
CanonicalDenotesOne == IsCanonicalDoc => (Cardinality(Denotes.oids) = 1 /\ Cardinality(Denotes.sizes) = 1
                                           /\ Cardinality(Denotes.exts) = Len(doc) - 3)

EmitState == Emit => CSVWrite("%1$s", <<ToJson(Out)>>, IOEnv.OUT)
=============================================================================
