------------------------------- MODULE Filter -------------------------------
(***************************************************************************)
(* C01 / C08: the clean and smudge filters as functions of the input bytes *)
(* only.  The input domain is abstracted into content classes (length      *)
(* classes around the 1024-byte pointer cut-off and the 65516-byte         *)
(* pkt-line payload limit; pointer look-alikes), the ways the bytes can be *)
(* delivered (chunking of the pipe, packetisation), the front-end, and     *)
(* what sits at the named path in the work tree.  The specification says   *)
(* which branch the filter must take — and that it depends on the content  *)
(* class alone: Branch(c) has no other argument.                           *)
(*                                                                         *)
(*   "empty"        empty in, empty out, nothing stored                    *)
(*   "passthrough"  a well-formed pointer shorter than 1024 bytes: written *)
(*                  back unchanged, nothing stored (C08)                   *)
(*   "content"      everything else: the canonical pointer of exactly      *)
(*                  (SHA-256, length) of the input, the input stored       *)
(*                  under that id (C01)                                    *)
(* With pointer extensions configured (docs/extensions.md) the "content"   *)
(* branch stores T(input), T being the composition of the extensions'      *)
(* clean programs in priority order; the pointer names (SHA-256, length)   *)
(* of T(input) and carries one line ext-<i>-<name> with the SHA-256 of     *)
(* that extension's input (a pass-through extension may be left out);      *)
(* smudge undoes T and returns the input.  Extension classes: "rot13"      *)
(* keeps the length, "gzip" shrinks compressible and grows other content,  *)
(* "base64" always grows, "rot13+gzip" is a chain of two.  The other two   *)
(* branches never look at the extensions.                                  *)
(* The long-running filter serves many files one after the other: prev is  *)
(* what the same process cleaned just before ("none": c is its first       *)
(* request; "empty" | "shortdata" | "ptr": a zero-byte file, ten bytes of   *)
(* content, a canonical pointer).  Branch(c) does not depend on it either. *)
(* A case is: clean(c) under (delivery, front-end, work-tree state), then  *)
(* smudge of what clean produced; smudge must return c's bytes.  TLC       *)
(* enumerates the product completely; the harness concretises each case.   *)
(***************************************************************************)
EXTENDS Integers, Sequences, FiniteSets, TLC, Json, CSV, IOUtils

CONSTANTS Contents,     \* content classes (records, see Filter_MC)
          Deliveries, FrontEnds, WtStates, Exts, Prevs, Emit

VARIABLES c, delivery, frontend, wt, ext, prev, phase, out, stored
vars == <<c, delivery, frontend, wt, ext, prev, phase, out, stored>>

\* a content class is [name, kind, len]; kind "data" | "ptr"; for kind "ptr", wf says
\* whether the bytes parse as a pointer (C07) — look-alikes that do not parse have wf = FALSE
IsWellFormedPointer(x) == x.kind = "ptr" /\ x.wf /\ x.len < 1024
Branch(x) == IF x.len = 0 THEN "empty" ELSE IF IsWellFormedPointer(x) THEN "passthrough" ELSE "content"

\* combinations that make sense (pruning inside Init, so it also holds for simulation)
Meaningful(x, d, f, w) ==
  /\ (ext # "none" => f \in {"oneshot", "process", "gitadd"} /\ d \in {"whole", "split_mid", "pkt1024", "pktmax"} /\ w \in {"none", "same"})
  /\ (prev # "none" => f \in {"process", "gitadd"} /\ ext = "none" /\ d \in {"whole", "pkt7", "pktmax"} /\ w \in {"none", "same"})
  /\ (f = "gitadd" => d = "whole" /\ w = "same")           \* git owns delivery and the file
  /\ (f = "mergedriver" => d = "whole" /\ w \in {"shorter", "longer"} /\ x.kind = "merge")   \* git merge through `git lfs merge-driver`:
                                                           \* w = how the previous pointer file compares in length with the new one
  /\ (x.kind = "merge" => f = "mergedriver")
  /\ (f = "process" => d \in {"pkt1", "pkt7", "pkt1024", "pktmax"})
  /\ (f = "oneshot" => d \notin {"pkt1", "pkt7", "pkt1024", "pktmax"})
  /\ (d = "bytes1" => x.len <= 70000)
  /\ (d = "pkt1" => x.len <= 3000)
  /\ (d = "pkt7" => x.len <= 70000)

Init == /\ c \in Contents /\ delivery \in Deliveries /\ frontend \in FrontEnds /\ wt \in WtStates /\ ext \in Exts /\ prev \in Prevs
        /\ Meaningful(c, delivery, frontend, wt)
        /\ phase = "start" /\ out = "none" /\ stored = FALSE

Clean == /\ phase = "start" /\ phase' = "cleaned"
         /\ out' = Branch(c)                    \* depends on c only: not on delivery, frontend, wt, ext, prev
         /\ stored' = (Branch(c) = "content")
         /\ UNCHANGED <<c, delivery, frontend, wt, ext, prev>>

Smudge == /\ phase = "cleaned" /\ phase' = "smudged"
          /\ out' = "original"                  \* smudging what clean produced yields c's bytes
          /\ UNCHANGED <<c, delivery, frontend, wt, ext, prev, stored>>

Next == Clean \/ Smudge
Spec == Init /\ [][Next]_vars

\* C08 on the design: a pointer is never stored (no pointer to a pointer); look-alikes are content
NoPointerToPointer == (phase # "start" /\ IsWellFormedPointer(c)) => ~stored
LookAlikeIsContent == (phase # "start" /\ c.kind = "ptr" /\ (~c.wf \/ c.len >= 1024)) => stored

Case == [content |-> c, delivery |-> delivery, frontend |-> frontend, wt |-> wt, ext |-> ext, prev |-> prev, branch |-> Branch(c)]
EmitState == (Emit /\ phase = "smudged") => CSVWrite("%1$s", <<ToJson(Case)>>, IOEnv.OUT)
=============================================================================
