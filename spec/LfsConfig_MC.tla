---------------------------- MODULE LfsConfig_MC ----------------------------
EXTENDS LfsConfig
K(n, d) == [name |-> n, doc |-> d, pat |-> n \in {"lfs.<url>.access", "remote.origin.lfsurl"}]
N(n, p) == [name |-> n, doc |-> TRUE, pat |-> p]
\* the other lines of the file: documented keys, two of them allow-listed by pattern
NeighAll == { N("ctx.access", TRUE), N("ctx.remote.lfsurl", TRUE), N("ctx.fetchexclude", FALSE), N("ctx.samekey", FALSE), N("ctx.dupkey", FALSE) }
KeysAll == { K("lfs.url", TRUE), K("remote.origin.lfsurl", TRUE), K("lfs.skipdownloaderrors", TRUE),
             K("lfs.<url>.access", TRUE),
             K("lfs.concurrenttransfers", FALSE), K("lfs.tustransfers", FALSE), K("lfs.basictransfersonly", FALSE),
             K("lfs.fetchrecentalways", FALSE), K("lfs.fetchrecentrefsdays", FALSE), K("lfs.fetchrecentcommitsdays", FALSE),
             K("lfs.fetchrecentremoterefs", FALSE), K("lfs.pruneoffsetdays", FALSE), K("lfs.pruneverifyremotealways", FALSE),
             K("lfs.pruneverifyunreachablealways", FALSE), K("lfs.pruneremotetocheck", FALSE), K("lfs.storage", FALSE),
             K("lfs.customtransfer.x.path", FALSE), K("lfs.extension.x.priority", FALSE), K("lfs.extension.x.clean", FALSE), K("lfs.extension.x.other", FALSE),
             K("lfs.standalonetransferagent", FALSE),
             K("remote.pushdefault", FALSE), K("remote.lfsdefault", FALSE), K("remote.lfspushdefault", FALSE),
             K("remote.origin.url", FALSE), K("remote.a.b.url", FALSE), K("remote.origin.pushurl", FALSE),
             K("url.<base>.insteadof", FALSE), K("filter.lfs.clean", FALSE),
             K("credential.helper", FALSE), K("core.askpass", FALSE), K("core.sshcommand", FALSE), K("http.proxy", FALSE),
             K("include.path", FALSE) }
SpellAll == {"lower", "mixed"}
LocAll   == {"worktree", "index", "head"}
=============================================================================
