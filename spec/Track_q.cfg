CONSTANTS
 Chars <- CharsAll
 MaxLen = 2
 MaxOps = 2
 PatternSet <- PatsQuick
 PreClasses <- PreAll
 Emit = TRUE
SPECIFICATION Spec
VIEW View
INVARIANT LiteralMeansLiteral
PROPERTY UntrackUndoes
ACTION_CONSTRAINT EmitEdge
CHECK_DEADLOCK FALSE
