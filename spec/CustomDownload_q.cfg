CONSTANTS
 MaxMsgs = 3
 Emit = FALSE
 Verify = TRUE
SPECIFICATION Spec
INVARIANT OkMeansValid
INVARIANT FailLeavesNoFinal
INVARIANT FinalOnlyValid
ACTION_CONSTRAINT EmitEdge
CHECK_DEADLOCK FALSE
