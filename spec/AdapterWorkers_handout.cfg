CONSTANTS
 N = 3
 MaxJobs = 4
 HandOutClears = TRUE
 Emit = FALSE
SPECIFICATION Spec
PROPERTY Terminates
INVARIANT EveryJobReportsOnce
INVARIANT OnlyWorker0BeforeGate
CONSTRAINT EmitInit
CHECK_DEADLOCK FALSE
