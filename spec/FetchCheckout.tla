---------------------------- MODULE FetchCheckout ----------------------------
(***************************************************************************)
(* C04: clone, `git lfs fetch`, `git lfs pull`, `git lfs checkout` in a     *)
(* second clone B of the published history of Repo.tla.                    *)
(*                                                                         *)
(*   bref       the commit B has checked out                               *)
(*   bstore[o]  "absent" | "valid": B's local object store                 *)
(*   bwt[p]     what sits at path p in B's work tree:                      *)
(*              "absent"  no entry in the tree, no file                    *)
(*              "rawfile" ordinary Git content                             *)
(*              "pointer" exactly the pointer recorded in the tree         *)
(*              "content" the object's bytes                               *)
(*              "missing" file deleted from the work tree (not staged)     *)
(*              "edited"  the user's own bytes                             *)
(*              "otherptr" a valid pointer for some other object           *)
(*              "emptied"  a file of zero bytes (the user truncated it)    *)
(* pull / checkout may only turn "pointer" and "missing" into "content"    *)
(* (when the object is available); everything else is left byte-identical. *)
(* fetch and pull take an include set and an exclude set of paths (-I / -X  *)
(* or lfs.fetchinclude / lfs.fetchexclude; an empty include set selects     *)
(* everything): only selected paths are fetched and materialised, the      *)
(* others stay what they were.                                             *)
(*   bref2      objects that sit in the LFS store of a repository B names  *)
(*              in objects/info/alternates (a reference store): as good as *)
(*              local - whatever command needs such an object takes it     *)
(*              from there (link or copy) instead of going without         *)
(***************************************************************************)
EXTENDS Repo

VARIABLES published, cloned, bref, bstore, bwt, bdone, bref2
cvars == <<rvars, published, cloned, bref, bstore, bwt, bdone, bref2, steps, hist>>
CView == <<rvars, published, cloned, bref, bstore, bwt, bdone, bref2>>

CInit == RepoInit /\ published = FALSE /\ cloned = FALSE /\ bref = NoCommit
         /\ bstore = [o \in Oids |-> "absent"] /\ bwt = [p \in Paths |-> "absent"] /\ bdone = FALSE /\ bref2 = {}

BUn == UNCHANGED <<published, cloned, bref, bstore, bwt, bdone, bref2>>
CCommit(b, p, blob, g) == ~published /\ Commit(b, p, blob, g) /\ BUn
CMerge(b, o)           == ~published /\ Merge(b, o) /\ BUn

AllOids == PtrOids({c \in 1..Len(commits) : TRUE}, commits)
Publish ==           \* clone A pushes every branch through the pre-push hook
  /\ ~published /\ br["main"] # NoCommit /\ published' = TRUE
  /\ rr' = br /\ rt' = br /\ server' = server \cup AllOids
  /\ everRemote' = everRemote \cup ReachSet({br[b] : b \in Branches}, commits)
  /\ UNCHANGED <<commits, br, head, local, cloned, bref, bstore, bwt, bdone, bref2>>
  /\ Log([a |-> "publish"])

ServerLoses(o) ==
  /\ published /\ ~cloned /\ o \in server /\ server' = server \ {o}
  /\ UNCHANGED <<commits, br, rr, rt, head, local, everRemote, published, cloned, bref, bstore, bwt, bdone, bref2>>
  /\ Log([a |-> "serverloses", oid |-> o])

TreeB == TreeOf(bref)
TreeOidsB == {TreeB[p] : p \in Paths} \cap Oids

CloneB(skip) ==
  /\ published /\ ~cloned /\ cloned' = TRUE
  /\ LET c == rr["main"] t == TreeOf(c) need == {t[p] : p \in Paths} \cap Oids IN
     /\ (~skip => need \subseteq server)             \* a smudging clone of an incomplete server is not a C04 scenario
     /\ bref' = c
     /\ bstore' = [o \in Oids |-> IF ~skip /\ o \in need THEN "valid" ELSE "absent"]
     /\ bwt' = [p \in Paths |-> IF t[p] = "none" THEN "absent" ELSE IF t[p] = "raw" THEN "rawfile"
                                ELSE IF skip THEN "pointer" ELSE "content"]
     /\ Log([a |-> "clone", skip |-> skip, wt |-> bwt', store |-> {o \in Oids : bstore'[o] = "valid"}])
  /\ UNCHANGED <<commits, br, rr, rt, head, local, server, everRemote, published, bdone, bref2>>

PerturbKinds == {"edited", "missing", "otherptr", "emptied"}
Perturb(p, k) ==     \* the user touches a tracked file
  /\ cloned /\ ~bdone /\ TreeB[p] \in Oids /\ bwt[p] \in {"pointer", "content"}
  /\ k \in PerturbKinds
  /\ bwt' = [bwt EXCEPT ![p] = k]
  /\ UNCHANGED <<commits, br, rr, rt, head, local, server, everRemote, published, cloned, bref, bstore, bdone, bref2>>
  /\ Log([a |-> "perturb", p |-> p, kind |-> k])

DropB(o) ==
  /\ cloned /\ ~bdone /\ bstore[o] = "valid" /\ bstore' = [bstore EXCEPT ![o] = "absent"]
  /\ UNCHANGED <<commits, br, rr, rt, head, local, server, everRemote, published, cloned, bref, bwt, bdone, bref2>>
  /\ Log([a |-> "dropb", oid |-> o])

\* the object moves from B's own store into the reference store B's alternates file names
ToReference(o) ==
  /\ cloned /\ ~bdone /\ bstore[o] = "valid" /\ bstore' = [bstore EXCEPT ![o] = "absent"] /\ bref2' = bref2 \cup {o}
  /\ UNCHANGED <<commits, br, rr, rt, head, local, server, everRemote, published, cloned, bref, bwt, bdone>>
  /\ Log([a |-> "toreference", oid |-> o])

Selected(inc, exc) == {p \in Paths : (inc = {} \/ p \in inc) /\ p \notin exc}
SelOids(sel) == {TreeB[p] : p \in sel} \cap Oids
Fetched(sel) == [o \in Oids |-> IF o \in SelOids(sel) /\ (o \in server \/ o \in bref2) THEN "valid" ELSE bstore[o]]
\* checkout downloads nothing, but what the reference store has is at hand for the files it has to write
Adopted == [o \in Oids |-> IF o \in bref2 /\ (\E p \in Paths : TreeB[p] = o /\ bwt[p] \in {"pointer", "missing"}) THEN "valid" ELSE bstore[o]]
\* a deleted file whose object is not available comes back as the pointer recorded for it
\* (the acceptor also allows it to stay missing: neither touches anything of the user's)
CheckedOut(st, sel) == [p \in Paths |-> IF p \notin sel THEN bwt[p]
                                   ELSE IF TreeB[p] \in Oids /\ bwt[p] \in {"pointer", "missing"} /\ st[TreeB[p]] = "valid"
                                   THEN "content"
                                   ELSE IF TreeB[p] \in Oids /\ bwt[p] = "missing" THEN "pointer" ELSE bwt[p]]

Cmd(kind, inc, exc) ==         \* kind \in {"fetch", "pull", "checkout"}: the verdict action, ends the behaviour
  /\ cloned /\ ~bdone /\ bdone' = TRUE
  /\ (kind = "checkout" => inc = {} /\ exc = {})
  /\ LET sel == Selected(inc, exc)
         st == IF kind = "checkout" THEN Adopted ELSE Fetched(sel)
         wt == IF kind = "fetch" THEN bwt ELSE CheckedOut(st, sel)
         complete == \A o \in SelOids(sel) : st[o] = "valid"
     IN /\ bstore' = st /\ bwt' = wt
        /\ Log([a |-> kind, inc |-> inc, exc |-> exc, ok |-> complete, store |-> {o \in Oids : st[o] = "valid"}, wt |-> wt,
                tree |-> TreeB, wtBefore |-> bwt, reference |-> bref2])
  /\ UNCHANGED <<commits, br, rr, rt, head, local, server, everRemote, published, cloned, bref, bref2>>

CNext == \/ \E b \in Branches, p \in Paths, blob \in Blobs, g \in Ages : CCommit(b, p, blob, g)
         \/ \E b, o \in Branches : CMerge(b, o)
         \/ Publish
         \/ \E o \in Oids : ServerLoses(o)
         \/ \E s \in BOOLEAN : CloneB(s)
         \/ \E p \in Paths, k \in PerturbKinds : Perturb(p, k)
         \/ \E o \in Oids : DropB(o) \/ ToReference(o)
         \/ \E k \in {"fetch", "pull", "checkout"}, inc, exc \in SUBSET Paths : Cmd(k, inc, exc)
CSpec == CInit /\ [][CNext]_cvars

\* C04 on the design
NoClobber == [][(bdone' /\ ~bdone) => \A p \in Paths : bwt[p] \in {"edited", "otherptr", "emptied", "rawfile", "content"} => bwt'[p] = bwt[p]]_cvars
OnlyValidStored == \A o \in Oids : bstore[o] = "valid" => (o \in server \/ o \in AllOids)

EmitCmd == (Emit /\ bdone' /\ ~bdone) => CSVWrite("%1$s", <<ToJson(hist')>>, IOEnv.OUT)
=============================================================================
