CONSTANTS
 Keys <- KeysAll
 Neighbours <- NeighAll
 Spellings <- SpellAll
 Locations <- LocAll
 MaxBefore = 1
 MaxAfter = 1
 Thin = TRUE
 Stateful = FALSE
 Forms = {"plain", "access-suffix"}
 PrefixMatch = TRUE
 Emit = FALSE
SPECIFICATION Spec
INVARIANT OnlyDocumented
INVARIANT GitWins
INVARIANT Independent
CONSTRAINT EmitState
CHECK_DEADLOCK FALSE
