------------------------------- MODULE Locking -------------------------------
(***************************************************************************)
(* C16: file locking with two users, their clones and one lock server.     *)
(*                                                                         *)
(*   server[p]      owner of the lock on path p, or "none"                 *)
(*   cache[u]       what the ideal client of user u has cached as its own  *)
(*                  locks (refreshed exactly by `locks --verify`)          *)
(*   writable[u][p] write bit of the lockable file p in u's work tree      *)
(*   dirty[u][p]    "no", or how p's uncommitted change sits in u's clone   *)
(*                  (EditKinds: work tree only, staged, both)              *)
(*   order          the locked paths in the order the server lists them    *)
(*   page           how many locks the server puts on one page of a lock   *)
(*                  list / verify answer (0: all of them); fixed per run   *)
(* Each action is one command (or hook run) of one user; the log carries   *)
(* what the property demands to be observable afterwards.                  *)
(* `locks --verify` and the pre-push verification walk the pages of the    *)
(* server's answer (locking.SearchLocksVerifiable: clear the cache once,   *)
(* then add the own locks of every page); ClearPerPage = TRUE is the       *)
(* variant that clears the cache for every page and must violate           *)
(* FreshAfterVerify.                                                       *)
(***************************************************************************)
EXTENDS Integers, Sequences, FiniteSets, TLC, Json, CSV, IOUtils

CONSTANTS Users, Paths, MaxOps, Emit, PageSizes, ClearPerPage

VARIABLES server, order, page, cache, writable, dirty, nops, done, hist
vars == <<server, order, page, cache, writable, dirty, nops, done, hist>>
View == <<server, order, page, cache, writable, dirty, done>>

Own(u) == {p \in Paths : server[p] = u}

\* the pages of a lock listing
Min(a, b) == IF a < b THEN a ELSE b
NPages == IF page = 0 \/ order = <<>> THEN 1 ELSE (Len(order) + page - 1) \div page
PageAt(i) == IF page = 0 THEN order ELSE SubSeq(order, (i - 1) * page + 1, Min(i * page, Len(order)))
OursOn(u, i) == {PageAt(i)[k] : k \in DOMAIN PageAt(i)} \cap Own(u)
\* what the walk over the pages leaves in the cache of own locks
Walk(u) == IF ClearPerPage THEN OursOn(u, NPages) ELSE UNION {OursOn(u, i) : i \in 1..NPages}
Without(s, p) == SelectSeq(s, LAMBDA x : x # p)

Init == /\ server = [p \in Paths |-> "none"] /\ order = <<>> /\ page \in PageSizes
        /\ cache = [u \in Users |-> {}]
        /\ writable = [u \in Users |-> [p \in Paths |-> FALSE]]     \* lockable files start read-only
        /\ dirty = [u \in Users |-> [p \in Paths |-> "no"]]
        /\ nops = 0 /\ done = FALSE /\ hist = <<>>

Dirty(u, p) == dirty[u][p] # "no"
Log(r) == /\ ~done /\ nops < MaxOps /\ nops' = nops + 1 /\ page' = page
          /\ hist' = Append(hist, r @@ [page |-> page])

Lock(u, p) ==
  LET ok == server[p] = "none" IN
  /\ server' = IF ok THEN [server EXCEPT ![p] = u] ELSE server
  /\ order' = IF ok THEN Append(order, p) ELSE order
  /\ cache' = IF ok THEN [cache EXCEPT ![u] = @ \cup {p}] ELSE cache
  /\ writable' = IF ok THEN [writable EXCEPT ![u][p] = TRUE] ELSE writable
  /\ UNCHANGED <<dirty, done>>
  /\ Log([a |-> "lock", u |-> u, p |-> p, ok |-> ok, force |-> FALSE, byid |-> FALSE,
          cacheHas |-> IF ok THEN {p} ELSE {}, cacheLacks |-> {}, cacheExact |-> FALSE, cacheIs |-> {},
          writableIs |-> IF ok THEN {p} ELSE {}, readonlyIs |-> {}, serverAfter |-> server'])

\* unlock by path or by id; without --force it must be the user's own lock and the file must be clean
Unlock(u, p, force, byid) ==
  LET ok == server[p] # "none" /\ (force \/ (server[p] = u /\ ~Dirty(u, p))) IN
  /\ server[p] # "none"
  /\ server' = IF ok THEN [server EXCEPT ![p] = "none"] ELSE server
  /\ order' = IF ok THEN Without(order, p) ELSE order
  \* releasing one's own lock removes it from the cache; breaking somebody else's lock says nothing
  \* about an older (stale) entry of one's own for the same path
  /\ cache' = IF ok /\ server[p] = u THEN [cache EXCEPT ![u] = @ \ {p}] ELSE cache
  /\ writable' = IF ok THEN [writable EXCEPT ![u][p] = FALSE] ELSE writable
  /\ UNCHANGED <<dirty, done>>
  /\ Log([a |-> "unlock", u |-> u, p |-> p, ok |-> ok, force |-> force, byid |-> byid,
          cacheHas |-> {}, cacheLacks |-> IF ok /\ server[p] = u THEN {p} ELSE {}, cacheExact |-> FALSE, cacheIs |-> {},
          writableIs |-> {}, readonlyIs |-> IF ok /\ ~Dirty(u, p) THEN {p} ELSE {}, serverAfter |-> server'])

\* git lfs lock <p> <q> / git lfs unlock <p> <q>: the paths are tried one after the other in the order
\* given, each on its own terms; what was granted (released) stays granted (released) and is recorded
\* although the command as a whole reports failure when any path was refused
Orders == {o \in Paths \X Paths : o[1] # o[2]}
Rng(s) == {s[i] : i \in DOMAIN s}
LockMany(u, ord) ==
  LET granted == {p \in Rng(ord) : server[p] = "none"} IN
  /\ ord \in Orders
  /\ server' = [p \in Paths |-> IF p \in granted THEN u ELSE server[p]]
  /\ order' = order \o SelectSeq(ord, LAMBDA p : p \in granted)
  /\ cache' = [cache EXCEPT ![u] = @ \cup granted]
  /\ writable' = [writable EXCEPT ![u] = [p \in Paths |-> IF p \in granted THEN TRUE ELSE @[p]]]
  /\ UNCHANGED <<dirty, done>>
  /\ Log([a |-> "lockmany", u |-> u, p |-> "", ps |-> ord, ok |-> (granted = Rng(ord)), force |-> FALSE, byid |-> FALSE,
          cacheHas |-> granted, cacheLacks |-> {}, cacheExact |-> FALSE, cacheIs |-> {},
          writableIs |-> granted, readonlyIs |-> {}, serverAfter |-> server'])
UnlockMany(u, ord, force) ==
  LET released == {p \in Rng(ord) : server[p] # "none" /\ (force \/ (server[p] = u /\ ~Dirty(u, p)))} IN
  /\ ord \in Orders /\ \E p \in Rng(ord) : server[p] # "none"
  /\ server' = [p \in Paths |-> IF p \in released THEN "none" ELSE server[p]]
  /\ order' = SelectSeq(order, LAMBDA x : x \notin released)
  /\ cache' = [cache EXCEPT ![u] = @ \ {p \in released : server[p] = u}]
  /\ writable' = [writable EXCEPT ![u] = [p \in Paths |-> IF p \in released THEN FALSE ELSE @[p]]]
  /\ UNCHANGED <<dirty, done>>
  /\ Log([a |-> "unlockmany", u |-> u, p |-> "", ps |-> ord, ok |-> (released = Rng(ord)), force |-> force, byid |-> FALSE,
          cacheHas |-> {}, cacheLacks |-> {p \in released : server[p] = u}, cacheExact |-> FALSE, cacheIs |-> {},
          writableIs |-> {}, readonlyIs |-> {p \in released : ~Dirty(u, p)}, serverAfter |-> server'])

Verify(u) ==         \* git lfs locks --verify : the cache of own locks is refreshed from the server
  /\ cache' = [cache EXCEPT ![u] = Walk(u)]
  /\ UNCHANGED <<server, order, writable, dirty, done>>
  /\ Log([a |-> "verify", u |-> u, p |-> "", ok |-> TRUE, force |-> FALSE, byid |-> FALSE,
          cacheHas |-> {}, cacheLacks |-> {}, cacheExact |-> TRUE, cacheIs |-> Walk(u),
          writableIs |-> {}, readonlyIs |-> {}, serverAfter |-> server])

\* post-checkout of files, or post-merge after a merge that brought in a change to some other file: the
\* hook has no list of changed files and sets the write bit of every lockable file from the cached own
\* locks (kind is how the hook run comes about, never an argument of what it must leave behind)
HookKinds == {"checkout", "merge"}
Hook(u, kind) ==
  /\ kind \in HookKinds
  /\ (kind = "merge" => \A p \in Paths : dirty[u][p] \in {"no", "worktree"})   \* Git refuses to merge while changes are staged
  /\ writable' = [writable EXCEPT ![u] = [p \in Paths |-> p \in cache[u] \/ (Dirty(u, p) /\ writable[u][p])]]
  /\ UNCHANGED <<server, order, cache, dirty, done>>
  /\ Log([a |-> "hook", kind |-> kind, u |-> u, p |-> "", ok |-> TRUE, force |-> FALSE, byid |-> FALSE,
          cacheHas |-> {}, cacheLacks |-> {}, cacheExact |-> FALSE, cacheIs |-> {},
          writableIs |-> cache[u], readonlyIs |-> {p \in Paths : p \notin cache[u]}, serverAfter |-> server])

\* how an uncommitted change sits in the repository: in the work tree only, staged completely
\* (work tree and index agree again), or staged and then changed once more
EditKinds == {"worktree", "staged", "both"}
Edit(u, p, kind) ==  \* the user changes a file they may write
  /\ writable[u][p] /\ ~Dirty(u, p) /\ kind \in EditKinds
  /\ dirty' = [dirty EXCEPT ![u][p] = kind]
  /\ UNCHANGED <<server, order, cache, writable, done>>
  /\ Log([a |-> "edit", kind |-> kind, u |-> u, p |-> p, ok |-> TRUE, force |-> FALSE, byid |-> FALSE,
          cacheHas |-> {}, cacheLacks |-> {}, cacheExact |-> FALSE, cacheIs |-> {},
          writableIs |-> {}, readonlyIs |-> {}, serverAfter |-> server])

Push(u, p) ==        \* commit a change to p and push it with lock verification on; ends the behaviour
  LET ok == server[p] \in {"none", u} IN
  /\ done' = TRUE
  /\ UNCHANGED <<server, order, cache, writable, dirty>>
  /\ Log([a |-> "push", u |-> u, p |-> p, ok |-> ok, force |-> FALSE, byid |-> FALSE,
          cacheHas |-> {}, cacheLacks |-> {}, cacheExact |-> FALSE, cacheIs |-> {},
          writableIs |-> {}, readonlyIs |-> {}, serverAfter |-> server])

Next == \E u \in Users :
          \/ \E p \in Paths : Lock(u, p) \/ Push(u, p) \/ \E k \in EditKinds : Edit(u, p, k)
          \/ \E p \in Paths, f, i \in BOOLEAN : Unlock(u, p, f, i)
          \/ \E ord \in Orders : LockMany(u, ord) \/ \E f \in BOOLEAN : UnlockMany(u, ord, f)
          \/ Verify(u) \/ \E k \in HookKinds : Hook(u, k)
Spec == Init /\ [][Next]_vars

\* ---- C16 on the design ---------------------------------------------------------
AtMostOneOwner == \A p \in Paths : server[p] \in Users \cup {"none"}
\* a cache entry can only be wrong because somebody else released (and possibly re-took) the lock
\* since this user's last refresh; right after a refresh the cache is exactly the user's own locks
FreshAfterVerify == [][\A u \in Users : (hist'[Len(hist')].a = "verify" /\ hist'[Len(hist')].u = u) => cache'[u] = {p \in Paths : server'[p] = u}]_vars
NoUnlockDirty == [][\A u \in Users, p \in Paths :
                     (Dirty(u, p) /\ server[p] = u /\ server'[p] = "none" /\ hist'[Len(hist')].u = u) => hist'[Len(hist')].force]_vars
\* a command that fails as a whole still leaves the cache agreeing with what it did on the server
PartialRecorded == [][\A u \in Users, p \in Paths :
                     (hist'[Len(hist')].u = u /\ server[p] # u /\ server'[p] = u) => p \in cache'[u]]_vars

EmitEdge == Emit => CSVWrite("%1$s", <<ToJson(hist')>>, IOEnv.OUT)
=============================================================================
