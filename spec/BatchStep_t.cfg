CONSTANTS
 Oids = {"a","b","c"}
 MaxAdds = 3
 BatchSize = 3
 MaxRetries = 2
 Fixed = TRUE
 Emit = FALSE
 RespKinds = {"action","noaction","error","expired","omit","twice","unknown"}
 AdKinds = {"ok","retriable","later","fatal","unproc"}
 BatchKinds = {"ok","retriable","later","hard"}
SPECIFICATION StepSpec
INVARIANT NoPanic
INVARIANT EachAccountedOnce
INVARIANT WaitIsOutstanding
INVARIANT WithinBudget
INVARIANT NoPhantom
ACTION_CONSTRAINT EmitStep
CHECK_DEADLOCK FALSE
