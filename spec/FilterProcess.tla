--------------------------- MODULE FilterProcess ---------------------------
(***************************************************************************)
(* C14: request programs for `git lfs filter-process` that obey Git's      *)
(* client grammar (gitattributes(5), "Long Running Filter Process" and     *)
(* "Delay").  This module generates the first phase of a session - a       *)
(* sequence of clean and smudge requests; the harness then plays Git's     *)
(* second phase itself (list_available_blobs, retrieve every listed path,  *)
(* repeat until the list is empty) and the recorded exchange is judged by  *)
(* the acceptor FilterProcessTrace.                                        *)
(*                                                                         *)
(* A request is [cmd, what]: clean of "data" / "pointer" / "empty" input,  *)
(* or smudge of the pointer of an object that is "local", only on the      *)
(* "server", or "missing" everywhere, with or without can-delay.  Paths    *)
(* are assigned by position; "shared" smudges reuse the previous request's *)
(* object under a new path (one blob, two paths).                          *)
(* off says whether smudging is switched off for the session: "skip"       *)
(* (GIT_LFS_SKIP_SMUDGE) or "exclude" (lfs.fetchexclude names the paths);  *)
(* every smudge request is then answered with the pointer it was given,    *)
(* as the one-shot filter does, wherever the object is.                    *)
(***************************************************************************)
EXTENDS Integers, Sequences, FiniteSets, TLC, Json, CSV, IOUtils

CONSTANTS MaxReq, Emit

Requests == {[cmd |-> "clean", what |-> w, delay |-> FALSE] : w \in {"data", "pointer", "empty"}}
       \cup {[cmd |-> "smudge", what |-> w, delay |-> d] : w \in {"local", "server", "server2", "missing", "shared"}, d \in BOOLEAN}

VARIABLES prog, capDelay, skipErr, off
vars == <<prog, capDelay, skipErr, off>>
Offs == {"no", "skip", "exclude"}

Init == prog = <<>> /\ capDelay \in BOOLEAN /\ skipErr \in BOOLEAN /\ off \in Offs

\* Git only says can-delay=1 when the filter announced the capability
Allowed(r) == /\ (r.delay => capDelay)
              /\ (r.what = "shared" => Len(prog) > 0 /\ prog[Len(prog)].cmd = "smudge" /\ prog[Len(prog)].what \in {"server", "server2"})
Add(r) == /\ Len(prog) < MaxReq /\ Allowed(r)
          /\ prog' = Append(prog, r) /\ UNCHANGED <<capDelay, skipErr, off>>
Next == \E r \in Requests : Add(r)
Spec == Init /\ [][Next]_vars

\* what Git does next: it asks for available blobs iff something was delayed
NeedsDrain == off = "no" /\ \E i \in DOMAIN prog : prog[i].cmd = "smudge" /\ prog[i].delay /\ prog[i].what # "local"

Out == [prog |-> prog', capDelay |-> capDelay, skipErr |-> skipErr, off |-> off]
EmitEdge == Emit => CSVWrite("%1$s", <<ToJson(Out)>>, IOEnv.OUT)
=============================================================================
