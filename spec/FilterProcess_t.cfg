CONSTANTS
 MaxReq = 4
 Emit = TRUE
SPECIFICATION Spec
ACTION_CONSTRAINT EmitEdge
CHECK_DEADLOCK FALSE
