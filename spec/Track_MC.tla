------------------------------ MODULE Track_MC ------------------------------
EXTENDS Track
CharsAll   == {"a", "sp", "hash", "bang", "quote", "star", "qmark", "lbr", "rbr", "bslash", "tab", "nonascii", "dot", "uspace"}
PatsQuick  == { <<"star", "dot", "a">>, <<"a", "qmark">>, <<"a", "sp", "star">>, <<"hash", "star">> }
PreAll     == {"absent", "commented", "crlf", "noeol", "oneline", "oneline-plain"}
=============================================================================
