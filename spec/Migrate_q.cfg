CONSTANTS
 Oids = {"o1"}
 Paths = {"p1","p2"}
 Branches = {"main","dev"}
 Ages = {0, 1}
 MaxCommits = 4
 MaxSteps = 6
 Emit = FALSE
 Skew = TRUE
 WithAttrs = TRUE
 Selections = {{"p1"}, {"p1","p2"}}
SPECIFICATION MSpec
VIEW MView
INVARIANT OnlySelectedChange
INVARIANT OnlyMarkedChange
PROPERTY ExportRestores
ACTION_CONSTRAINT EmitMigrate
CHECK_DEADLOCK FALSE
