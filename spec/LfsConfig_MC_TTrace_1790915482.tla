---- MODULE LfsConfig_MC_TTrace_1790915482 ----
EXTENDS Sequences, TLCExt, LfsConfig_MC, Toolbox, Naturals, TLC

_expression ==
    LET LfsConfig_MC_TEExpression == INSTANCE LfsConfig_MC_TEExpression
    IN LfsConfig_MC_TEExpression!expression
----

_trace ==
    LET LfsConfig_MC_TETrace == INSTANCE LfsConfig_MC_TETrace
    IN LfsConfig_MC_TETrace!trace
----

_inv ==
    ~(
        TLCGet("level") = Len(_TETrace)
        /\
        effective = ("undecided")
        /\
        gitconfig = ("unread")
        /\
        alsoGit = (FALSE)
        /\
        form = ("plain")
        /\
        before = (<<[name |-> "ctx.access", doc |-> TRUE, pat |-> TRUE]>>)
        /\
        spelling = ("lower")
        /\
        allowed = (TRUE)
        /\
        i = (3)
        /\
        location = ("worktree")
        /\
        after = (<<>>)
        /\
        kept = ({1, 2})
        /\
        key = ([name |-> "lfs.concurrenttransfers", doc |-> FALSE, pat |-> FALSE])
    )
----

_init ==
    /\ gitconfig = _TETrace[1].gitconfig
    /\ before = _TETrace[1].before
    /\ i = _TETrace[1].i
    /\ location = _TETrace[1].location
    /\ kept = _TETrace[1].kept
    /\ spelling = _TETrace[1].spelling
    /\ alsoGit = _TETrace[1].alsoGit
    /\ effective = _TETrace[1].effective
    /\ allowed = _TETrace[1].allowed
    /\ after = _TETrace[1].after
    /\ form = _TETrace[1].form
    /\ key = _TETrace[1].key
----

_next ==
    /\ \E i,j \in DOMAIN _TETrace:
        /\ \/ /\ j = i + 1
              /\ i = TLCGet("level")
        /\ gitconfig  = _TETrace[i].gitconfig
        /\ gitconfig' = _TETrace[j].gitconfig
        /\ before  = _TETrace[i].before
        /\ before' = _TETrace[j].before
        /\ i  = _TETrace[i].i
        /\ i' = _TETrace[j].i
        /\ location  = _TETrace[i].location
        /\ location' = _TETrace[j].location
        /\ kept  = _TETrace[i].kept
        /\ kept' = _TETrace[j].kept
        /\ spelling  = _TETrace[i].spelling
        /\ spelling' = _TETrace[j].spelling
        /\ alsoGit  = _TETrace[i].alsoGit
        /\ alsoGit' = _TETrace[j].alsoGit
        /\ effective  = _TETrace[i].effective
        /\ effective' = _TETrace[j].effective
        /\ allowed  = _TETrace[i].allowed
        /\ allowed' = _TETrace[j].allowed
        /\ after  = _TETrace[i].after
        /\ after' = _TETrace[j].after
        /\ form  = _TETrace[i].form
        /\ form' = _TETrace[j].form
        /\ key  = _TETrace[i].key
        /\ key' = _TETrace[j].key

\* Uncomment the ASSUME below to write the states of the error trace
\* to the given file in Json format. Note that you can pass any tuple
\* to `JsonSerialize`. For example, a sub-sequence of _TETrace.
    \* ASSUME
    \*     LET J == INSTANCE Json
    \*         IN J!JsonSerialize("LfsConfig_MC_TTrace_1790915482.json", _TETrace)

=============================================================================

 Note that you can extract this module `LfsConfig_MC_TEExpression`
  to a dedicated file to reuse `expression` (the module in the 
  dedicated `LfsConfig_MC_TEExpression.tla` file takes precedence 
  over the module `LfsConfig_MC_TEExpression` below).

---- MODULE LfsConfig_MC_TEExpression ----
EXTENDS Sequences, TLCExt, LfsConfig_MC, Toolbox, Naturals, TLC

expression == 
    [
        \* To hide variables of the `LfsConfig_MC` spec from the error trace,
        \* remove the variables below.  The trace will be written in the order
        \* of the fields of this record.
        gitconfig |-> gitconfig
        ,before |-> before
        ,i |-> i
        ,location |-> location
        ,kept |-> kept
        ,spelling |-> spelling
        ,alsoGit |-> alsoGit
        ,effective |-> effective
        ,allowed |-> allowed
        ,after |-> after
        ,form |-> form
        ,key |-> key
        
        \* Put additional constant-, state-, and action-level expressions here:
        \* ,_stateNumber |-> _TEPosition
        \* ,_gitconfigUnchanged |-> gitconfig = gitconfig'
        
        \* Format the `gitconfig` variable as Json value.
        \* ,_gitconfigJson |->
        \*     LET J == INSTANCE Json
        \*     IN J!ToJson(gitconfig)
        
        \* Lastly, you may build expressions over arbitrary sets of states by
        \* leveraging the _TETrace operator.  For example, this is how to
        \* count the number of times a spec variable changed up to the current
        \* state in the trace.
        \* ,_gitconfigModCount |->
        \*     LET F[s \in DOMAIN _TETrace] ==
        \*         IF s = 1 THEN 0
        \*         ELSE IF _TETrace[s].gitconfig # _TETrace[s-1].gitconfig
        \*             THEN 1 + F[s-1] ELSE F[s-1]
        \*     IN F[_TEPosition - 1]
    ]

=============================================================================



Parsing and semantic processing can take forever if the trace below is long.
 In this case, it is advised to uncomment the module below to deserialize the
 trace from a generated binary file.

\*
\*---- MODULE LfsConfig_MC_TETrace ----
\*EXTENDS IOUtils, LfsConfig_MC, TLC
\*
\*trace == IODeserialize("LfsConfig_MC_TTrace_1790915482.bin", TRUE)
\*
\*=============================================================================
\*

---- MODULE LfsConfig_MC_TETrace ----
EXTENDS LfsConfig_MC, TLC

trace == 
    <<
    ([effective |-> "undecided",gitconfig |-> "unread",alsoGit |-> FALSE,form |-> "plain",before |-> <<[name |-> "ctx.access", doc |-> TRUE, pat |-> TRUE]>>,spelling |-> "lower",allowed |-> FALSE,i |-> 1,location |-> "worktree",after |-> <<>>,kept |-> {},key |-> [name |-> "lfs.concurrenttransfers", doc |-> FALSE, pat |-> FALSE]]),
    ([effective |-> "undecided",gitconfig |-> "unread",alsoGit |-> FALSE,form |-> "plain",before |-> <<[name |-> "ctx.access", doc |-> TRUE, pat |-> TRUE]>>,spelling |-> "lower",allowed |-> TRUE,i |-> 2,location |-> "worktree",after |-> <<>>,kept |-> {1},key |-> [name |-> "lfs.concurrenttransfers", doc |-> FALSE, pat |-> FALSE]]),
    ([effective |-> "undecided",gitconfig |-> "unread",alsoGit |-> FALSE,form |-> "plain",before |-> <<[name |-> "ctx.access", doc |-> TRUE, pat |-> TRUE]>>,spelling |-> "lower",allowed |-> TRUE,i |-> 3,location |-> "worktree",after |-> <<>>,kept |-> {1, 2},key |-> [name |-> "lfs.concurrenttransfers", doc |-> FALSE, pat |-> FALSE]])
    >>
----


=============================================================================

---- CONFIG LfsConfig_MC_TTrace_1790915482 ----
CONSTANTS
    Keys <- KeysAll
    Neighbours <- NeighAll
    Spellings <- SpellAll
    Locations <- LocAll
    MaxBefore = 1
    MaxAfter = 1
    Thin = TRUE
    Stateful = TRUE
    Forms = { "plain" , "access-suffix" }
    PrefixMatch = FALSE
    Emit = FALSE

INVARIANT
    _inv

CHECK_DEADLOCK
    \* CHECK_DEADLOCK off because of PROPERTY or INVARIANT above.
    FALSE

INIT
    _init

NEXT
    _next

CONSTANT
    _TETrace <- _trace

ALIAS
    _expression
=============================================================================
\* Generated on Fri Oct 02 04:31:24 UTC 2026