CONSTANTS
 Oids = {"o1","o2"}
 Paths = {"p1"}
 Branches = {"main","dev"}
 Ages = {0}
 MaxCommits = 5
 MaxSteps = 7
 Emit = FALSE
 Skew = FALSE
 Modes = {"git-push"}
 SmudgedWT = FALSE
 RecentDays = 10
 CommitWindows = {0, 21}
 EmitSel = 0
 Thin = FALSE
 PruneFlags = {"none","force","verify-remote"}
SPECIFICATION PSpecM
VIEW PView
PROPERTY NeverPrunesNeeded
ACTION_CONSTRAINT EmitPrune
CHECK_DEADLOCK FALSE
