------------------------------- MODULE Storage -------------------------------
(***************************************************************************)
(* C09: the protocol by which git-lfs puts files into, and takes them out  *)
(* of, local object storage, with a crash (SIGKILL of the process) enabled *)
(* in every state and a re-run of the same command afterwards.             *)
(*                                                                         *)
(* A file is [area, name, st]: area in {"tmp", "incomplete", "objects",    *)
(* "bad"}; st in {"empty", "partial", "full", "corrupt"} says how its      *)
(* bytes relate to the object its name stands for.  Commands:              *)
(*   store(o)   clean / download: create a temp, write it in bursts,       *)
(*              (download: compare the hash), rename it into objects/      *)
(*   adopt(o)   fetch / smudge with a reference (alternates) store that    *)
(*              has o: hard-link it into objects/ (atomic), or - when the  *)
(*              two stores are on different filesystems - copy it the way  *)
(*              store does (lfs.LinkOrCopy -> CopyFileContents)            *)
(*   repair(o)  fsck: move a corrupt objects/o to bad/o                    *)
(*   drop(o)    prune: unlink objects/o                                    *)
(* Variant selects the order of steps: "code" is the order of the code;    *)
(* "rename-first" and "in-place" are mutants kept as non-vacuity witnesses *)
(* (TLC must find ObjectsSound violated for them).                         *)
(***************************************************************************)
EXTENDS Integers, Sequences, FiniteSets, TLC

CONSTANTS Oids, Bursts, Variant, Job     \* Job: sequence of [cmd, o] the command has to do

VARIABLES files, pc, cur, written, alive, crashes, jobpos
vars == <<files, pc, cur, written, alive, crashes, jobpos>>

F(a, n, s) == [area |-> a, name |-> n, st |-> s]
InObjects(o) == \E f \in files : f.area = "objects" /\ f.name = o
Init == /\ files = {F("objects", o, "corrupt") : o \in {j.o : j \in {Job[i] : i \in DOMAIN Job}} \cap {x \in Oids : \E i \in DOMAIN Job : Job[i] = [cmd |-> "repair", o |-> x]}}
              \cup {F("objects", o, "full") : o \in {x \in Oids : \E i \in DOMAIN Job : Job[i] = [cmd |-> "drop", o |-> x]}}
        /\ pc = "next" /\ cur = "" /\ written = 0 /\ alive = TRUE /\ crashes = 0 /\ jobpos = 1

TmpArea == IF Variant = "in-place" THEN "objects" ELSE "tmp"
Tmp == CHOOSE f \in files : f.area = TmpArea /\ f.name = cur /\ (TmpArea = "tmp" \/ f.st # "full")

NextJob ==
  /\ alive /\ pc = "next" /\ jobpos <= Len(Job)
  /\ cur' = Job[jobpos].o /\ written' = 0
  /\ pc' = CASE Job[jobpos].cmd = "store"  -> (IF InObjects(Job[jobpos].o) /\ Variant # "in-place" THEN "skip" ELSE "create")
             [] Job[jobpos].cmd = "adopt"  -> (IF InObjects(Job[jobpos].o) /\ Variant # "in-place" THEN "skip" ELSE "link")
             [] Job[jobpos].cmd = "repair" -> "move"
             [] OTHER -> "unlink"
  /\ UNCHANGED <<files, alive, crashes, jobpos>>
Skip == alive /\ pc = "skip" /\ pc' = "next" /\ jobpos' = jobpos + 1 /\ UNCHANGED <<files, cur, written, alive, crashes>>

CreateTemp ==                                \* tools.TempFile
  /\ alive /\ pc = "create"
  /\ files' = {f \in files : ~(f.area = TmpArea /\ f.name = cur /\ f.st # "full")} \cup {F(TmpArea, cur, "empty")}
  /\ pc' = IF Variant = "rename-first" THEN "rename" ELSE "write"
  /\ UNCHANGED <<cur, written, alive, crashes, jobpos>>

WriteBurst ==                                \* one Write of tools.CopyWithCallback
  /\ alive /\ pc = "write" /\ written < Bursts
  /\ written' = written + 1
  /\ LET a == IF Variant = "rename-first" THEN "objects" ELSE TmpArea
         st == IF written + 1 = Bursts THEN "full" ELSE "partial" IN
     files' = {f \in files : ~(f.area = a /\ f.name = cur)} \cup {F(a, cur, st)}
  /\ pc' = IF written + 1 = Bursts THEN (IF Variant = "code" THEN "rename" ELSE "done1") ELSE "write"
  /\ UNCHANGED <<cur, alive, crashes, jobpos>>

Rename ==                                    \* os.Rename(tmp, objects/aa/bb/oid): atomic
  /\ alive /\ pc = "rename"
  /\ LET t == CHOOSE f \in files : f.area = TmpArea /\ f.name = cur IN
     files' = (files \ {t}) \cup {F("objects", cur, t.st)}
  /\ pc' = IF Variant = "rename-first" THEN "write" ELSE "done1"
  /\ UNCHANGED <<cur, written, alive, crashes, jobpos>>

\* os.Link(reference/o, objects/o): the whole file appears at once ...
Link == /\ alive /\ pc = "link"
        /\ files' = files \cup {F("objects", cur, "full")}
        /\ pc' = "done1"
        /\ UNCHANGED <<cur, written, alive, crashes, jobpos>>
\* ... or the link is refused (other filesystem) and the bytes are copied through a temporary file
LinkRefused == alive /\ pc = "link" /\ pc' = "create" /\ UNCHANGED <<files, cur, written, alive, crashes, jobpos>>

Done1 == alive /\ pc = "done1" /\ pc' = "next" /\ jobpos' = jobpos + 1 /\ UNCHANGED <<files, cur, written, alive, crashes>>

MoveToBad ==                                 \* fsck: os.Rename(objects/o, bad/o)
  /\ alive /\ pc = "move"
  /\ files' = {IF f.area = "objects" /\ f.name = cur /\ f.st = "corrupt" THEN F("bad", cur, "corrupt") ELSE f : f \in files}
  /\ pc' = "next" /\ jobpos' = jobpos + 1
  /\ UNCHANGED <<cur, written, alive, crashes>>

Unlink ==                                    \* prune: os.Remove(objects/o)
  /\ alive /\ pc = "unlink"
  /\ files' = {f \in files : ~(f.area = "objects" /\ f.name = cur)}
  /\ pc' = "next" /\ jobpos' = jobpos + 1
  /\ UNCHANGED <<cur, written, alive, crashes>>

Crash == alive /\ crashes < 2 /\ jobpos <= Len(Job) /\ alive' = FALSE /\ crashes' = crashes + 1
         /\ UNCHANGED <<files, pc, cur, written, jobpos>>
Rerun == ~alive /\ alive' = TRUE /\ pc' = "next" /\ jobpos' = 1 /\ cur' = "" /\ written' = 0
         /\ UNCHANGED <<files, crashes>>

Next == NextJob \/ Skip \/ Link \/ LinkRefused \/ CreateTemp \/ WriteBurst \/ Rename \/ Done1 \/ MoveToBad \/ Unlink \/ Crash \/ Rerun
Spec == Init /\ [][Next]_vars /\ WF_vars(NextJob \/ Skip \/ Link \/ LinkRefused \/ CreateTemp \/ WriteBurst \/ Rename \/ Done1 \/ MoveToBad \/ Unlink \/ Rerun)

\* ---- C09 ---------------------------------------------------------------------
Finished == alive /\ pc = "next" /\ jobpos > Len(Job)
\* whenever the process is gone (or between commands), what sits in objects/ is whole - except
\* corrupt files that were there before and that repair has not reached yet
ObjectsSound == (~alive \/ Finished) =>
     \A f \in files : f.area = "objects" => (f.st = "full" \/ (f.st = "corrupt" /\ \E i \in DOMAIN Job : Job[i] = [cmd |-> "repair", o |-> f.name]))
LeftoversConfined == \A f \in files : f.st \in {"empty", "partial"} => (alive \/ f.area \in {"tmp", "incomplete"})
\* after any crashes, the re-run ends in the state of the uninterrupted run
Expected == {F("objects", Job[i].o, "full") : i \in {k \in DOMAIN Job : Job[k].cmd \in {"store", "adopt"}}}
            \cup {F("bad", Job[i].o, "corrupt") : i \in {k \in DOMAIN Job : Job[k].cmd = "repair"}}
RerunConverges == Finished => {f \in files : f.area \in {"objects", "bad"}} = Expected
Terminates == <>Finished
=============================================================================
