CONSTANTS
 Hosts = {"api", "api2", "other", "plain"}
 MaxPerHost = 3
 MaxHops = 3
 Cut = 40
 Kinds = {"api", "storage", "authd"}
 ActHosts = {"api", "api2", "other"}
 Fixed = TRUE
 Emit = FALSE
 Forms = {"abs", "netpath", "path"}
 CredSources = {"helper", "urluser"}
SPECIFICATION Spec
VIEW View
INVARIANT Confined
INVARIANT NoDowngrade
INVARIANT ChainBounded
INVARIANT HelperSound
ACTION_CONSTRAINT EmitEdge
CHECK_DEADLOCK FALSE
