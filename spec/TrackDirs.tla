------------------------------ MODULE TrackDirs ------------------------------
(***************************************************************************)
(* C19, directories: `git lfs track` / `untrack` run from the root of the  *)
(* work tree or from a sub-directory, with patterns with and without a     *)
(* slash.  A command run in directory D concerns D/.gitattributes, and Git *)
(* reads a pattern found there relative to D: with a slash (leading or     *)
(* inner) it is anchored at D and matched component by component, without  *)
(* one it is matched against the last component of any path below D.       *)
(* The state is what the user asked for: the set of <<D, P>> tracked.      *)
(* IsLfs(path) says from that alone whether Git's attribute lookup must    *)
(* report filter=lfs; the harness asks `git check-attr` about every path   *)
(* of the universe after every step.                                       *)
(***************************************************************************)
EXTENDS Integers, Sequences, FiniteSets, TLC, Json, CSV, IOUtils

CONSTANTS MaxOps, Emit

Dirs == { <<>>, <<"a">> }                                   \* where a command is run
Paths == { <<"x.bin">>, <<"data", "x.bin">>, <<"a", "x.bin">>, <<"a", "data", "x.bin">>, <<"a", "b", "x.bin">>, <<"a", "y.txt">> }
\* patterns: [anch |-> has a slash, comps |-> components]
Pat(a, c) == [anch |-> a, comps |-> c]
Patterns == { Pat(FALSE, <<"*.bin">>), Pat(FALSE, <<"x.bin">>), Pat(TRUE, <<"x.bin">>),          \* "*.bin", "x.bin", "/x.bin"
              Pat(TRUE, <<"data", "*.bin">>), Pat(TRUE, <<"data", "x.bin">>) }                 \* "data/*.bin", "data/x.bin"

CompMatch(pc, c) == pc = c \/ (pc = "*.bin" /\ c = "x.bin")
IsPrefixOf(d, p) == Len(d) <= Len(p) /\ SubSeq(p, 1, Len(d)) = d
MatchesFrom(d, pat, path) ==
  /\ IsPrefixOf(d, path) /\ Len(path) > Len(d)
  /\ LET rel == SubSeq(path, Len(d) + 1, Len(path)) IN
     IF pat.anch THEN Len(rel) = Len(pat.comps) /\ \A i \in DOMAIN rel : CompMatch(pat.comps[i], rel[i])
     ELSE CompMatch(pat.comps[1], rel[Len(rel)])

VARIABLES tracked, nops, hist
vars == <<tracked, nops, hist>>

IsLfs(path, T) == \E t \in T : MatchesFrom(t[1], t[2], path)
LfsSet(T) == {p \in Paths : IsLfs(p, T)}

Init == tracked = {} /\ nops = 0 /\ hist = <<>>
Log(r) == nops < MaxOps /\ nops' = nops + 1 /\ hist' = Append(hist, r)

Track(d, p) ==       \* cd d; git lfs track p
  /\ <<d, p>> \notin tracked /\ tracked' = tracked \cup {<<d, p>>}
  /\ Log([a |-> "track", dir |-> d, anch |-> p.anch, comps |-> p.comps, lfs |-> LfsSet(tracked \cup {<<d, p>>})])
TrackAgain(d, p) ==  \* the same command once more
  /\ <<d, p>> \in tracked /\ UNCHANGED tracked
  /\ Log([a |-> "track-again", dir |-> d, anch |-> p.anch, comps |-> p.comps, lfs |-> LfsSet(tracked)])
Untrack(d, p) ==     \* cd d; git lfs untrack p
  /\ <<d, p>> \in tracked /\ tracked' = tracked \ {<<d, p>>}
  /\ Log([a |-> "untrack", dir |-> d, anch |-> p.anch, comps |-> p.comps, lfs |-> LfsSet(tracked \ {<<d, p>>})])

Next == \E d \in Dirs, p \in Patterns : Track(d, p) \/ TrackAgain(d, p) \/ Untrack(d, p)
Spec == Init /\ [][Next]_vars

\* what one directory tracks never reaches paths outside it
Contained == \A t \in tracked : \A p \in LfsSet({t}) : IsPrefixOf(t[1], p)
EmitEdge == Emit => CSVWrite("%1$s", <<ToJson([steps |-> hist'])>>, IOEnv.OUT)
=============================================================================
