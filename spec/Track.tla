-------------------------------- MODULE Track --------------------------------
(***************************************************************************)
(* C19: `git lfs track`, `git lfs track --filename`, `git lfs untrack`.    *)
(*                                                                         *)
(* File names are sequences over character classes that contain every      *)
(* character with a meaning in .gitattributes (space, tab, #, !, quote,     *)
(* glob metacharacters, backslash) plus a plain letter, a dot and a        *)
(* non-ASCII letter and a non-ASCII white-space character (U+3000, which   *)
(* is no separator in .gitattributes).  The state is what the user asked for: the set of     *)
(* literal names tracked with --filename and the set of glob patterns      *)
(* tracked without it.  IsLfs(n) says, from that alone, whether Git's      *)
(* attribute lookup must report filter=lfs for the path n:                  *)
(*     n is one of the literal names, or some tracked pattern matches n.   *)
(* After every step the specification lists {n \in Names : IsLfs(n)}; the  *)
(* harness asks Git itself (`git check-attr`) about every name in Names.   *)
(***************************************************************************)
EXTENDS Integers, Sequences, FiniteSets, TLC, Json, CSV, IOUtils

CONSTANTS Chars, MaxLen, MaxOps, PatternSet, PreClasses, Emit

Names == {s \in UNION {[1..n -> Chars] : n \in 1..MaxLen} :
             s # <<"dot">> /\ s # <<"dot", "dot">>}

VARIABLES files,     \* names tracked literally (--filename)
          patterns,  \* patterns tracked as globs
          pre,       \* class of the pre-existing .gitattributes: absent / comments and macros (LF, CRLF, last line
                     \* unterminated) / one unterminated line with or without LFS attributes; what was there keeps its meaning
          nops, hist
vars == <<files, patterns, pre, nops, hist>>
View == <<files, patterns, pre>>

\* wildcard match over character classes: star = any sequence, qmark = exactly one character
RECURSIVE Match(_, _)
Match(p, n) ==
  IF p = <<>> THEN n = <<>>
  ELSE IF Head(p) = "star" THEN Match(Tail(p), n) \/ (n # <<>> /\ Match(p, Tail(n)))
  ELSE IF n = <<>> THEN FALSE
  ELSE IF Head(p) = "qmark" THEN Head(n) \notin {"nonascii", "uspace"} /\ Match(Tail(p), Tail(n))   \* Git matches bytes: ? is one byte
  ELSE Head(p) = Head(n) /\ Match(Tail(p), Tail(n))

IsLfs(n, F, P) == n \in F \/ \E p \in P : Match(p, n)
LfsSet(F, P)   == TLCEval({n \in Names : IsLfs(n, F, P)})

Init == /\ files = {} /\ patterns = {} /\ pre \in PreClasses /\ nops = 0 /\ hist = <<>>

Log(r) == nops < MaxOps /\ nops' = nops + 1 /\ hist' = Append(hist, r)

TrackFile(n) ==         \* git lfs track --filename <n>
  /\ n \notin files /\ files' = files \cup {n} /\ UNCHANGED <<patterns, pre>>
  /\ Log([a |-> "trackfile", name |-> n, lfs |-> LfsSet(files \cup {n}, patterns)])
TrackFileAgain(n) ==    \* the same command once more: nothing may change (not even a byte of the file)
  /\ n \in files /\ UNCHANGED <<files, patterns, pre>>
  /\ Log([a |-> "trackfile-again", name |-> n, lfs |-> LfsSet(files, patterns)])
TrackPattern(p) ==      \* git lfs track <p>
  /\ p \notin patterns /\ patterns' = patterns \cup {p} /\ UNCHANGED <<files, pre>>
  /\ Log([a |-> "trackpattern", name |-> p, lfs |-> LfsSet(files, patterns \cup {p})])
TrackPatternAgain(p) ==
  /\ p \in patterns /\ UNCHANGED <<files, patterns, pre>>
  /\ Log([a |-> "trackpattern-again", name |-> p, lfs |-> LfsSet(files, patterns)])
UntrackFile(n) ==       \* git lfs untrack <n>, for a name that was tracked literally
  /\ n \in files /\ files' = files \ {n} /\ UNCHANGED <<patterns, pre>>
  /\ Log([a |-> "untrackfile", name |-> n, lfs |-> LfsSet(files \ {n}, patterns)])
UntrackPattern(p) ==
  /\ p \in patterns /\ patterns' = patterns \ {p} /\ UNCHANGED <<files, pre>>
  /\ Log([a |-> "untrackpattern", name |-> p, lfs |-> LfsSet(files, patterns \ {p})])

\* Invocations of git lfs track that end in an error exit.  "dotgitattributes" / "dotgitstar": the
\* pattern (.gitattributes, .git*) would cover Git's own files, of which .gitattributes is in the
\* index: git-lfs refuses it.  "missingfile": the pattern (*.dat) matches a file that is in the index
\* but gone from the work tree, so it cannot be touched.  Whatever the exit, nothing changes for
\* any name or pattern that was not asked for (no name of Names matches *.dat).
FailKinds == {"dotgitattributes", "dotgitstar", "missingfile"}
TrackFails(k) ==
  /\ k \in FailKinds /\ pre # "absent" /\ UNCHANGED <<files, patterns, pre>>
  /\ Log([a |-> "trackfails", name |-> <<>>, kind |-> k, lfs |-> LfsSet(files, patterns)])

Next == \/ \E k \in FailKinds : TrackFails(k)
        \/ \E n \in Names : TrackFile(n) \/ TrackFileAgain(n) \/ UntrackFile(n)
        \/ \E p \in PatternSet : TrackPattern(p) \/ TrackPatternAgain(p) \/ UntrackPattern(p)
Spec == Init /\ [][Next]_vars

\* design-level statements of the property
LiteralMeansLiteral == \A n \in files : LfsSet({n}, {}) = {n}
UntrackUndoes == [][\A n \in Names : UntrackFile(n) => n \notin LfsSet(files', {})]_vars

EmitEdge == Emit => CSVWrite("%1$s", <<ToJson([pre |-> pre, steps |-> hist'])>>, IOEnv.OUT)
=============================================================================
