CONSTANTS
 Remotes = {"exact", "flip", "prefix", "extra", "missing"}
 Finals = {"absent", "stale"}
 Emit = FALSE
 Verify = FALSE
SPECIFICATION Spec
INVARIANT OkMeansValid
INVARIANT FailLeavesNoFinal
INVARIANT FinalOnlyValid
ACTION_CONSTRAINT EmitEdge
CHECK_DEADLOCK FALSE
