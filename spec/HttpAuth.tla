------------------------------ MODULE HttpAuth ------------------------------
(***************************************************************************)
(* C10: where an Authorization value may travel.                           *)
(*                                                                         *)
(* One logical API or storage request of git-lfs (lfsapi.Client.DoWithAuth *)
(* -> doWithCreds -> lfshttp.DoWithRedirect -> newRequestForRetry) against *)
(* servers that answer 200, 401 or a redirect to any host.  Hosts are      *)
(* scheme://host:port identities: "api" (https), "api2" (same host, other  *)
(* port, https), "other" (https), "plain" (the api host over http).        *)
(* auth is the host whose credentials the Authorization header carries.    *)
(*                                                                         *)
(* Fixed = TRUE threads the list of visited requests through the retry     *)
(* path (the repaired code); Fixed = FALSE transcribes the pinned code,    *)
(* where the hop list is appended to a by-value slice and never grows.     *)
(***************************************************************************)
EXTENDS Integers, Sequences, FiniteSets, TLC, Json, CSV, IOUtils

CONSTANTS Hosts, MaxPerHost, MaxHops, MaxAuth, Fixed, Emit, CredSources

Scheme(h) == IF h = "plain" THEN "http" ELSE "https"
Answers == {<<"ok", "-">>, <<"unauth", "-">>} \cup {<<"redir", t>> : t \in Hosts}

VARIABLES pc, host, auth, hops, attempts, sawHttps, log, script, mode, source, result
vars == <<pc, host, auth, hops, attempts, sawHttps, log, script, mode, source, result>>
View == <<pc, host, auth, hops, attempts, sawHttps, mode, source, result, [h \in Hosts |-> Len(script[h])]>>

Init == /\ pc = "send" /\ host = "api" /\ hops = 0 /\ attempts = 0 /\ sawHttps = FALSE
        /\ log = <<>> /\ script = [h \in Hosts |-> <<>>] /\ result = "none"
        /\ mode \in {"none", "basic"} /\ source \in CredSources
        \* basic access: credentials for the API host are attached up front (from the helper or the URL)
        /\ auth = IF mode = "basic" THEN "api" ELSE "none"

Send == /\ pc = "send" /\ pc' = "wait"
        /\ log' = Append(log, [host |-> host, auth |-> auth, scheme |-> Scheme(host)])
        /\ sawHttps' = (sawHttps \/ Scheme(host) = "https")
        /\ UNCHANGED <<host, auth, hops, attempts, script, mode, source, result>>

Finish(r) == pc' = "done" /\ result' = r /\ UNCHANGED <<host, auth, hops, attempts>>

Respond(a) ==
  /\ pc = "wait" /\ a \in Answers /\ Len(script[host]) < MaxPerHost
  /\ script' = [script EXCEPT ![host] = Append(@, a)]
  /\ IF a[1] = "ok" THEN Finish("ok")
     ELSE IF a[1] = "unauth" THEN
        IF attempts < MaxAuth
          THEN /\ attempts' = attempts + 1 /\ auth' = host      \* credentials are looked up for the host that challenged
               /\ pc' = "send" /\ UNCHANGED <<host, hops, result>>
          ELSE Finish("too many authentication attempts")
     ELSE LET t == a[2] IN
        IF Scheme(host) = "https" /\ Scheme(t) = "http" THEN Finish("refused insecure redirect")
        ELSE IF Fixed /\ hops + 1 >= MaxHops THEN Finish("too many redirects")
        ELSE /\ host' = t /\ hops' = hops + 1
             /\ auth' = IF t = host THEN auth ELSE "none"         \* Authorization only survives a same-host redirect
             /\ pc' = "send" /\ UNCHANGED <<attempts, result>>
  /\ UNCHANGED <<sawHttps, log, mode, source>>

Next == Send \/ \E a \in Answers : Respond(a)
Spec == Init /\ [][Next]_vars

\* ---- C10 -------------------------------------------------------------------
Confined     == \A i \in DOMAIN log : log[i].auth \in {"none", log[i].host}
NoDowngrade  == \A i, j \in DOMAIN log : (i < j /\ log[i].scheme = "https") => log[j].scheme = "https"
ChainBounded == Len(log) <= 1 + MaxHops + MaxAuth

Script == [mode |-> mode, source |-> source, answers |-> script', requests |-> Len(log)]
EmitEdge == (Emit /\ pc' = "done" /\ pc # "done") => CSVWrite("%1$s", <<ToJson(Script)>>, IOEnv.OUT)
=============================================================================
