------------------------------ MODULE HttpAuth ------------------------------
(***************************************************************************)
(* C10: where an Authorization value may travel.                           *)
(*                                                                         *)
(* One logical API request of git-lfs, transcribed from                    *)
(*   lfsapi.Client.DoWithAuth -> doWithAuth -> getCreds -> doWithCreds ->  *)
(*   lfshttp.DoWithRedirect -> newRequestForRetry -> (nested) doWithAuth   *)
(* against servers that answer 200, 401 or a redirect to any identity.     *)
(* Identities are scheme://host:port: "api" (https), "api2" (same host,    *)
(* other port, https), "other" (other host, https), "plain" (the api host  *)
(* over http, its own port).  An Authorization value is named after the    *)
(* identity whose credentials it carries.                                  *)
(*                                                                         *)
(* The code keeps a stack of doWithAuth frames, one per request of the     *)
(* current redirect chain; frames[1] is the caller's request.  A 401       *)
(* anywhere in the chain unwinds all frames (each rejects the credentials  *)
(* it filled and strips them from its request), upgrades the access mode,  *)
(* and - when the caller's request is left without Authorization - starts  *)
(* the whole chain again from the caller's request with an empty via list  *)
(* ("do not count this against our redirection maximum").  Credentials     *)
(* that are not multistage do not consume the attempt counter, so the      *)
(* number of restarts is bounded only by the credential source; here, by   *)
(* the number of 401 answers the servers give.                             *)
(*                                                                         *)
(* kind = "storage" is a transfer request instead: it goes to the href of   *)
(* a batch action on identity acthost and carries from the start the       *)
(* Authorization value that action handed out ("act"), which belongs to    *)
(* acthost and to nobody else.                                             *)
(*                                                                         *)
(* kind = "authd" is a transfer request whose action the batch response    *)
(* marked "authenticated": true: git-lfs then sends it through             *)
(* lfshttp.Client.Do, which follows redirects under the same rules (same   *)
(* hop limit, same stripping of Authorization) but never asks anybody for  *)
(* credentials and never learns an access mode.                            *)
(*                                                                         *)
(* Fixed = TRUE threads the list of visited requests through the nested    *)
(* frames (the repaired code); Fixed = FALSE transcribes the pinned code,  *)
(* where the via list is appended to by value and the hop limit never      *)
(* triggers.                                                               *)
(***************************************************************************)
EXTENDS Integers, Sequences, FiniteSets, TLC, Json, CSV, IOUtils

CONSTANTS Hosts, MaxPerHost, MaxHops, Fixed, Emit, CredSources, Cut, Kinds, ActHosts,
          Forms     \* how a redirecting server spells Location: "abs" (absolute URL) | "netpath" (//host:port/path) | "path" (/path)

Scheme(h) == IF h = "plain" THEN "http" ELSE "https"
Answers == {<<"ok", "-">>, <<"unauth", "-">>} \cup {<<"redir", t>> : t \in Hosts}

VARIABLES pc, host, hdr, hops, access, origHdr, frames, sawHttps, log, hlog, script, mode, source, form, cache, result, kind, acthost, qtry
vars == <<pc, host, hdr, hops, access, origHdr, frames, sawHttps, log, hlog, script, mode, source, form, cache, result, kind, acthost, qtry>>
View == <<pc, host, hdr, hops, access, origHdr, frames, sawHttps, script, mode, source, form, cache, result, kind, acthost, qtry>>

IsTransfer == kind \in {"storage", "authd"}
Init == /\ kind \in Kinds /\ acthost \in ActHosts /\ (kind = "api" => acthost = "api")
        /\ pc = "start" /\ host = "api" /\ hdr = "none" /\ hops = 0 /\ qtry = 0
        /\ origHdr = IF IsTransfer THEN "act" ELSE "none"      \* the action's header is on the request from the start
        /\ frames = <<>> /\ sawHttps = FALSE /\ log = <<>> /\ hlog = <<>> /\ script = [h \in Hosts |-> <<>>] /\ result = "none"
        /\ mode \in {"none", "basic"} /\ source \in CredSources
        \* every redirect of the run spells its Location in this form where the form can express the
        \* target (a network-path reference keeps the scheme, a path keeps scheme, host and port), else
        \* as an absolute URL.  The identity a Location denotes (RFC 3986, 5.2) is all the rules below
        \* ever look at: the form is never an argument of an action.
        /\ form \in Forms
        \* cache: the in-process credential cache (lfs.cachecredentials, on by default) stands in front of
        \* the helper: credentials it holds for an identity (approved earlier in this run, not rejected
        \* since) are handed out without asking the helper.  An identity is scheme://host:port there too.
        /\ cache \in BOOLEAN
        \* a transfer request runs under the access mode recorded for its own URL (none until a 401 teaches
        \* otherwise), through DoWithAuthNoRetry; an API request under the mode configured for the API URL
        /\ access = IF IsTransfer THEN "none" ELSE mode

\* getCreds: <<Authorization the request leaves with, TRUE iff the credential helper was asked>>
GetCreds(h, carried, acc) ==
  IF carried # "none" THEN <<carried, FALSE>>                 \* requestHasAuth
  ELSE IF acc = "none" THEN <<"none", FALSE>>                 \* public access: nobody is asked
  ELSE IF h # "api" THEN <<h, TRUE>>                          \* request not for the API identity: helper asked for the request URL
  ELSE IF source = "urluser" THEN <<"api", FALSE>>            \* userinfo of the configured URL
  ELSE <<"api", TRUE>>
RECURSIVE LastVerdict(_, _)
LastVerdict(l, h) == IF l = <<>> THEN "none"
                     ELSE IF l[Len(l)][2] = h /\ l[Len(l)][1] \in {"approve", "reject"} THEN l[Len(l)][1]
                     ELSE LastVerdict(SubSeq(l, 1, Len(l) - 1), h)
\* what the helper behind the cache gets to see of a sequence of calls: a fill or an approve for an identity
\* the cache holds stops at the cache (creds.credentialCacher); a reject always goes through
RECURSIVE Seen(_, _)
Seen(evs, l) == IF evs = <<>> THEN l
                ELSE LET e == Head(evs) IN
                     Seen(Tail(evs), IF e[1] \in {"fill", "approve"} /\ cache /\ LastVerdict(l, e[2]) = "approve" THEN l ELSE Append(l, e))
Fill(h, g) == IF g[2] THEN Seen(<< <<"fill", h>> >>, hlog) ELSE hlog

\* DoWithAuth: (re)start the chain with the caller's request
Start == /\ pc = "start"
         /\ LET g == GetCreds(acthost, origHdr, access) IN
            /\ host' = acthost /\ hops' = 0 /\ hdr' = g[1] /\ origHdr' = g[1]
            /\ frames' = << [host |-> acthost, creds |-> g[2], ui |-> (source = "urluser" /\ kind = "api")] >>
            \* a transfer attempt begins with the batch call that hands out the action: an API request of
            \* its own (not followed here), for which the helper is asked and approved under basic access
            /\ hlog' = IF IsTransfer /\ mode = "basic" /\ source = "helper"
                         THEN Seen(<< <<"fill", "api">>, <<"approve", "api">> >>, hlog) ELSE Fill(acthost, g)
         /\ pc' = "send" /\ sawHttps' = FALSE
         /\ UNCHANGED <<access, log, script, mode, source, form, cache, result, kind, acthost, qtry>>

\* net/http itself adds Basic credentials from the userinfo of the URL it is given: the caller's
\* request goes to the configured URL; a Location never spells userinfo here, but a path-only
\* Location is resolved against the URL just requested and so inherits its userinfo (ui)
Wire == IF hdr = "none" /\ frames[Len(frames)].ui THEN "api" ELSE hdr
Send == /\ pc = "send" /\ pc' = "wait"
        /\ log' = Append(log, [host |-> host, auth |-> Wire, scheme |-> Scheme(host), hop |-> hops, afterHttps |-> sawHttps])
        /\ sawHttps' = (sawHttps \/ Scheme(host) = "https")
        /\ UNCHANGED <<host, hdr, hops, access, origHdr, frames, hlog, script, mode, source, form, cache, result, kind, acthost, qtry>>

\* helper calls made while the frames unwind, innermost first
Unwind(what) == LET n == Len(frames)
                    idx == [i \in 1..n |-> n + 1 - i]
                    F(i) == frames[idx[i]]
                IN SelectSeq([i \in 1..n |-> IF F(i).creds THEN <<what, F(i).host>> ELSE <<"-", "-">>], LAMBDA e : e[1] # "-")

\* the request ends; a failed transfer is given to the queue once more (lfs.transfer.maxretries = 1 in every
\* run): a new attempt from the batch call on, with the access mode learnt so far
MaxQ == 1
Finish(r) == IF IsTransfer /\ r # "ok" /\ qtry < MaxQ
               THEN pc' = "start" /\ result' = result /\ origHdr' = "act" /\ qtry' = qtry + 1 /\ UNCHANGED <<host, hdr, hops, frames>>
               ELSE pc' = "done" /\ result' = r /\ qtry' = qtry /\ UNCHANGED <<host, hdr, hops, origHdr, frames>>

\* the answer the server gives: scripted while the script has room; afterwards a
\* redirecting identity keeps redirecting and every other one answers 200
Implicit(h) == IF script[h] # <<>> /\ script[h][Len(script[h])][1] = "redir" /\ Len(log) < Cut
                 THEN script[h][Len(script[h])] ELSE <<"ok", "-">>

Respond(a) ==
  /\ pc = "wait" /\ a \in Answers
  /\ IF Len(script[host]) < MaxPerHost /\ Len(log) < Cut
       THEN script' = [script EXCEPT ![host] = Append(@, a)]
       ELSE a = Implicit(host) /\ script' = script
  /\ UNCHANGED <<log, mode, source, form, cache, sawHttps, kind, acthost>>
  /\ IF a[1] = "ok" THEN
        /\ hlog' = Seen(Unwind("approve"), hlog) /\ access' = access /\ Finish("ok")
     ELSE IF a[1] = "unauth" THEN
        /\ hlog' = hlog \o Unwind("reject")
        /\ access' = IF kind = "authd" THEN access ELSE "basic"   \* Lfs-Authenticate: Basic (lfshttp.Client.Do records nothing)
        /\ LET left == IF frames[1].creds THEN "none" ELSE origHdr IN
           IF left # "none"
             THEN Finish("auth error")                          \* the caller's request keeps an Authorization nobody can replace
             ELSE /\ pc' = "start" /\ origHdr' = "none"
                  /\ UNCHANGED <<host, hdr, hops, frames, result, qtry>>
     ELSE LET t == a[2] IN
        /\ access' = access
        /\ IF Fixed /\ hops + 1 >= MaxHops THEN hlog' = hlog /\ Finish("too many redirects")
           ELSE IF Scheme(host) = "https" /\ Scheme(t) = "http" THEN hlog' = hlog /\ Finish("refused insecure redirect")
           ELSE LET carried == IF t = host THEN hdr ELSE "none"    \* Authorization only survives a same host:port redirect
                    g == IF kind = "authd" THEN <<carried, FALSE>> ELSE GetCreds(t, carried, access)
                IN /\ host' = t /\ hops' = hops + 1 /\ hdr' = g[1]
                   /\ frames' = Append(frames, [host |-> t, creds |-> g[2], ui |-> (frames[Len(frames)].ui /\ form = "path" /\ t = host)])
                   /\ hlog' = Fill(t, g)
                   /\ pc' = "send" /\ UNCHANGED <<origHdr, result, qtry>>

Next == Start \/ Send \/ \E a \in Answers : Respond(a)
Spec == Init /\ [][Next]_vars

\* ---- C10 -------------------------------------------------------------------
Confined     == \A i \in DOMAIN log : log[i].auth \in {"none", log[i].host} \/ (log[i].auth = "act" /\ log[i].host = acthost)
NoDowngrade  == \A i \in DOMAIN log : log[i].scheme = "http" => ~log[i].afterHttps
ChainBounded == hops < MaxHops
\* approve / reject only name identities the helper was asked about
HelperSound  == \A i \in DOMAIN hlog : hlog[i][1] \in {"approve", "reject"} =>
                   \E j \in 1..(i - 1) : hlog[j] = <<"fill", hlog[i][2]>>

Script == [mode |-> mode, source |-> source, form |-> form, cache |-> cache, kind |-> kind, acthost |-> acthost, answers |-> script',
           reqs |-> [i \in DOMAIN log |-> <<log[i].host, log[i].auth>>], helper |-> hlog', result |-> result']
EmitEdge == (Emit /\ pc' = "done" /\ pc # "done") => CSVWrite("%1$s", <<ToJson(Script)>>, IOEnv.OUT)
=============================================================================
