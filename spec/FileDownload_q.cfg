CONSTANTS
 Remotes = {"exact", "flip", "prefix", "extra", "missing"}
 Finals = {"absent", "stale"}
 Emit = FALSE
 Verify = TRUE
SPECIFICATION Spec
INVARIANT OkMeansValid
INVARIANT FailLeavesNoFinal
INVARIANT FinalOnlyValid
ACTION_CONSTRAINT EmitEdge
CHECK_DEADLOCK FALSE
