CONSTANTS
 Users = {"u1", "u2"}
 Paths = {"l1", "l2"}
 MaxOps = 6
 Emit = FALSE
 PageSizes = {0, 1}
 ClearPerPage = FALSE
SPECIFICATION Spec
VIEW View
INVARIANT AtMostOneOwner
PROPERTY NoUnlockDirty
PROPERTY FreshAfterVerify
PROPERTY PartialRecorded
ACTION_CONSTRAINT EmitEdge
CHECK_DEADLOCK FALSE
