CONSTANTS
 MaxReq = 3
 Emit = TRUE
SPECIFICATION Spec
ACTION_CONSTRAINT EmitEdge
CHECK_DEADLOCK FALSE
