---------------------------- MODULE ActionExpiry ----------------------------
(***************************************************************************)
(* C15, last sentence: "an action whose advertised expiry has passed is    *)
(* never used but re-requested" - as an acceptor over the log of a storage *)
(* server that hands out every action under a URL of its own and notes     *)
(* when a request for that URL arrives.  The transfers behind it are made  *)
(* by the real adapters (basic upload with verify, basic download), which  *)
(* is where time passes between an action's hand-out and its use: an       *)
(* object waiting for its turn behind a slow transfer, a verify call after *)
(* a slow upload.                                                          *)
(*   offer  [id, oid, rel, t, expires]  t: when handed out, expires: the   *)
(*          advertised instant (0: none), both in ms of the server's clock *)
(*   use    [id, t]                     a request for the action's URL     *)
(* One run = one scenario (reset).  Times are the server's own: a request  *)
(* that arrives after the instant the server advertised is late whatever   *)
(* the client's clock says.                                                *)
(***************************************************************************)
EXTENDS Integers, Sequences, FiniteSets, TLC, Json, IOUtils

Trace == ndJsonDeserialize(IOEnv.TRACE)

VARIABLES l, offered
vars == <<l, offered>>
E == Trace[l]
Is(e) == l <= Len(Trace) /\ E.ev = e /\ l' = l + 1

Init  == l = 1 /\ offered = {}
Reset == Is("reset") /\ offered' = {}
Offer == Is("offer") /\ offered' = offered \cup {<<E.id, E.expires>>}
Use   == /\ Is("use")
         /\ \E o \in offered : o[1] = E.id /\ (o[2] = 0 \/ E.t <= o[2])      \* handed out, and not after its expiry
         /\ UNCHANGED offered
Next == Reset \/ Offer \/ Use
Spec == Init /\ [][Next]_vars
Accepted == TLCGet("stats").diameter - 1 = Len(Trace)
=============================================================================
