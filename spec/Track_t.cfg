CONSTANTS
 Chars <- CharsAll
 MaxLen = 3
 MaxOps = 2
 PatternSet <- PatsQuick
 PreClasses <- PreAll
 Emit = TRUE
SPECIFICATION Spec
VIEW View
INVARIANT LiteralMeansLiteral
PROPERTY UntrackUndoes
ACTION_CONSTRAINT EmitEdge
CHECK_DEADLOCK FALSE
