CONSTANTS
 Oids = {"o1","o2"}
 Paths = {"p1","p2"}
 Branches = {"main","dev"}
 Ages = {0}
 MaxCommits = 3
 MaxSteps = 6
 Emit = FALSE
 Skew = FALSE
 Modes = {"git-push","lfs-push","lfs-push-all"}
 SmudgedWT = FALSE
SPECIFICATION Spec
VIEW View
INVARIANT RemoteCompleteX
INVARIANT RefsOnlyAfterObjects
ACTION_CONSTRAINT EmitEdge
CHECK_DEADLOCK FALSE
