--------------------------- MODULE CustomDownload ---------------------------
(***************************************************************************)
(* C02 for the custom / standalone transfer adapter (tq/custom.go:         *)
(* customAdapter.DoTransfer), transcribed step by step, against a transfer *)
(* agent that may answer a download request with any sequence of messages. *)
(*                                                                         *)
(* The agent is a separate process speaking line-delimited JSON.  After    *)
(* the download request git-lfs reads messages until one completes the     *)
(* transfer; the agent names a file it has written (anywhere) and git-lfs  *)
(* "does not blindly trust external providers": it re-hashes that file     *)
(* before moving it to the object's final place.                           *)
(*   final   what sits at the object's final place: "none" | "valid" |     *)
(*           "old" (a file that was there before; only with Pre = TRUE)    *)
(* Verify = FALSE is the variant without the re-hash; it must violate      *)
(* OkMeansValid.                                                           *)
(***************************************************************************)
EXTENDS Integers, Sequences, FiniteSets, TLC, Json, CSV, IOUtils

CONSTANTS MaxMsgs, Emit, Verify

\* what a message of the agent can be
Files == {"exact", "prefix", "extra", "flip", "other", "empty", "nofile"}   \* content of the file the agent names
Msgs  == {[ev |-> "progress", oid |-> o, err |-> FALSE, file |-> "-"] : o \in {"right", "wrong"}}
         \cup {[ev |-> "complete", oid |-> o, err |-> e, file |-> f] : o \in {"right", "wrong"}, e \in BOOLEAN, f \in Files}
         \cup {[ev |-> "bogus", oid |-> "right", err |-> FALSE, file |-> "-"],      \* an event name git-lfs does not know
               [ev |-> "garbage", oid |-> "right", err |-> FALSE, file |-> "-"],    \* a line that is not JSON
               [ev |-> "eof", oid |-> "right", err |-> FALSE, file |-> "-"]}        \* the agent closes its output

VARIABLES pc, final, result, script
vars == <<pc, final, result, script>>

Init == pc = "reading" /\ final = "none" /\ result = "none" /\ script = <<>>

Fail == pc' = "done" /\ result' = "fail" /\ final' = final
Read(m) ==
  /\ pc = "reading" /\ m \in Msgs /\ Len(script) < MaxMsgs
  /\ script' = Append(script, m)
  /\ CASE m.ev = "progress" -> IF m.oid = "wrong" THEN Fail ELSE UNCHANGED <<pc, final, result>>
       [] m.ev = "complete" ->
            IF m.oid = "wrong" \/ m.err THEN Fail
            ELSE IF Verify /\ m.file # "exact" THEN Fail                      \* tools.VerifyFileHash
            ELSE IF m.file = "nofile" THEN Fail                               \* nothing to rename
            ELSE /\ pc' = "done" /\ result' = "ok"                            \* RenameFileCopyPermissions
                 /\ final' = IF m.file = "exact" THEN "valid" ELSE "corrupt"
       [] OTHER -> Fail                                                       \* unknown event, unparsable line, end of stream
\* the agent says nothing more although git-lfs is waiting: the harness closes the stream (same as "eof")
Next == \E m \in Msgs : Read(m)
Spec == Init /\ [][Next]_vars

\* ---- C02 ---------------------------------------------------------------------
OkMeansValid      == result = "ok" => final = "valid"
FailLeavesNoFinal == result = "fail" => final = "none"
FinalOnlyValid    == final \in {"none", "valid"}

Out == [script |-> script', result |-> result', finalValid |-> (final' = "valid")]
EmitEdge == (Emit /\ pc' = "done" /\ pc # "done") => CSVWrite("%1$s", <<ToJson(Out)>>, IOEnv.OUT)
=============================================================================
