---------------------------- MODULE SshDownload ----------------------------
(***************************************************************************)
(* C02 for the pure-SSH transfer adapter (tq/ssh.go: SSHAdapter.download / *)
(* doDownload, ssh/protocol.go: ReadStatusWithData), transcribed step by   *)
(* step, against a `git-lfs-transfer` process on the far side that may     *)
(* answer every get-object with any status, any size argument(s), any      *)
(* framing and any body, or die in the middle of the body.                 *)
(*                                                                         *)
(* One connection (lfs.concurrenttransfers = 1): the batch request and     *)
(* every get-object travel over it; the far side answers batch requests    *)
(* faithfully ("<oid> <size> download") while it lives.                    *)
(*   conn   "sync"   requests and answers are paired                       *)
(*          "stale"  an answer was abandoned before its data was read      *)
(*                   (protocol error after the status line): whatever is   *)
(*                   sent next reads left-over packets as its status       *)
(*          "dead"   the far side is gone                                  *)
(*   final  what sits at the object's final place: "none" | "valid" |      *)
(*          "stale" (same size, other bytes, there beforehand) | "corrupt" *)
(* Verify = FALSE is the variant without the hash compare; it must         *)
(* violate OkMeansValid.                                                   *)
(***************************************************************************)
EXTENDS Integers, Sequences, FiniteSets, TLC, Json, CSV, IOUtils

CONSTANTS MaxReq,     \* attempts the queue allows (1 + lfs.transfer.maxretries)
          Finals,     \* what sits at the final place beforehand: "absent" | "stale"
          Emit, Verify

Statuses == {200, 206, 404, 500}
Sizes    == {"right", "other", "missing", "twice", "bad", "negative"}   \* the size= argument(s) of the answer
Frames   == {"ok", "nodelim", "nostatus", "eof"}      \* well-framed | flush where the delimiter belongs | first packet is not a status line | far side dies mid-body
Bodies   == {"exact", "prefix", "extra", "flip", "other", "empty"}

Answers == {[status |-> st, size |-> sz, frame |-> fr, body |-> b] :
              st \in Statuses, sz \in Sizes, fr \in Frames, b \in Bodies}
\* answers that differ only in fields the client never gets to look at are the same answer
Canon(a) == /\ (a.frame \in {"nodelim", "nostatus"} => a.size = "right" /\ a.body = "exact")
            /\ (a.frame = "nostatus" => a.status = 200)
            /\ (a.status \notin {200, 206} => a.size = "right" /\ a.body = "exact")
            /\ (a.size \in {"missing", "twice", "bad", "negative"} => a.body = "exact")
            /\ (a.frame = "eof" => a.body = "exact")

VARIABLES pc, conn, final, result, script, nreq, final0
vars == <<pc, conn, final, result, script, nreq, final0>>

Init == /\ final0 \in Finals /\ final = (IF final0 = "stale" THEN "stale" ELSE "none")
        /\ pc = "batch" /\ conn = "sync" /\ result = "none" /\ script = <<>> /\ nreq = 0

FailFinal == pc' = "done" /\ result' = "fail" /\ final' = final
\* a retriable failure sends the object through the batch API again while the budget lasts
FailRetry == IF nreq' < MaxReq THEN pc' = "batch" /\ UNCHANGED <<result, final>> ELSE FailFinal

\* the batch request (SSHBatchClient.Batch) over connection 0
Batch == /\ pc = "batch"
         /\ IF conn = "sync" THEN pc' = "get" /\ UNCHANGED <<result, final>>
            ELSE FailFinal                  \* write to a dead process / left-over packets where the status belongs
         /\ UNCHANGED <<conn, script, nreq, final0>>

\* get-object <oid> and its answer (doDownload)
Get(a) ==
  /\ pc = "get" /\ a \in Answers /\ Canon(a)
  /\ script' = Append(script, a) /\ nreq' = nreq + 1 /\ UNCHANGED final0
  /\ CASE a.frame = "nostatus" -> conn' = "stale" /\ FailFinal            \* "expected status line": the rest of the answer stays unread
       [] a.frame = "nodelim"  -> conn' = conn /\ FailFinal               \* "unexpected flush packet" (the answer ended there: still paired)
       [] a.status \notin {200, 206} ->
            IF a.frame = "eof" THEN conn' = "dead" /\ FailRetry           \* the message is drained with errors ignored; retriable
                               ELSE conn' = conn /\ FailRetry
       [] a.size # "right" /\ a.size # "other" -> conn' = "stale" /\ FailFinal   \* protocol error before the data is read
       [] a.frame = "eof" -> conn' = "dead" /\ FailFinal                  \* read error while copying
       [] OTHER ->
            /\ conn' = conn
            /\ IF Verify /\ a.body # "exact" THEN FailFinal               \* "expected OID ..., got ..."
               ELSE /\ pc' = "done" /\ result' = "ok"                     \* RenameFileCopyPermissions (+ stat of the target)
                    /\ final' = IF a.body = "exact" THEN "valid" ELSE "corrupt"

Next == Batch \/ \E a \in Answers : Get(a)
Spec == Init /\ [][Next]_vars

\* ---- C02 ---------------------------------------------------------------------
OkMeansValid      == result = "ok" => final = "valid"
FailLeavesNoFinal == result = "fail" => final = (IF final0 = "stale" THEN "stale" ELSE "none")
FinalOnlyValid    == final \in {"none", "stale", "valid"} /\ (final = "stale" => final0 = "stale")

Out == [final0 |-> final0, script |-> script', result |-> result', finalValid |-> (final' = "valid"), requests |-> nreq']
EmitEdge == (Emit /\ pc' = "done" /\ pc # "done") => CSVWrite("%1$s", <<ToJson(Out)>>, IOEnv.OUT)
=============================================================================
