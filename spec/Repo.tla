-------------------------------- MODULE Repo --------------------------------
(***************************************************************************)
(* Abstract Git repository with LFS: one clone ("local"), one remote with  *)
(* its LFS server.  Shared vocabulary of the command-level modules (Push,  *)
(* FetchCheckout, Prune, Fsck, Migrate).                                   *)
(*                                                                         *)
(*   commits    sequence of [par, tree, age]; tree: path -> blob, where a  *)
(*              blob is "none" (absent), "raw" (ordinary Git content) or   *)
(*              an oid (the path holds the LFS pointer for that object);   *)
(*              age = commit date in days before "now"                     *)
(*   br         local branches, rr: refs on the remote, rt: the clone's    *)
(*              remote-tracking refs (stale when somebody else pushed)     *)
(*   local      oid -> status of the file in .git/lfs/objects              *)
(*   server     oids the LFS server holds (hash-valid)                     *)
(*   head       the checked-out branch                                     *)
(*   hist       the operation log (arguments + the spec's predictions):    *)
(*              excluded from the VIEW, emitted per edge for replay        *)
(***************************************************************************)
EXTENDS Integers, Sequences, FiniteSets, TLC, Json, CSV, IOUtils

CONSTANTS Oids, Paths, Branches, Ages, MaxCommits, MaxSteps, Emit,
          Skew      \* TRUE: a commit may carry an older date than its parent (clock skew, rebased or imported commits)

Blobs    == {"none", "raw"} \cup Oids
NoCommit == 0
Status   == {"absent", "valid", "corrupt"}      \* corrupt: same size, different bytes

VARIABLES commits, br, rr, rt, head, local, server, everRemote, steps, hist
rvars == <<commits, br, rr, rt, head, local, server, everRemote>>

RECURSIVE Anc(_, _)
Anc(c, cs) == IF c = NoCommit THEN {} ELSE {c} \cup UNION {Anc(p, cs) : p \in cs[c].par}
ReachSet(S, cs) == UNION {Anc(c, cs) : c \in S \ {NoCommit}}
PtrOids(C, cs)  == {cs[c].tree[p] : c \in C, p \in Paths} \cap Oids
EmptyTree == [p \in Paths |-> "none"]
TreeOf(c) == IF c = NoCommit THEN EmptyTree ELSE commits[c].tree
LocalValid == {o \in Oids : local[o] = "valid"}
LocalPresent == {o \in Oids : local[o] # "absent"}

RepoInit ==
  /\ commits = <<>> /\ br = [b \in Branches |-> NoCommit] /\ rr = [b \in Branches |-> NoCommit]
  /\ rt = [b \in Branches |-> NoCommit] /\ head = "main"
  /\ local = [o \in Oids |-> "absent"] /\ server = {} /\ everRemote = {}
  /\ steps = 0 /\ hist = <<>>

Log(r) == steps < MaxSteps /\ hist' = Append(hist, r) /\ steps' = steps + 1

\* git checkout b (creating it from main); write / delete the file; git add; git commit
Commit(b, p, blob, age) ==
  /\ Len(commits) < MaxCommits
  /\ (b # "main" => br["main"] # NoCommit)
  /\ LET parent == IF br[b] = NoCommit /\ b # "main" THEN br["main"] ELSE br[b]
         c == [par |-> IF parent = NoCommit THEN {} ELSE {parent},
               tree |-> [TreeOf(parent) EXCEPT ![p] = blob], age |-> age]
     IN /\ TreeOf(parent)[p] # blob
        /\ (parent # NoCommit /\ ~Skew => age <= commits[parent].age)   \* unless Skew, dates never go backwards
        /\ commits' = Append(commits, c)
        /\ br' = [br EXCEPT ![b] = Len(commits) + 1]
  /\ head' = b
  \* the clean filter stores the object unless a file of the same size already sits at
  \* its place (commands/command_clean.go keeps an existing file, even a corrupt one)
  /\ local' = IF blob \in Oids /\ local[blob] = "absent" THEN [local EXCEPT ![blob] = "valid"] ELSE local
  /\ UNCHANGED <<rr, rt, server, everRemote>>
  /\ Log([a |-> "commit", b |-> b, p |-> p, blob |-> blob, age |-> age])

\* one commit that rewrites several paths at once (t: the complete new tree)
CommitTree(b, t, age) ==
  /\ Len(commits) < MaxCommits
  /\ (b # "main" => br["main"] # NoCommit)
  /\ LET parent == IF br[b] = NoCommit /\ b # "main" THEN br["main"] ELSE br[b]
         c == [par |-> IF parent = NoCommit THEN {} ELSE {parent}, tree |-> t, age |-> age]
     IN /\ Cardinality({p \in Paths : TreeOf(parent)[p] # t[p]}) >= 2
        /\ (parent # NoCommit /\ ~Skew => age <= commits[parent].age)
        /\ commits' = Append(commits, c)
        /\ br' = [br EXCEPT ![b] = Len(commits) + 1]
  /\ head' = b
  /\ local' = [o \in Oids |-> IF (\E p \in Paths : t[p] = o) /\ local[o] = "absent" THEN "valid" ELSE local[o]]
  /\ UNCHANGED <<rr, rt, server, everRemote>>
  /\ Log([a |-> "committree", b |-> b, tree |-> t, age |-> age])

\* git checkout b; git merge o  (no conflicts: b's entries win, o fills the gaps)
Merge(b, o) ==
  /\ Len(commits) < MaxCommits /\ b # o /\ br[b] # NoCommit /\ br[o] # NoCommit
  /\ br[o] \notin Anc(br[b], commits) /\ br[b] \notin Anc(br[o], commits)
  /\ LET c == [par |-> {br[b], br[o]},
               tree |-> [p \in Paths |-> IF commits[br[b]].tree[p] # "none" THEN commits[br[b]].tree[p]
                                         ELSE commits[br[o]].tree[p]],
               age |-> 0]
     IN /\ commits' = Append(commits, c) /\ br' = [br EXCEPT ![b] = Len(commits) + 1]
        /\ Log([a |-> "merge", b |-> b, o |-> o, tree |-> c.tree])
  /\ head' = b
  /\ UNCHANGED <<rr, rt, local, server, everRemote>>

\* environment: a local object file disappears / is corrupted (same size)
DamageLocal(o, how) ==
  /\ local[o] = "valid" /\ how \in {"absent", "corrupt"}
  /\ local' = [local EXCEPT ![o] = how]
  /\ UNCHANGED <<commits, br, rr, rt, head, server, everRemote>>
  /\ Log([a |-> "damage", oid |-> o, how |-> how])

\* environment: somebody else pushed branch b's current commit (objects included):
\* the remote moves, this clone's remote-tracking ref does not
OtherPush(b) ==
  /\ br[b] # NoCommit /\ rr[b] # br[b] /\ rt[b] = rr[b]
  /\ (rr[b] = NoCommit \/ rr[b] \in Anc(br[b], commits))
  /\ rr' = [rr EXCEPT ![b] = br[b]]
  /\ server' = server \cup PtrOids(Anc(br[b], commits), commits)
  /\ everRemote' = everRemote \cup Anc(br[b], commits)
  /\ UNCHANGED <<commits, br, rt, head, local>>
  /\ Log([a |-> "otherpush", b |-> b, oids |-> PtrOids(Anc(br[b], commits), commits)])

\* environment: somebody else deleted branch b on the remote and the server then garbage-collected what
\* no remote ref reaches any more; this clone has not fetched since, its remote-tracking ref is stale
OtherDelete(b) ==
  /\ rr[b] # NoCommit /\ rt[b] = rr[b]
  /\ rr' = [rr EXCEPT ![b] = NoCommit]
  /\ everRemote' = ReachSet({rr'[x] : x \in Branches}, commits)
  /\ server' = server \cap PtrOids(everRemote', commits)
  /\ UNCHANGED <<commits, br, rt, head, local>>
  /\ Log([a |-> "otherdelete", b |-> b, gone |-> server \ server'])

RemoteComplete == PtrOids(everRemote, commits) \subseteq server
=============================================================================
