CONSTANTS
 MaxHot = 2
 MaxLen = 2
 MaxEntries = 3
 Emit = TRUE
SPECIFICATION Spec
INVARIANT HelperSeesExactlySupplied
INVARIANT RefusedOnlyWhenHostile
INVARIANT RefusalNecessary
CONSTRAINT EmitState
CHECK_DEADLOCK FALSE
