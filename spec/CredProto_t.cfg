CONSTANTS
 MaxHot = 2
 MaxLen = 2
 Emit = TRUE
SPECIFICATION Spec
INVARIANT HelperSeesExactlySupplied
INVARIANT RefusedOnlyWhenHostile
INVARIANT RefusalNecessary
CONSTRAINT EmitState
CHECK_DEADLOCK FALSE
