CONSTANTS
 Oids = {"o1","o2"}
 Paths = {"p1","p2"}
 Branches = {"main","dev"}
 Ages = {0, 20}
 MaxCommits = 3
 MaxSteps = 6
 Emit = FALSE
 Skew = FALSE
 Modes = {"git-push"}
 SmudgedWT = FALSE
 RecentDays = 10
 CommitWindows = {0, 21}
 EmitSel = 0
 Thin = TRUE
 PruneFlags = {"none","dry-run","recent","force","verify-remote"}
SPECIFICATION PSpec
VIEW PView
PROPERTY NeverPrunesNeeded
ACTION_CONSTRAINT EmitPrune
CHECK_DEADLOCK FALSE
