----------------------------- MODULE Storage_MC -----------------------------
EXTENDS Storage
J(c, o) == [cmd |-> c, o |-> o]
JobStore  == <<J("store", "a"), J("store", "b"), J("store", "a")>>
JobMixed  == <<J("store", "a"), J("repair", "c"), J("drop", "d"), J("store", "b")>>
=============================================================================
