----------------------------- MODULE Storage_MC -----------------------------
EXTENDS Storage
J(c, o) == [cmd |-> c, o |-> o]
JobStore  == <<J("store", "a"), J("store", "b"), J("store", "a")>>
JobAdopt  == <<J("adopt", "a"), J("store", "b"), J("adopt", "a"), J("adopt", "c")>>
JobMixed  == <<J("store", "a"), J("repair", "c"), J("drop", "d"), J("store", "b")>>
=============================================================================
