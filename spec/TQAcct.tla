------------------------------- MODULE TQAcct -------------------------------
(***************************************************************************)
(* Accounting-level acceptor for traces of the real tq.TransferQueue.      *)
(*                                                                         *)
(* This is the verdict layer of C06 and C15: a sequential monitor over the *)
(* events logged by the verif hooks in tq/transfer_queue.go, by the fake   *)
(* adapter and by the scripted batch server.  It has one action per event  *)
(* kind and no silent steps, so validation is linear in the trace length.  *)
(* It says nothing about batch composition or ordering: it only demands    *)
(* what the properties demand —                                            *)
(*   C06  every remembered oid gets exactly one terminal outcome; the wait *)
(*        counter equals the number of non-terminal oids (never negative); *)
(*        at Wait's return every watcher got one delivery per Add of a     *)
(*        completed oid, nothing for the others, which are no-transfer or  *)
(*        covered by a reported error; only transferred oids delivered;    *)
(*   C15  attempts <= maxretries+1, retries <= maxretries, no retry after  *)
(*        a fatal outcome, no second transfer of an oid while one is armed *)
(*        / in flight / unhandled, nothing requested or started before a   *)
(*        Retry-After instant, back-off delay <= configured maximum, and   *)
(*        the collector never sleeps an ordinarily retried object past its *)
(*        failure time + that maximum (col.sleep is the computed sleep).   *)
(* Traces of many runs are concatenated; a "reset" line starts a new run.  *)
(***************************************************************************)
EXTENDS Integers, Sequences, FiniteSets, TLC, Json, IOUtils

Oids  == {"a", "b", "c", "d", "?"}
Trace == ndJsonDeserialize(IOEnv.TRACE)

VARIABLES l, maxret, nwatch,
          known,      \* oid -> number of Add calls remembered
          marked,     \* oids with a terminal outcome (a Done owed or paid)
          completed,  \* transferred successfully
          noneed,     \* server said no transfer needed
          errd,       \* covered by a reported error
          wg, owed, pnew, aborted,
          retries, attempts, inflight, armed, awaiting, fatal,
          expect, consumed, notBefore, laterRetry,
          ordAt       \* oid -> time (ms) at which an ordinary (not Retry-After) retry was scheduled and not yet re-requested; -1: none

vars == <<l, maxret, nwatch, known, marked, completed, noneed, errd, wg, owed, pnew, aborted, retries, attempts,
          inflight, armed, awaiting, fatal, expect, consumed, notBefore, laterRetry, ordAt>>

Zero == [o \in Oids |-> 0]

Init == /\ l = 1 /\ maxret = 0 /\ nwatch = 1 /\ known = Zero /\ marked = {} /\ completed = {} /\ noneed = {} /\ errd = {}
        /\ wg = 0 /\ owed = 0 /\ pnew = 0 /\ aborted = FALSE /\ retries = Zero /\ attempts = Zero
        /\ inflight = {} /\ armed = {} /\ awaiting = {} /\ fatal = {} /\ expect = Zero /\ consumed = Zero
        /\ notBefore = Zero /\ laterRetry = {} /\ ordAt = [o \in Oids |-> -1]

E == Trace[l]
Is(e) == l <= Len(Trace) /\ E.ev = e /\ l' = l + 1
IsIn(S) == l <= Len(Trace) /\ E.ev \in S /\ l' = l + 1
U(v) == UNCHANGED v

Reset == /\ Is("reset") /\ maxret' = E.n /\ nwatch' = (IF "w" \in DOMAIN E THEN E.w ELSE 1)
         /\ known' = Zero /\ marked' = {} /\ completed' = {} /\ noneed' = {} /\ errd' = {}
         /\ wg' = 0 /\ owed' = 0 /\ pnew' = 0 /\ aborted' = FALSE /\ retries' = Zero /\ attempts' = Zero
         /\ inflight' = {} /\ armed' = {} /\ awaiting' = {} /\ fatal' = {} /\ expect' = Zero /\ consumed' = Zero
         /\ notBefore' = Zero /\ laterRetry' = {}

\* events the accounting does not depend on
Nop == /\ IsIn({"add.call", "add.ret", "wait.call", "wait.done", "batch.call", "col.launch", "col.after", "col.sleep", "obj.unknown.ignored"})
       /\ U(<<maxret, nwatch, known, marked, completed, noneed, errd, wg, owed, pnew, aborted, retries, attempts,
              inflight, armed, awaiting, fatal, expect, consumed, notBefore, laterRetry>>)

WgAdd == /\ Is("wg.add") /\ ~aborted /\ wg' = wg + 1 /\ E.n = wg' /\ pnew' = pnew + 1
         /\ U(<<maxret, nwatch, known, marked, completed, noneed, errd, owed, aborted, retries, attempts, inflight,
                armed, awaiting, fatal, expect, consumed, notBefore, laterRetry>>)
WgAddAborted == /\ Is("wg.add") /\ aborted /\ pnew' = pnew + 1
         /\ U(<<maxret, nwatch, known, marked, completed, noneed, errd, wg, owed, aborted, retries, attempts, inflight,
                armed, awaiting, fatal, expect, consumed, notBefore, laterRetry>>)
RememberNew == /\ Is("remember.new") /\ known[E.oid] = 0 /\ known' = [known EXCEPT ![E.oid] = 1]
               /\ pnew > 0 /\ pnew' = pnew - 1
               /\ U(<<maxret, nwatch, marked, completed, noneed, errd, wg, owed, aborted, retries, attempts, inflight,
                      armed, awaiting, fatal, expect, consumed, notBefore, laterRetry>>)
RememberDup == /\ Is("remember.dup") /\ known[E.oid] > 0 /\ E.oid \notin completed
               /\ known' = [known EXCEPT ![E.oid] = @ + 1] /\ E.n = known'[E.oid]
               /\ U(<<maxret, nwatch, marked, completed, noneed, errd, wg, owed, pnew, aborted, retries, attempts,
                      inflight, armed, awaiting, fatal, expect, consumed, notBefore, laterRetry>>)
RememberDupDone == /\ Is("remember.dupdone") /\ E.oid \in completed
               /\ known' = [known EXCEPT ![E.oid] = @ + 1]
               /\ expect' = [expect EXCEPT ![E.oid] = @ + nwatch]
               /\ U(<<maxret, nwatch, marked, completed, noneed, errd, wg, owed, pnew, aborted, retries, attempts,
                      inflight, armed, awaiting, fatal, consumed, notBefore, laterRetry>>)

\* terminal outcomes: each remembered oid exactly once; a Done becomes owed
Mark(o) == /\ known[o] > 0 /\ o \notin marked /\ marked' = marked \cup {o} /\ owed' = owed + 1
ObjNoaction == /\ Is("obj.noaction") /\ Mark(E.oid) /\ noneed' = noneed \cup {E.oid}
               /\ E.oid \notin armed /\ E.oid \notin inflight /\ E.oid \notin awaiting
               /\ U(<<maxret, nwatch, known, completed, errd, wg, aborted, retries, attempts, inflight, armed,
                      awaiting, fatal, expect, consumed, pnew, notBefore, laterRetry>>)
ObjError == /\ IsIn({"obj.error", "obj.relerr", "batch.objfail", "obj.unanswered"})
            /\ Mark(E.oid) /\ errd' = errd \cup {E.oid}
            /\ E.oid \notin armed /\ E.oid \notin inflight /\ E.oid \notin awaiting
            /\ U(<<maxret, nwatch, known, completed, noneed, wg, aborted, retries, attempts, inflight, armed,
                   awaiting, fatal, expect, consumed, pnew, notBefore, laterRetry>>)
ObjXfer == /\ Is("obj.xfer") /\ known[E.oid] > 0 /\ E.oid \notin marked
           /\ E.oid \notin armed /\ E.oid \notin inflight /\ E.oid \notin awaiting     \* C15 no overlap
           /\ armed' = armed \cup {E.oid}
           /\ U(<<maxret, nwatch, known, marked, completed, noneed, errd, wg, owed, pnew, aborted, retries, attempts,
                  inflight, awaiting, fatal, expect, consumed, notBefore, laterRetry>>)
XferStart == /\ Is("xfer.start") /\ E.oid \in armed /\ E.oid \notin inflight
             /\ armed' = armed \ {E.oid} /\ inflight' = inflight \cup {E.oid}
             /\ attempts' = [attempts EXCEPT ![E.oid] = @ + 1] /\ attempts'[E.oid] <= maxret + 1     \* C15 budget
             /\ E.t >= notBefore[E.oid]                                                             \* C15 Retry-After
             /\ U(<<maxret, nwatch, known, marked, completed, noneed, errd, wg, owed, pnew, aborted, retries,
                    awaiting, fatal, expect, consumed, notBefore, laterRetry>>)
XferEnd == /\ IsIn({"xfer.end.ok", "xfer.end.retriable", "xfer.end.fatal", "xfer.end.unproc", "xfer.end.later"})
           /\ E.oid \in inflight /\ inflight' = inflight \ {E.oid} /\ awaiting' = awaiting \cup {E.oid}
           /\ fatal' = IF E.ev \in {"xfer.end.fatal", "xfer.end.unproc"} THEN fatal \cup {E.oid} ELSE fatal
           /\ notBefore' = IF E.ev = "xfer.end.later" THEN [notBefore EXCEPT ![E.oid] = E.t + E.n] ELSE notBefore
           /\ laterRetry' = IF E.ev = "xfer.end.later" THEN laterRetry \cup {E.oid} ELSE laterRetry
           /\ U(<<maxret, nwatch, known, marked, completed, noneed, errd, wg, owed, pnew, aborted, retries, attempts,
                  armed, expect, consumed>>)
ResultOk == /\ Is("result.ok") /\ E.oid \in awaiting /\ awaiting' = awaiting \ {E.oid}
            /\ Mark(E.oid) /\ completed' = completed \cup {E.oid}
            /\ E.n = known[E.oid] /\ expect' = [expect EXCEPT ![E.oid] = @ + E.n * nwatch]
            /\ U(<<maxret, nwatch, known, noneed, errd, wg, aborted, retries, attempts, inflight, armed, fatal,
                   consumed, pnew, notBefore, laterRetry>>)
ResultFail == /\ Is("result.fail") /\ E.oid \in awaiting /\ awaiting' = awaiting \ {E.oid}
              /\ Mark(E.oid) /\ errd' = errd \cup {E.oid}
              /\ U(<<maxret, nwatch, known, completed, noneed, wg, aborted, retries, attempts, inflight, armed, fatal,
                     expect, consumed, pnew, notBefore, laterRetry>>)
Retry == /\ Is("retry") /\ known[E.oid] > 0 /\ E.oid \notin marked /\ E.oid \notin fatal            \* C15 no retry after fatal
         /\ E.oid \notin armed /\ E.oid \notin inflight
         /\ retries' = [retries EXCEPT ![E.oid] = @ + 1]
         /\ E.n = retries'[E.oid] /\ E.n <= maxret                                                  \* C15 budget
         /\ awaiting' = awaiting \ {E.oid}
         /\ U(<<maxret, nwatch, known, marked, completed, noneed, errd, wg, owed, pnew, aborted, attempts, inflight,
                armed, fatal, expect, consumed, notBefore, laterRetry>>)
\* computed back-off (ms): capped by lfs.transfer.maxretrydelay (1 s in every run) unless it is a Retry-After deferral (2 s in every run) — C15 DelayCapped
RetryDelay == /\ Is("retry.delay")
              /\ (E.n <= 1000 \/ E.oid \in laterRetry \/ notBefore[E.oid] > E.t)       \* a Retry-After wait is the server's, not capped
              /\ laterRetry' = laterRetry \ {E.oid}
              /\ U(<<maxret, nwatch, known, marked, completed, noneed, errd, wg, owed, pnew, aborted, retries, attempts,
                     inflight, armed, awaiting, fatal, expect, consumed, notBefore>>)
\* scripted server: one line per object of each batch request; 429+Retry-After defers them
SrvObj == /\ Is("srv.obj") /\ (E.oid # "?" => E.t >= notBefore[E.oid])                             \* C15 Retry-After
          /\ U(<<maxret, nwatch, known, marked, completed, noneed, errd, wg, owed, pnew, aborted, retries, attempts,
                 inflight, armed, awaiting, fatal, expect, consumed, notBefore, laterRetry>>)
SrvLater == /\ Is("srv.later") /\ notBefore' = [notBefore EXCEPT ![E.oid] = E.t + E.n]
            /\ U(<<maxret, nwatch, known, marked, completed, noneed, errd, wg, owed, pnew, aborted, retries, attempts,
                   inflight, armed, awaiting, fatal, expect, consumed, laterRetry>>)
WgDone == /\ Is("wg.done") /\ ~aborted /\ owed > 0 /\ owed' = owed - 1 /\ wg' = wg - 1 /\ E.n = wg' /\ wg' >= 0
          /\ U(<<maxret, nwatch, known, marked, completed, noneed, errd, aborted, retries, attempts, inflight, armed,
                 awaiting, fatal, expect, consumed, pnew, notBefore, laterRetry>>)
WgDoneAborted == /\ Is("wg.done.aborted") /\ aborted
          /\ U(<<maxret, nwatch, known, marked, completed, noneed, errd, wg, owed, pnew, aborted, retries, attempts,
                 inflight, armed, awaiting, fatal, expect, consumed, notBefore, laterRetry>>)
WgAbort == /\ Is("wg.abort") /\ aborted' = TRUE
           /\ U(<<maxret, nwatch, known, marked, completed, noneed, errd, wg, owed, pnew, retries, attempts,
                  inflight, armed, awaiting, fatal, expect, consumed, notBefore, laterRetry>>)
Consume == /\ Is("consume") /\ consumed' = [consumed EXCEPT ![E.oid] = @ + 1]
           /\ consumed'[E.oid] <= expect[E.oid]                   \* C06: nothing delivered that was not transferred
           /\ U(<<maxret, nwatch, known, marked, completed, noneed, errd, wg, owed, pnew, aborted, retries, attempts,
                  inflight, armed, awaiting, fatal, expect>>)
           /\ U(<<notBefore, laterRetry>>)
WaitRet == /\ Is("wait.ret")
           /\ \A o \in Oids : consumed[o] = expect[o]
           /\ ~aborted => /\ wg = 0 /\ owed = 0 /\ pnew = 0 /\ inflight = {} /\ armed = {} /\ awaiting = {}
                          /\ \A o \in Oids : known[o] > 0 =>
                                /\ o \in marked
                                /\ (o \in completed => consumed[o] = known[o] * nwatch)
                                /\ (o \notin completed => consumed[o] = 0 /\ (o \in noneed \/ o \in errd))
           /\ aborted => E.n > 0                                  \* an abort is always a reported error
           /\ (errd # {}) => E.n > 0                              \* "covered by a reported error"
           /\ U(<<maxret, nwatch, known, marked, completed, noneed, errd, wg, owed, pnew, aborted, retries, attempts,
                  inflight, armed, awaiting, fatal, expect, consumed, notBefore, laterRetry>>)

Next == Reset \/ Nop \/ WgAdd \/ WgAddAborted \/ RememberNew \/ RememberDup \/ RememberDupDone \/ ObjNoaction \/ ObjError
        \/ ObjXfer \/ XferStart \/ XferEnd \/ ResultOk \/ ResultFail \/ Retry \/ RetryDelay \/ SrvObj \/ SrvLater
        \/ WgDone \/ WgDoneAborted \/ WgAbort \/ Consume \/ WaitRet
WgMatches == aborted \/ wg = Cardinality({o \in Oids : known[o] > 0 /\ o \notin marked}) + owed + pnew
NoOverlap == (inflight \cap armed = {}) /\ (inflight \cap awaiting = {}) /\ (armed \cap awaiting = {})
\* the invariants are evaluated on the state after every consumed event: a
\* violation shows up as "no action matches this line" (one uniform verdict path)
\* ordinary retries in waiting (maintained beside the actions above, from the same event)
CapMs == 1000      \* lfs.transfer.maxretrydelay of every run
SlackMs == 100
OrdStep == ordAt' = CASE E.ev = "reset" -> [o \in Oids |-> -1]
                      [] E.ev = "retry.delay" -> [ordAt EXCEPT ![E.oid] = IF E.n <= CapMs THEN E.t ELSE -1]
                      [] E.ev = "srv.obj" /\ E.oid \in Oids -> [ordAt EXCEPT ![E.oid] = -1]
                      [] OTHER -> ordAt
\* C15: the sleep the collector computes never carries an ordinarily retried object past the maximum wait
SleepOk == E.ev = "col.sleep" => \A o \in Oids : ordAt[o] >= 0 => E.t + E.n <= ordAt[o] + CapMs + SlackMs
TraceNext == l <= Len(Trace) /\ Next /\ OrdStep /\ SleepOk /\ WgMatches' /\ NoOverlap'
Spec == Init /\ [][TraceNext]_vars
Accepted  == TLCGet("stats").diameter - 1 = Len(Trace)
=============================================================================
