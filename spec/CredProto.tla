------------------------------ MODULE CredProto ------------------------------
(***************************************************************************)
(* The git-credential wire format as git-lfs must produce it (creds/       *)
(* creds.go: Creds.buffer, commandCredentialHelper.exec) and as the helper *)
(* side (git's credential reader) parses it.                               *)
(*                                                                         *)
(* A credential map is assembled field by field (Put), then sent (Send).   *)
(* Values are short sequences over a character alphabet that contains the  *)
(* protocol's delimiters.  Send either refuses (the property's rule) or    *)
(* writes one "k=v" line per supplied pair after the capability preamble.  *)
(* The helper side splits the byte stream at LF, cuts each line at the     *)
(* first NUL (C strings) and, under protocol protection, treats a CR as    *)
(* hostile; HelperSeesExactlySupplied shows the refusal rule is sufficient *)
(* and (RefusalNecessary) that dropping any of its three clauses lets an   *)
(* extra or altered line through.                                          *)
(***************************************************************************)
EXTENDS Integers, Sequences, FiniteSets, TLC, Json, CSV, IOUtils

CONSTANTS MaxHot,      \* number of fields that receive a hostile value
          MaxLen,      \* maximal value length
          MaxEntries,  \* maximal number of entries of a multi-valued field (wwwauth[], state[])
          Emit

Chars  == {"x", "eq", "LF", "CR", "NUL", "sp"}
Fields == {"protocol", "host", "path", "username", "password", "wwwauth[]", "state[]"}
Ops    == {"fill", "approve", "reject"}

Values == UNION {[1..n -> Chars] : n \in 1..MaxLen}
Plain  == <<"x">>

Multi  == {"wwwauth[]", "state[]"}     \* fields supplied as a list of entries: one "k=v" line per entry

VARIABLES cred,      \* field -> value (sequence of chars); fields not in DOMAIN are not supplied
          shape,     \* multi-valued field -> <<n, k>>: supplied as n entries, cred[f] being entry k, the others plain
          protect, op, hot, sent, refused, wire,
          prior      \* TRUE: the same helper context served another URL before, whose own (URL-scoped) setting switches
                     \* the protection off; protect is the setting that applies to the URL at hand, and the
                     \* context's past is not an argument of the refusal rule
vars == <<cred, shape, protect, op, hot, sent, refused, wire, prior>>

Init == /\ protect \in BOOLEAN /\ op \in Ops /\ prior \in BOOLEAN /\ (prior => protect)
        /\ cred = [f \in {"protocol", "host"} |-> Plain] /\ shape = <<>>
        /\ hot = 0 /\ sent = FALSE /\ refused = FALSE /\ wire = <<>>

Put(f, v, n, k) ==
  /\ ~sent /\ hot < MaxHot
  /\ n \in 1..MaxEntries /\ k \in 1..n /\ (f \notin Multi => n = 1)
  /\ shape' = IF f \in Multi THEN [g \in DOMAIN shape \cup {f} |-> IF g = f THEN <<n, k>> ELSE shape[g]] ELSE shape
  /\ (f = "password" => op # "fill")            \* fill never carries a password
  /\ (f \in DOMAIN cred => cred[f] = Plain)     \* each field gets at most one hostile value
  /\ v # Plain
  /\ cred' = [g \in DOMAIN cred \cup {f} |-> IF g = f THEN v ELSE cred[g]]
  /\ hot' = hot + 1
  /\ UNCHANGED <<protect, op, sent, refused, wire, prior>>

Has(v, c) == \E i \in DOMAIN v : v[i] = c
\* the property's refusal rule
Refuse == \E f \in DOMAIN cred : Has(cred[f], "LF") \/ Has(cred[f], "NUL") \/ (protect /\ Has(cred[f], "CR"))

\* serialisation: "k=v\n" per pair (per entry of a multi-valued field); keys are atoms, values are
\* character sequences.  The refusal rule above speaks about every entry: the plain ones are harmless,
\* so it is cred[f] wherever it stands in its list that decides.
Entries(f) == IF f \in DOMAIN shape THEN [i \in 1..shape[f][1] |-> IF i = shape[f][2] THEN cred[f] ELSE Plain] ELSE <<cred[f]>>
RECURSIVE LinesOf(_, _)
LinesOf(f, es) == IF es = <<>> THEN <<>> ELSE <<f, "eq">> \o Head(es) \o <<"LF">> \o LinesOf(f, Tail(es))
Line(f) == LinesOf(f, Entries(f))
NLines == LET RECURSIVE Sum(_) Sum(S) == IF S = {} THEN 0 ELSE LET f == CHOOSE g \in S : TRUE IN Len(Entries(f)) + Sum(S \ {f}) IN Sum(DOMAIN cred)
RECURSIVE Cat(_, _)
Cat(S, acc) == IF S = {} THEN acc ELSE LET f == CHOOSE g \in S : TRUE IN Cat(S \ {f}, acc \o Line(f))
Wire == Cat(DOMAIN cred, <<>>)

Send ==
  /\ ~sent /\ sent' = TRUE
  /\ refused' = Refuse
  /\ wire' = IF Refuse THEN <<>> ELSE Wire
  /\ UNCHANGED <<cred, shape, protect, op, hot, prior>>

Next == (\E f \in Fields, v \in Values, n \in 1..MaxEntries, k \in 1..MaxEntries : Put(f, v, n, k)) \/ Send
Spec == Init /\ [][Next]_vars

\* ---- helper side -----------------------------------------------------------
\* split at LF
RECURSIVE SplitLF(_, _, _)
SplitLF(s, cur, acc) ==
  IF s = <<>> THEN (IF cur = <<>> THEN acc ELSE Append(acc, cur))
  ELSE IF Head(s) = "LF" THEN SplitLF(Tail(s), <<>>, Append(acc, cur))
  ELSE SplitLF(Tail(s), Append(cur, Head(s)), acc)
\* a C reader stops at the first NUL of a line
RECURSIVE CutNUL(_)
CutNUL(s) == IF s = <<>> \/ Head(s) = "NUL" THEN <<>> ELSE <<Head(s)>> \o CutNUL(Tail(s))
\* a line is key, "eq", value
IsKeyAtom(x) == x \notin Chars
ParsedLine(ln) == LET c == CutNUL(ln) IN
                  IF Len(c) >= 2 /\ IsKeyAtom(c[1]) /\ c[2] = "eq"
                    THEN [ok |-> TRUE, key |-> c[1], val |-> SubSeq(c, 3, Len(c))]
                    ELSE [ok |-> FALSE, key |-> "", val |-> c]
HelperLines(w) == LET ls == SplitLF(w, <<>>, <<>>) IN {ParsedLine(ls[i]) : i \in DOMAIN ls}
Supplied == UNION {{[ok |-> TRUE, key |-> f, val |-> Entries(f)[i]] : i \in DOMAIN Entries(f)} : f \in DOMAIN cred}

\* C17: what the helper parses is exactly what was supplied, whenever the exchange is not refused
HelperSeesExactlySupplied ==
  (sent /\ ~refused) => /\ HelperLines(wire) = Supplied
                        /\ Len(SplitLF(wire, <<>>, <<>>)) = NLines
                        /\ (protect => \A i \in DOMAIN wire : wire[i] # "CR")
\* and the rule is not stronger than needed: a refused exchange really had a hostile value
RefusedOnlyWhenHostile == (sent /\ refused) => \E f \in DOMAIN cred : cred[f] # Plain
\* non-vacuity witness used by the runner: without the refusal the invariant breaks
UnsafeWire == Cat(DOMAIN cred, <<>>)
RefusalNecessary == (sent /\ refused /\ ~(\E f \in DOMAIN cred : protect /\ Has(cred[f], "CR") /\ ~Has(cred[f], "LF") /\ ~Has(cred[f], "NUL")))
                       => HelperLines(UnsafeWire) # Supplied

Out == [cred |-> [f \in DOMAIN cred |-> cred[f]], shape |-> shape, fields |-> DOMAIN cred, protect |-> protect, prior |-> prior, op |-> op, refuse |-> refused]
EmitState == (Emit /\ sent) => CSVWrite("%1$s", <<ToJson(Out)>>, IOEnv.OUT)
=============================================================================
