------------------------------- MODULE Install -------------------------------
(***************************************************************************)
(* C20: git lfs install / update / uninstall over hook files and the       *)
(* filter.lfs.* configuration of the scopes a command can name (global:    *)
(* no flag, --local, --worktree with extensions.worktreeConfig on).  A     *)
(* command reads and writes the scope it names and nothing else.           *)
(*                                                                         *)
(* A hook file is in one of the classes                                    *)
(*   absent, empty            nothing of the user's to lose                 *)
(*   current, old, indented   text git-lfs itself generated (now, in an    *)
(*                            earlier release, or the same re-indented)    *)
(*   user, userlfs, lfspadtail   the user's: a script, a script that also  *)
(*                            contains the LFS line, LFS text followed by  *)
(*                            >1024 bytes of padding and a user tail       *)
(*   userlink                 the user's: a symbolic link to a script kept *)
(*                            elsewhere (link and script must both stay)   *)
(*   useroff                  the user's: a script switched off for now    *)
(*                            with chmod -x (bytes and mode must both stay)*)
(* a configuration key is unset, cur(rent), old (a value an earlier        *)
(* release wrote), skip (the --skip-smudge form) or custom.                *)
(* The specification gives, per step, the set of classes each hook and key *)
(* may have afterwards and whether a conflict must be reported; the        *)
(* property itself is NoDestroy / Idempotent / UninstallRestores below.    *)
(***************************************************************************)
EXTENDS Integers, Sequences, FiniteSets, TLC, Json, CSV, IOUtils

CONSTANTS Hooks, Keys, Scopes, MaxOps, MaxVaried, Emit

HookClasses == {"absent", "empty", "current", "old", "indented", "user", "userlfs", "lfspadtail", "userlink", "useroff"}
UserOwned   == {"user", "userlfs", "lfspadtail", "userlink", "useroff"}
Generated   == {"current", "old", "indented"}
CfgClasses(k) == IF k = "smudge" \/ k = "process" THEN {"unset", "cur", "old", "skip", "custom"}
                 ELSE IF k = "clean" THEN {"unset", "cur", "old", "custom"} ELSE {"unset", "cur", "custom"}

VARIABLES hook, cfg, start, nops, hist
vars == <<hook, cfg, start, nops, hist>>
View == <<hook, cfg, start>>

\* initial states: at most MaxVaried hooks / keys (of any scope) are in a non-default class
Slots == {<<"h", x, "-">> : x \in Hooks} \cup {<<"c", s, k>> : s \in Scopes, k \in Keys}
SlotClasses(sl) == IF sl[1] = "h" THEN HookClasses \ {"absent"} ELSE CfgClasses(sl[3]) \ {"unset"}
Init == /\ \E V \in {v \in SUBSET Slots : Cardinality(v) <= MaxVaried} :
           \E val \in [V -> HookClasses \cup {"cur", "skip", "custom"}] :
             /\ \A sl \in V : val[sl] \in SlotClasses(sl)
             /\ hook = [x \in Hooks |-> IF <<"h", x, "-">> \in V THEN val[<<"h", x, "-">>] ELSE "absent"]
             /\ cfg = [s \in Scopes |-> [k \in Keys |-> IF <<"c", s, k>> \in V THEN val[<<"c", s, k>>] ELSE "unset"]]
        /\ start = [hook |-> hook, cfg |-> cfg]
        /\ nops = 0 /\ hist = <<>>

Log(r) == nops < MaxOps /\ nops' = nops + 1 /\ hist' = Append(hist, r) /\ UNCHANGED start

\* target class of a key for install [--skip-smudge]
Target(k, skip) == IF skip /\ k \in {"smudge", "process"} THEN "skip" ELSE "cur"
\* values install may overwrite without --force: unset, values of earlier releases, the other smudge form
Resettable(k, v, skip) == v \in {"unset", "old"} \/ (v # Target(k, skip) /\ v \in {"cur", "skip"})

CfgConflict(c, skip) == \E k \in Keys : c[k] = "custom"
HookAfterInstall(v, force) == IF force THEN "current" ELSE IF v \in UserOwned THEN v ELSE "current"
\* a conflict must be reported when a hook is the user's and does not already run git-lfs in
\* the generated way; "lfspadtail" starts with the complete generated text, so leaving it alone
\* silently is as good as reporting it (what matters there is that it is never overwritten or deleted)
HookConflict(h) == \E x \in Hooks : h[x] \in {"user", "userlfs", "userlink", "useroff"}

Install(sc, force, skip) ==
  LET cconf == ~force /\ CfgConflict(cfg[sc], skip)
      \* on a configuration conflict the command stops: custom values stay, other keys may or may not have been set
      cfgAllowed == [s \in Scopes |-> [k \in Keys |->
                                    IF s # sc THEN {cfg[s][k]}
                                    ELSE IF force THEN {Target(k, skip)}
                                    ELSE IF cfg[s][k] = "custom" THEN {"custom"}
                                    ELSE IF cconf THEN {cfg[s][k], Target(k, skip)}
                                    ELSE {Target(k, skip)}]]
      hconf == ~force /\ ~cconf /\ HookConflict(hook)
      \* hooks are visited in order; a user hook stops the visit: later hooks may or may not have been upgraded
      hookAllowed == [x \in Hooks |-> IF cconf THEN {hook[x]}
                                      ELSE IF force THEN {"current"}
                                      ELSE IF hook[x] \in UserOwned THEN {hook[x]}
                                      ELSE IF hconf THEN {hook[x], "current"} ELSE {"current"}]
  IN /\ cfg' = [cfg EXCEPT ![sc] = [k \in Keys |-> IF force \/ (~cconf /\ cfg[sc][k] # "custom") THEN Target(k, skip) ELSE cfg[sc][k]]]
     /\ hook' = [x \in Hooks |-> IF cconf THEN hook[x] ELSE HookAfterInstall(hook[x], force)]
     /\ Log([a |-> "install", sc |-> sc, force |-> force, skip |-> skip, conflict |-> (cconf \/ hconf),
             cfgAllowed |-> cfgAllowed, hookAllowed |-> hookAllowed])

Update(force) ==
  LET hconf == ~force /\ HookConflict(hook)
      hookAllowed == [x \in Hooks |-> IF force THEN {"current"}
                                      ELSE IF hook[x] \in UserOwned THEN {hook[x]}
                                      ELSE IF hconf THEN {hook[x], "current"} ELSE {"current"}]
  IN /\ hook' = [x \in Hooks |-> HookAfterInstall(hook[x], force)]
     /\ UNCHANGED cfg
     /\ Log([a |-> "update", sc |-> "global", force |-> force, skip |-> FALSE, conflict |-> hconf,
             cfgAllowed |-> [s \in Scopes |-> [k \in Keys |-> {cfg[s][k]}]], hookAllowed |-> hookAllowed])

Uninstall(sc) ==
  LET \* C20: a custom value is the user's and must survive; generated values go away
      cfgAllowed == [s \in Scopes |-> [k \in Keys |-> IF s # sc \/ cfg[s][k] = "custom" THEN {cfg[s][k]} ELSE {"unset"}]]
      hookAllowed == [x \in Hooks |-> IF hook[x] \in UserOwned THEN {hook[x]} ELSE {"absent"}]
  IN /\ cfg' = [cfg EXCEPT ![sc] = [k \in Keys |-> IF cfg[sc][k] = "custom" THEN "custom" ELSE "unset"]]
     /\ hook' = [x \in Hooks |-> IF hook[x] \in UserOwned THEN hook[x] ELSE "absent"]
     /\ Log([a |-> "uninstall", sc |-> sc, force |-> FALSE, skip |-> FALSE, conflict |-> FALSE,
             cfgAllowed |-> cfgAllowed, hookAllowed |-> hookAllowed])

\* Other commands install the hooks on their way (commands.installHooks(false) in track, untrack, clean,
\* smudge, filter-process, fsck, migrate import, clone): the same rule as update without --force, except
\* that nobody is told about a conflict - the command goes on with its own business.
ImplicitCmds == {"track", "untrack", "clean", "fsck"}
Implicit(cmd) ==
  LET hconf == HookConflict(hook)
      hookAllowed == [x \in Hooks |-> IF hook[x] \in UserOwned THEN {hook[x]}
                                      ELSE IF hconf THEN {hook[x], "current"} ELSE {"current"}]
  IN /\ cmd \in ImplicitCmds
     /\ hook' = [x \in Hooks |-> HookAfterInstall(hook[x], FALSE)]
     /\ UNCHANGED cfg
     /\ Log([a |-> "implicit", cmd |-> cmd, sc |-> "global", force |-> FALSE, skip |-> FALSE, conflict |-> FALSE,
             cfgAllowed |-> [s \in Scopes |-> [k \in Keys |-> {cfg[s][k]}]], hookAllowed |-> hookAllowed])

Next == \/ \E sc \in Scopes : (\E f, s \in BOOLEAN : Install(sc, f, s)) \/ Uninstall(sc)
        \/ \E f \in BOOLEAN : Update(f)
        \/ \E cmd \in ImplicitCmds : Implicit(cmd)
Spec == Init /\ [][Next]_vars

\* ---- the property on the design ------------------------------------------------
NoDestroy == [][\A x \in Hooks, k \in Keys :
                  /\ ((hook[x] \in UserOwned /\ ~(\E r \in {hist'[Len(hist')]} : r.force)) => hook'[x] = hook[x])
                  /\ \A s \in Scopes : ((cfg[s][k] = "custom" /\ ~(\E r \in {hist'[Len(hist')]} : r.force)) => cfg'[s][k] = "custom")]_vars
\* a command touches only the scope it names
ScopeIsolation == [][\A s \in Scopes : s # hist'[Len(hist')].sc => cfg'[s] = cfg[s]]_vars
\* install twice = install once
Idempotent == [][(Len(hist) > 0 /\ hist[Len(hist)].a = "install" /\ hist'[Len(hist')].a = "install"
                  /\ hist[Len(hist)].force = hist'[Len(hist')].force /\ hist[Len(hist)].skip = hist'[Len(hist')].skip
                  /\ hist[Len(hist)].sc = hist'[Len(hist')].sc)
                 => (hook' = hook /\ cfg' = cfg)]_vars

EmitEdge == Emit => CSVWrite("%1$s", <<ToJson([hook0 |-> start.hook, cfg0 |-> start.cfg, steps |-> hist'])>>, IOEnv.OUT)
=============================================================================
