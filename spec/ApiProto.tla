------------------------------ MODULE ApiProto ------------------------------
(***************************************************************************)
(* C18: what git-lfs sends to an LFS server, as a protocol acceptor over   *)
(* the request log of the harness's server (one run = one scenario).       *)
(*                                                                         *)
(*   batch   a batch request: operation, the oids named, and the results   *)
(*           of the per-line preconditions established by the harness      *)
(*           (JSON-schema validity with the repository's own schema files, *)
(*           Accept / Content-Type media type, non-negative sizes)         *)
(*   offer   one action of a batch response: (oid, rel, href, headers) and  *)
(*           the transfer adapter the response names ("basic" when it      *)
(*           names none, docs/api/batch.md); the adapter decides the       *)
(*           method: basic uploads with PUT, tus.io with HEAD and PATCH    *)
(*   use     a storage or verify request: must be exactly an offered       *)
(*           action - right method for the rel, same href, every offered   *)
(*           header present with the offered value, also where the client  *)
(*           would have chosen a value of its own (Content-Type of an      *)
(*           upload, with lfs.contenttype on or off) - and no offer of a   *)
(*           response naming an                                            *)
(*           unsupported hash algorithm may ever be used                   *)
(*   lockreq a lock / unlock / list / verify request with its preconditions*)
(*           and, for the two listings, its paging: a cursor is one the    *)
(*           server handed out (next_cursor) for the same kind of listing  *)
(*           in this run, a limit is absent or a positive integer          *)
(***************************************************************************)
EXTENDS Integers, Sequences, FiniteSets, TLC, Json, IOUtils

Trace == ndJsonDeserialize(IOEnv.TRACE)

VARIABLES l, asked, offered, poisoned, cursors
vars == <<l, asked, offered, poisoned, cursors>>
E == Trace[l]
Is(e) == l <= Len(Trace) /\ E.ev = e /\ l' = l + 1

MethodFor(rel) == CASE rel = "download" -> "GET" [] rel = "upload" -> "PUT" [] rel = "verify" -> "POST" [] OTHER -> "?"
MethodsFor(rel, adapter) == IF rel = "upload" /\ adapter = "tus" THEN {"HEAD", "PATCH"} ELSE {MethodFor(rel)}

Init  == l = 1 /\ asked = {} /\ offered = {} /\ poisoned = FALSE /\ cursors = {}
Reset == Is("reset") /\ asked' = {} /\ offered' = {} /\ poisoned' = FALSE /\ cursors' = {}

Batch == /\ Is("batch")
         /\ E.schemaOk /\ E.acceptOk /\ E.ctypeOk /\ E.sizesOk       \* Headers + schema preconditions
         /\ E.op \in {"download", "upload"}
         /\ asked' = asked \cup {E.oids[i] : i \in DOMAIN E.oids}
         /\ UNCHANGED <<offered, poisoned, cursors>>
Offer == /\ Is("offer")
         /\ E.oid \in asked                                          \* the server answers about what was asked
         /\ offered' = offered \cup {<<E.oid, E.rel, E.href, E.adapter>>}
         /\ UNCHANGED <<asked, poisoned, cursors>>
HashAlgo == Is("hashalgo") /\ poisoned' = TRUE /\ offered' = {} /\ UNCHANGED <<asked, cursors>>
Use   == /\ Is("use")
         /\ ~poisoned                                                \* HashAlgoRejected
         /\ \E ad \in {"basic", "tus"} :                             \* ActionAsOffered: same object, same URL,
              <<E.oid, E.rel, E.href, ad>> \in offered /\ E.method \in MethodsFor(E.rel, ad)   \* the offered adapter's method
         /\ E.hdrOk                                                  \* every offered header is sent
         /\ (E.rel = "verify" => (E.bodyOk /\ E.acceptOk /\ E.ctypeOk))
         /\ UNCHANGED <<asked, offered, poisoned, cursors>>
LockReq == /\ Is("lockreq") /\ E.schemaOk /\ E.acceptOk /\ E.ctypeOk
           /\ (E.cursor = "" \/ <<E.kind, E.cursor>> \in cursors)      \* CursorAsHandedOut
           /\ E.limitOk
           /\ cursors' = IF E.next = "" THEN cursors ELSE cursors \cup {<<E.kind, E.next>>}
           /\ UNCHANGED <<asked, offered, poisoned>>
Next == Reset \/ Batch \/ Offer \/ HashAlgo \/ Use \/ LockReq
Spec == Init /\ [][Next]_vars
Accepted == TLCGet("stats").diameter - 1 = Len(Trace)
=============================================================================
