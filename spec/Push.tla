-------------------------------- MODULE Push --------------------------------
(***************************************************************************)
(* C03: `git push` through the pre-push hook, `git lfs push <remote> <ref>`*)
(* and `git lfs push --all`, over the abstract repository of Repo.tla.      *)
(*                                                                         *)
(* The verdict action Push(S, mode) computes, from reachability alone, the *)
(* set of objects the push must make available on the server, whether the  *)
(* push may succeed, and what may have been uploaded if it does not.       *)
(***************************************************************************)
EXTENDS Repo

CONSTANTS Modes,      \* subset of {"git-push", "lfs-push", "lfs-push-all"}
          SmudgedWT   \* TRUE: work tree holds file contents (the uploader may re-clean them);
                      \* FALSE: work tree holds pointer files only (skip-smudge checkouts)

vars == <<rvars, steps, hist>>
View == rvars

\* objects whose content is still in the work tree of the checked-out branch:
\* the uploader re-cleans the work-tree file when the local object is gone
InWorktree == IF SmudgedWT THEN {TreeOf(br[head])[p] : p \in Paths} \cap Oids ELSE {}

\* D: branches deleted on the remote by the same `git push` (`git push origin :b ...`)
Push(S, mode, D) ==
  /\ mode \in Modes /\ S # {} /\ \A b \in S : br[b] # NoCommit
  /\ (mode # "git-push" => D = {}) /\ D \cap S = {} /\ \A b \in D : rr[b] # NoCommit
  /\ (mode = "git-push" => \A b \in S : br[b] # rr[b] /\ (rr[b] = NoCommit \/ rr[b] \in Anc(br[b], commits)))   \* fast-forward or new
  /\ (mode = "lfs-push-all" => S = {b \in Branches : br[b] # NoCommit})
  /\ LET exclude == IF mode = "lfs-push-all" THEN {}
                    ELSE {rt[b] : b \in Branches} \cup (IF mode = "git-push" THEN {rr[b] : b \in S} ELSE {})
         toScan  == ReachSet({br[b] : b \in S}, commits) \ ReachSet(exclude, commits)
         need    == PtrOids(toScan, commits)
         have    == server \cup LocalValid
         missing == need \ have
         recov   == missing \cap InWorktree \cap {o \in Oids : local[o] = "absent"}
         verdict == IF missing = {} THEN "ok" ELSE IF missing = recov THEN "either" ELSE "fail"
         upl     == (need \cap LocalValid) \ server
     IN \* the specification's own transition: the deterministic cases; "either" takes the successful branch
        /\ server' = IF verdict = "fail" THEN server ELSE server \cup need
        /\ local'  = IF verdict = "either" THEN [o \in Oids |-> IF o \in recov THEN "valid" ELSE local[o]] ELSE local
        /\ IF mode = "git-push" /\ verdict # "fail"
             THEN /\ rr' = [b \in Branches |-> IF b \in S THEN br[b] ELSE IF b \in D THEN NoCommit ELSE rr[b]]
                  /\ rt' = [b \in Branches |-> IF b \in S THEN br[b] ELSE IF b \in D THEN NoCommit ELSE rt[b]]
                  /\ everRemote' = everRemote \cup ReachSet({br[b] : b \in S}, commits)
             ELSE UNCHANGED <<rr, rt, everRemote>>
        /\ Log([a |-> "push", mode |-> mode, refs |-> S, deletes |-> D, verdict |-> verdict, need |-> need, missing |-> missing,
                mayUpload |-> upl, serverBefore |-> server,
                remoteNeeds |-> PtrOids(everRemote', commits), rrAfter |-> rr'])
  /\ UNCHANGED <<commits, br, head>>

Next == \/ \E b \in Branches, p \in Paths, blob \in Blobs, g \in Ages : Commit(b, p, blob, g)
        \/ \E b, o \in Branches : Merge(b, o)
        \/ \E o \in Oids, h \in {"absent", "corrupt"} : DamageLocal(o, h)
        \/ \E b \in Branches : OtherPush(b)
        \/ \E S \in SUBSET Branches, m \in Modes, D \in SUBSET Branches : Push(S, m, D)
Spec == RepoInit /\ [][Next]_vars

\* C03 on the design: whatever became reachable on the remote has its objects on the server.
\* (A failed git-push changes no remote ref: built into Push.)
RefsOnlyAfterObjects == \A b \in Branches : rr[b] # NoCommit => PtrOids(Anc(rr[b], commits), commits) \subseteq server

EmitEdge == (Emit /\ hist'[Len(hist')].a = "push") => CSVWrite("%1$s", <<ToJson(hist')>>, IOEnv.OUT)
=============================================================================
