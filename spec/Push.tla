-------------------------------- MODULE Push --------------------------------
(***************************************************************************)
(* C03: `git push` through the pre-push hook, `git lfs push <remote> <ref>`*)
(* and `git lfs push --all`, over the abstract repository of Repo.tla.      *)
(*                                                                         *)
(* The verdict action Push(S, mode) computes, from reachability alone, the *)
(* set of objects the push must make available on the server, whether the  *)
(* push may succeed, and what may have been uploaded if it does not.       *)
(***************************************************************************)
EXTENDS Repo

CONSTANTS Modes,      \* subset of {"git-push", "lfs-push", "lfs-push-all"}
          SmudgedWT   \* TRUE: work tree holds file contents (the uploader may re-clean them);
                      \* FALSE: work tree holds pointer files only (skip-smudge checkouts)

vars == <<rvars, steps, hist>>
View == rvars

\* objects whose content is still in the work tree of the checked-out branch:
\* the uploader re-cleans the work-tree file when the local object is gone
InWorktree == IF SmudgedWT THEN {TreeOf(br[head])[p] : p \in Paths} \cap Oids ELSE {}

\* objects an allowed incomplete push went without
Excused == UNION {hist[i].lost : i \in {j \in DOMAIN hist : hist[j].a = "push"}}

\* D: branches deleted on the remote by the same `git push` (`git push origin :b ...`)
\* allow: lfs.allowincompletepush for this push - objects available nowhere are then excused (the push may
\* go through without them), everything that is available must still be uploaded
\* vfail: during this push the server keeps uploads in a staging area and commits an object to its store
\* only when the client's verify call for it succeeds - and every verify call fails.  Nothing the push
\* uploads is then stored, so a push that had anything to upload must not succeed.
Push(S, mode, D, allow, vfail) ==
  /\ mode \in Modes /\ S # {} /\ \A b \in S : br[b] # NoCommit
  /\ (vfail => ~allow /\ D = {})
  /\ (mode # "git-push" => D = {}) /\ D \cap S = {} /\ \A b \in D : rr[b] # NoCommit
  /\ (mode = "git-push" => \A b \in S : br[b] # rr[b] /\ (rr[b] = NoCommit \/ rr[b] \in Anc(br[b], commits)))   \* fast-forward or new
  /\ (mode = "lfs-push-all" => S = {b \in Branches : br[b] # NoCommit})
  /\ LET \* What the remote is taken to have already.  For git push the property speaks: whatever becomes
         \* reachable on the remote must have its objects on the server, so only what the remote really
         \* has may be left out - the cached remote-tracking refs whose branch still exists there
         \* (lfs.calcSkippedRefs asks the remote for its branch names: a branch deleted there may have had
         \* its objects collected) and the remote's own values of the pushed refs.  `git lfs push <remote>
         \* <ref>` by its manual "filters out objects that are already referenced by the local clone of
         \* the remote": every cached remote-tracking ref, stale or not; what only a stale one covers MAY be
         \* uploaded all the same.
         live    == {x \in Branches : rr[x] # NoCommit}
         exLive  == {rt[b] : b \in live} \cup (IF mode = "git-push" THEN {rr[b] : b \in S} ELSE {})
         exAll   == {rt[b] : b \in Branches} \cup (IF mode = "git-push" THEN {rr[b] : b \in S} ELSE {})
         exclude == IF mode = "lfs-push-all" THEN {} ELSE IF mode = "git-push" THEN exLive ELSE exAll
         toScan  == ReachSet({br[b] : b \in S}, commits) \ ReachSet(exclude, commits)
         \* the scan lists pointer blobs the excluded side does not have: an object that a commit the remote
         \* already knows references as well is taken to be there already (it is, by RemoteComplete, unless an
         \* allowed incomplete push excused it earlier)
         need    == PtrOids(toScan, commits) \ PtrOids(ReachSet(exclude, commits), commits)
         \* ... but how far back into the excluded history Git looks when it leaves out shared blobs is Git's
         \* business (only the boundary commits' own trees are certain): objects of the scanned commits that
         \* also occur further back MAY be scanned, uploaded, or found missing; so may, for git lfs push,
         \* what only a stale remote-tracking ref covers
         widest  == IF mode = "lfs-push" THEN ReachSet({br[b] : b \in S}, commits) \ ReachSet(exLive, commits) ELSE toScan
         mayNeed == PtrOids(widest, commits) \ need
         ambiguous == (mayNeed \ server) # {}
         have    == server \cup LocalValid
         missing == need \ have
         recov   == missing \cap InWorktree \cap {o \in Oids : local[o] = "absent"}
         toUpload == (need \cap LocalValid) \ server
         verdict == IF vfail /\ toUpload # {} THEN "fail"
                    ELSE IF missing = {} THEN "ok" ELSE IF missing = recov THEN "either" ELSE IF allow THEN "incomplete" ELSE "fail"
         upl     == ((need \cup mayNeed) \cap LocalValid) \ server
     IN \* the specification's own transition: the deterministic cases; "either" takes the successful branch
        /\ server' = IF verdict = "fail" THEN server ELSE IF verdict = "incomplete" THEN server \cup (need \cap LocalValid) ELSE server \cup need
        /\ local'  = IF verdict = "either" THEN [o \in Oids |-> IF o \in recov THEN "valid" ELSE local[o]] ELSE local
        /\ IF mode = "git-push" /\ verdict # "fail"
             THEN /\ rr' = [b \in Branches |-> IF b \in S THEN br[b] ELSE IF b \in D THEN NoCommit ELSE rr[b]]
                  /\ rt' = [b \in Branches |-> IF b \in S THEN br[b] ELSE IF b \in D THEN NoCommit ELSE rt[b]]
                  /\ everRemote' = everRemote \cup ReachSet({br[b] : b \in S}, commits)
             ELSE UNCHANGED <<rr, rt, everRemote>>
        /\ Log([a |-> "push", mode |-> mode, refs |-> S, deletes |-> D, allow |-> allow, vfail |-> vfail, lost |-> (IF verdict = "incomplete" THEN missing \ recov ELSE {}), verdict |-> verdict, need |-> need, mayNeed |-> mayNeed, missing |-> missing, ambiguous |-> ambiguous,
                mayUpload |-> upl, serverBefore |-> server,
                liveTracked |-> {b \in Branches : rt[b] # NoCommit /\ rr[b] # NoCommit}, staleTracked |-> {b \in Branches : rt[b] # NoCommit /\ rr[b] = NoCommit},
                remoteNeeds |-> PtrOids(everRemote', commits) \ (Excused \cup (IF verdict = "incomplete" THEN missing \ recov ELSE {})),
                rrAfter |-> rr'])
  /\ UNCHANGED <<commits, br, head>>

Next == \/ \E b \in Branches, p \in Paths, blob \in Blobs, g \in Ages : Commit(b, p, blob, g)
        \/ \E b, o \in Branches : Merge(b, o)
        \/ \E o \in Oids, h \in {"absent", "corrupt"} : DamageLocal(o, h)
        \/ \E b \in Branches : OtherPush(b)
        \/ \E b \in Branches : OtherDelete(b)
        \/ \E S \in SUBSET Branches, m \in Modes, D \in SUBSET Branches, al, vf \in BOOLEAN : Push(S, m, D, al, vf)
Spec == RepoInit /\ [][Next]_vars

RemoteCompleteX == PtrOids(everRemote, commits) \subseteq server \cup Excused
\* C03 on the design: whatever became reachable on the remote has its objects on the server.
\* (A failed git-push changes no remote ref: built into Push.)
RefsOnlyAfterObjects == \A b \in Branches : rr[b] # NoCommit => PtrOids(Anc(rr[b], commits), commits) \subseteq server \cup Excused

EmitEdge == (Emit /\ hist'[Len(hist')].a = "push") => CSVWrite("%1$s", <<ToJson(hist')>>, IOEnv.OUT)
=============================================================================
