CONSTANTS
 MaxOps = 2
 Emit = TRUE
SPECIFICATION Spec
INVARIANT Contained
ACTION_CONSTRAINT EmitEdge
CHECK_DEADLOCK FALSE
