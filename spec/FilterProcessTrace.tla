------------------------ MODULE FilterProcessTrace ------------------------
(***************************************************************************)
(* Acceptor for recorded filter-process sessions (verdict layer of C14).   *)
(* One line per exchange, written by the harness's pkt-line client, which  *)
(* also checks the framing of every response (status list, content,        *)
(* final status list) and classifies the returned bytes against the        *)
(* expected bytes of the one-shot filters (C01 / C08 oracle).              *)
(*                                                                         *)
(*   loc[o]      where object o can be had: "local", "server", "missing"   *)
(*   delayed     paths the filter answered with status=delayed             *)
(*   listed      paths announced by list_available_blobs so far            *)
(*   retrieved   listed paths Git has fetched again                        *)
(* C14: every exchange is well-formed; content equals the one-shot         *)
(* filter's; a path is announced at most once and only if delayed; a       *)
(* retrieval returns the right content; when the list comes back empty     *)
(* every delayed path has been announced; the filter may die only while    *)
(* answering for an object that cannot be obtained (and only if            *)
(* lfs.skipdownloaderrors is off); with smudging switched off (off) every  *)
(* smudge returns its pointer.                                             *)
(***************************************************************************)
EXTENDS Integers, Sequences, FiniteSets, TLC, Json, IOUtils

Trace == ndJsonDeserialize(IOEnv.TRACE)
Oids == {"oL", "oS", "oS2", "oM"}

VARIABLES l, loc, capDelay, skipErr, off, delayed, listed, retrieved, pathOid, dead, ended
vars == <<l, loc, capDelay, skipErr, off, delayed, listed, retrieved, pathOid, dead, ended>>
E == Trace[l]
Is(e) == l <= Len(Trace) /\ E.ev = e /\ l' = l + 1
SetOf(s) == {s[i] : i \in DOMAIN s}

Loc0 == [o \in Oids |-> CASE o = "oL" -> "local" [] o = "oM" -> "missing" [] OTHER -> "server"]
Init == /\ l = 1 /\ loc = Loc0 /\ capDelay = FALSE /\ skipErr = FALSE /\ off = "no" /\ delayed = {} /\ listed = {} /\ retrieved = {}
        /\ pathOid = <<>> /\ dead = FALSE /\ ended = TRUE

Reset == /\ Is("reset") /\ ended                   \* the previous session must have ended properly
         /\ loc' = Loc0 /\ capDelay' = E.capDelay /\ skipErr' = E.skipErr /\ off' = E.off
         /\ delayed' = {} /\ listed' = {} /\ retrieved' = {} /\ pathOid' = <<>> /\ dead' = FALSE /\ ended' = FALSE

WellFormed == E.framing = "ok"
Alive == ~dead /\ ~ended

Clean == /\ Is("clean") /\ Alive /\ WellFormed
         /\ E.status = "success" /\ E.final \in {"", "success"}
         /\ E.out = (CASE E.what = "data" -> "pointer-of-input" [] E.what = "pointer" -> "same-as-input" [] OTHER -> "empty")
         /\ UNCHANGED <<loc, capDelay, skipErr, off, delayed, listed, retrieved, pathOid, dead, ended>>

\* an object that can be had: content now, or (if Git allowed it) delayed
SmudgeAvailable ==
  /\ Is("smudge") /\ off = "no" /\ Alive /\ WellFormed /\ loc[E.oid] \in {"local", "server"}
  /\ \/ /\ E.status = "success" /\ E.out = "content" /\ E.final \in {"", "success"}
        /\ loc' = [loc EXCEPT ![E.oid] = "local"] /\ UNCHANGED <<delayed, pathOid>>
     \/ /\ E.status = "delayed" /\ E.candelay /\ capDelay /\ loc[E.oid] = "server"
        /\ delayed' = delayed \cup {E.path} /\ pathOid' = pathOid @@ (E.path :> E.oid) /\ UNCHANGED loc
  /\ UNCHANGED <<capDelay, skipErr, off, listed, retrieved, dead, ended>>

\* an object that cannot be had: delayed (the failure surfaces later), the pointer passed through
\* (skipdownloaderrors), or the filter dies
SmudgeMissing ==
  /\ Is("smudge") /\ off = "no" /\ Alive /\ loc[E.oid] = "missing"
  /\ \/ /\ WellFormed /\ E.status = "delayed" /\ E.candelay /\ capDelay
        /\ delayed' = delayed \cup {E.path} /\ pathOid' = pathOid @@ (E.path :> E.oid) /\ UNCHANGED dead
     \/ /\ WellFormed /\ skipErr /\ E.status = "success" /\ E.out = "pointer" /\ UNCHANGED <<delayed, pathOid, dead>>
     \/ /\ WellFormed /\ E.status = "error" /\ UNCHANGED <<delayed, pathOid, dead>>
     \/ /\ ~skipErr /\ E.framing = "died" /\ dead' = TRUE /\ UNCHANGED <<delayed, pathOid>>
  /\ UNCHANGED <<loc, capDelay, skipErr, off, listed, retrieved, ended>>

\* smudging switched off (GIT_LFS_SKIP_SMUDGE, or the path is outside lfs.fetchinclude / inside
\* lfs.fetchexclude): the pointer comes back as it went in, wherever the object is, never delayed
SmudgeOff ==
  /\ Is("smudge") /\ off # "no" /\ Alive /\ WellFormed
  /\ E.status = "success" /\ E.out = "pointer" /\ E.final \in {"", "success"}
  /\ UNCHANGED <<loc, capDelay, skipErr, off, delayed, listed, retrieved, pathOid, dead, ended>>

List == /\ Is("list") /\ Alive /\ WellFormed /\ E.status = "success"
        /\ delayed # {}                                              \* Git only asks when something was delayed
        /\ SetOf(E.paths) \subseteq delayed                          \* only delayed paths are announced
        /\ SetOf(E.paths) \cap listed = {}                           \* ... and each at most once
        /\ Len(E.paths) = Cardinality(SetOf(E.paths))
        /\ listed \subseteq retrieved                                \* Git fetched everything listed before asking again
        /\ (E.paths = <<>> => delayed \subseteq listed)              \* the list may only run dry when all were announced
        /\ listed' = listed \cup SetOf(E.paths)
        /\ UNCHANGED <<loc, capDelay, skipErr, off, delayed, retrieved, pathOid, dead, ended>>

Retrieve == /\ Is("retrieve") /\ Alive /\ E.path \in listed \ retrieved
            /\ LET o == pathOid[E.path] IN
               \/ /\ loc[o] \in {"local", "server"} /\ WellFormed /\ E.status = "success" /\ E.out = "content" /\ E.oid = o
                  /\ UNCHANGED dead
               \/ /\ loc[o] = "missing" /\ skipErr /\ WellFormed /\ E.status = "success" /\ E.out = "pointer" /\ UNCHANGED dead
               \/ /\ loc[o] = "missing" /\ WellFormed /\ E.status = "error" /\ UNCHANGED dead
               \/ /\ loc[o] = "missing" /\ ~skipErr /\ E.framing = "died" /\ dead' = TRUE
            /\ retrieved' = retrieved \cup {E.path}
            /\ UNCHANGED <<loc, capDelay, skipErr, off, delayed, listed, pathOid, ended>>

End == /\ Is("end") /\ ~ended /\ ended' = TRUE
       /\ (~dead => (delayed \subseteq retrieved /\ E.exit = 0))     \* every delayed blob was announced and retrieved
       /\ UNCHANGED <<loc, capDelay, skipErr, off, delayed, listed, retrieved, pathOid, dead>>

Next == Reset \/ Clean \/ SmudgeAvailable \/ SmudgeMissing \/ SmudgeOff \/ List \/ Retrieve \/ End
Spec == Init /\ [][Next]_vars
Accepted == TLCGet("stats").diameter - 1 = Len(Trace)
=============================================================================
