---- MODULE Locking_TTrace_1790885858 ----
EXTENDS Sequences, TLCExt, Toolbox, Naturals, TLC, Locking

_expression ==
    LET Locking_TEExpression == INSTANCE Locking_TEExpression
    IN Locking_TEExpression!expression
----

_trace ==
    LET Locking_TETrace == INSTANCE Locking_TETrace
    IN Locking_TETrace!trace
----

_inv ==
    ~(
        TLCGet("level") = Len(_TETrace)
        /\
        dirty = ([u1 |-> [l1 |-> FALSE, l2 |-> FALSE], u2 |-> [l1 |-> FALSE, l2 |-> FALSE]])
        /\
        server = ([l1 |-> "u1", l2 |-> "u1"])
        /\
        hist = (<<[page |-> 1, u |-> "u1", p |-> "l2", a |-> "lock", ok |-> TRUE, force |-> FALSE, byid |-> FALSE, cacheHas |-> {"l2"}, cacheLacks |-> {}, cacheExact |-> FALSE, cacheIs |-> {}, writableIs |-> {"l2"}, readonlyIs |-> {}, serverAfter |-> [l1 |-> "none", l2 |-> "u1"]], [page |-> 1, u |-> "u1", p |-> "l1", a |-> "lock", ok |-> TRUE, force |-> FALSE, byid |-> FALSE, cacheHas |-> {"l1"}, cacheLacks |-> {}, cacheExact |-> FALSE, cacheIs |-> {}, writableIs |-> {"l1"}, readonlyIs |-> {}, serverAfter |-> [l1 |-> "u1", l2 |-> "u1"]], [page |-> 1, u |-> "u1", p |-> "", a |-> "verify", ok |-> TRUE, force |-> FALSE, byid |-> FALSE, cacheHas |-> {}, cacheLacks |-> {}, cacheExact |-> TRUE, cacheIs |-> {"l1"}, writableIs |-> {}, readonlyIs |-> {}, serverAfter |-> [l1 |-> "u1", l2 |-> "u1"]]>>)
        /\
        cache = ([u1 |-> {"l1"}, u2 |-> {}])
        /\
        nops = (3)
        /\
        page = (1)
        /\
        done = (FALSE)
        /\
        writable = ([u1 |-> [l1 |-> TRUE, l2 |-> TRUE], u2 |-> [l1 |-> FALSE, l2 |-> FALSE]])
        /\
        order = (<<"l2", "l1">>)
    )
----

_init ==
    /\ done = _TETrace[1].done
    /\ nops = _TETrace[1].nops
    /\ dirty = _TETrace[1].dirty
    /\ writable = _TETrace[1].writable
    /\ hist = _TETrace[1].hist
    /\ server = _TETrace[1].server
    /\ page = _TETrace[1].page
    /\ order = _TETrace[1].order
    /\ cache = _TETrace[1].cache
----

_next ==
    /\ \E i,j \in DOMAIN _TETrace:
        /\ \/ /\ j = i + 1
              /\ i = TLCGet("level")
        /\ done  = _TETrace[i].done
        /\ done' = _TETrace[j].done
        /\ nops  = _TETrace[i].nops
        /\ nops' = _TETrace[j].nops
        /\ dirty  = _TETrace[i].dirty
        /\ dirty' = _TETrace[j].dirty
        /\ writable  = _TETrace[i].writable
        /\ writable' = _TETrace[j].writable
        /\ hist  = _TETrace[i].hist
        /\ hist' = _TETrace[j].hist
        /\ server  = _TETrace[i].server
        /\ server' = _TETrace[j].server
        /\ page  = _TETrace[i].page
        /\ page' = _TETrace[j].page
        /\ order  = _TETrace[i].order
        /\ order' = _TETrace[j].order
        /\ cache  = _TETrace[i].cache
        /\ cache' = _TETrace[j].cache

\* Uncomment the ASSUME below to write the states of the error trace
\* to the given file in Json format. Note that you can pass any tuple
\* to `JsonSerialize`. For example, a sub-sequence of _TETrace.
    \* ASSUME
    \*     LET J == INSTANCE Json
    \*         IN J!JsonSerialize("Locking_TTrace_1790885858.json", _TETrace)

=============================================================================

 Note that you can extract this module `Locking_TEExpression`
  to a dedicated file to reuse `expression` (the module in the 
  dedicated `Locking_TEExpression.tla` file takes precedence 
  over the module `Locking_TEExpression` below).

---- MODULE Locking_TEExpression ----
EXTENDS Sequences, TLCExt, Toolbox, Naturals, TLC, Locking

expression == 
    [
        \* To hide variables of the `Locking` spec from the error trace,
        \* remove the variables below.  The trace will be written in the order
        \* of the fields of this record.
        done |-> done
        ,nops |-> nops
        ,dirty |-> dirty
        ,writable |-> writable
        ,hist |-> hist
        ,server |-> server
        ,page |-> page
        ,order |-> order
        ,cache |-> cache
        
        \* Put additional constant-, state-, and action-level expressions here:
        \* ,_stateNumber |-> _TEPosition
        \* ,_doneUnchanged |-> done = done'
        
        \* Format the `done` variable as Json value.
        \* ,_doneJson |->
        \*     LET J == INSTANCE Json
        \*     IN J!ToJson(done)
        
        \* Lastly, you may build expressions over arbitrary sets of states by
        \* leveraging the _TETrace operator.  For example, this is how to
        \* count the number of times a spec variable changed up to the current
        \* state in the trace.
        \* ,_doneModCount |->
        \*     LET F[s \in DOMAIN _TETrace] ==
        \*         IF s = 1 THEN 0
        \*         ELSE IF _TETrace[s].done # _TETrace[s-1].done
        \*             THEN 1 + F[s-1] ELSE F[s-1]
        \*     IN F[_TEPosition - 1]
    ]

=============================================================================



Parsing and semantic processing can take forever if the trace below is long.
 In this case, it is advised to uncomment the module below to deserialize the
 trace from a generated binary file.

\*
\*---- MODULE Locking_TETrace ----
\*EXTENDS IOUtils, TLC, Locking
\*
\*trace == IODeserialize("Locking_TTrace_1790885858.bin", TRUE)
\*
\*=============================================================================
\*

---- MODULE Locking_TETrace ----
EXTENDS TLC, Locking

trace == 
    <<
    ([dirty |-> [u1 |-> [l1 |-> FALSE, l2 |-> FALSE], u2 |-> [l1 |-> FALSE, l2 |-> FALSE]],server |-> [l1 |-> "none", l2 |-> "none"],hist |-> <<>>,cache |-> [u1 |-> {}, u2 |-> {}],nops |-> 0,page |-> 1,done |-> FALSE,writable |-> [u1 |-> [l1 |-> FALSE, l2 |-> FALSE], u2 |-> [l1 |-> FALSE, l2 |-> FALSE]],order |-> <<>>]),
    ([dirty |-> [u1 |-> [l1 |-> FALSE, l2 |-> FALSE], u2 |-> [l1 |-> FALSE, l2 |-> FALSE]],server |-> [l1 |-> "none", l2 |-> "u1"],hist |-> <<[page |-> 1, u |-> "u1", p |-> "l2", a |-> "lock", ok |-> TRUE, force |-> FALSE, byid |-> FALSE, cacheHas |-> {"l2"}, cacheLacks |-> {}, cacheExact |-> FALSE, cacheIs |-> {}, writableIs |-> {"l2"}, readonlyIs |-> {}, serverAfter |-> [l1 |-> "none", l2 |-> "u1"]]>>,cache |-> [u1 |-> {"l2"}, u2 |-> {}],nops |-> 1,page |-> 1,done |-> FALSE,writable |-> [u1 |-> [l1 |-> FALSE, l2 |-> TRUE], u2 |-> [l1 |-> FALSE, l2 |-> FALSE]],order |-> <<"l2">>]),
    ([dirty |-> [u1 |-> [l1 |-> FALSE, l2 |-> FALSE], u2 |-> [l1 |-> FALSE, l2 |-> FALSE]],server |-> [l1 |-> "u1", l2 |-> "u1"],hist |-> <<[page |-> 1, u |-> "u1", p |-> "l2", a |-> "lock", ok |-> TRUE, force |-> FALSE, byid |-> FALSE, cacheHas |-> {"l2"}, cacheLacks |-> {}, cacheExact |-> FALSE, cacheIs |-> {}, writableIs |-> {"l2"}, readonlyIs |-> {}, serverAfter |-> [l1 |-> "none", l2 |-> "u1"]], [page |-> 1, u |-> "u1", p |-> "l1", a |-> "lock", ok |-> TRUE, force |-> FALSE, byid |-> FALSE, cacheHas |-> {"l1"}, cacheLacks |-> {}, cacheExact |-> FALSE, cacheIs |-> {}, writableIs |-> {"l1"}, readonlyIs |-> {}, serverAfter |-> [l1 |-> "u1", l2 |-> "u1"]]>>,cache |-> [u1 |-> {"l1", "l2"}, u2 |-> {}],nops |-> 2,page |-> 1,done |-> FALSE,writable |-> [u1 |-> [l1 |-> TRUE, l2 |-> TRUE], u2 |-> [l1 |-> FALSE, l2 |-> FALSE]],order |-> <<"l2", "l1">>]),
    ([dirty |-> [u1 |-> [l1 |-> FALSE, l2 |-> FALSE], u2 |-> [l1 |-> FALSE, l2 |-> FALSE]],server |-> [l1 |-> "u1", l2 |-> "u1"],hist |-> <<[page |-> 1, u |-> "u1", p |-> "l2", a |-> "lock", ok |-> TRUE, force |-> FALSE, byid |-> FALSE, cacheHas |-> {"l2"}, cacheLacks |-> {}, cacheExact |-> FALSE, cacheIs |-> {}, writableIs |-> {"l2"}, readonlyIs |-> {}, serverAfter |-> [l1 |-> "none", l2 |-> "u1"]], [page |-> 1, u |-> "u1", p |-> "l1", a |-> "lock", ok |-> TRUE, force |-> FALSE, byid |-> FALSE, cacheHas |-> {"l1"}, cacheLacks |-> {}, cacheExact |-> FALSE, cacheIs |-> {}, writableIs |-> {"l1"}, readonlyIs |-> {}, serverAfter |-> [l1 |-> "u1", l2 |-> "u1"]], [page |-> 1, u |-> "u1", p |-> "", a |-> "verify", ok |-> TRUE, force |-> FALSE, byid |-> FALSE, cacheHas |-> {}, cacheLacks |-> {}, cacheExact |-> TRUE, cacheIs |-> {"l1"}, writableIs |-> {}, readonlyIs |-> {}, serverAfter |-> [l1 |-> "u1", l2 |-> "u1"]]>>,cache |-> [u1 |-> {"l1"}, u2 |-> {}],nops |-> 3,page |-> 1,done |-> FALSE,writable |-> [u1 |-> [l1 |-> TRUE, l2 |-> TRUE], u2 |-> [l1 |-> FALSE, l2 |-> FALSE]],order |-> <<"l2", "l1">>])
    >>
----


=============================================================================

---- CONFIG Locking_TTrace_1790885858 ----
CONSTANTS
    Users = { "u1" , "u2" }
    Paths = { "l1" , "l2" }
    MaxOps = 4
    Emit = FALSE
    PageSizes = { 0 , 1 }
    ClearPerPage = TRUE

INVARIANT
    _inv

CHECK_DEADLOCK
    \* CHECK_DEADLOCK off because of PROPERTY or INVARIANT above.
    FALSE

INIT
    _init

NEXT
    _next

CONSTANT
    _TETrace <- _trace

ALIAS
    _expression
=============================================================================
\* Generated on Thu Oct 01 20:17:39 UTC 2026