------------------------------- MODULE Migrate -------------------------------
(***************************************************************************)
(* C12: `git lfs migrate import` / `export` over the abstract repository.  *)
(*                                                                         *)
(* A history is built with Repo's Commit / Merge (blobs: absent, ordinary  *)
(* content "raw", or the pointer of an object); a tag may be placed.  Then *)
(* Import(sel) rewrites every local ref: in every commit, an ordinary file *)
(* at a selected path becomes a pointer (and its bytes an object in local  *)
(* storage); Export(sel) turns pointers at selected paths back into        *)
(* ordinary files.  repr[c][p] is the representation the rewritten commit  *)
(* c must have at path p; content, mode, graph shape, authorship, dates    *)
(* and messages are never an argument of the rewrite.  exec[c] is the set  *)
(* of paths that are executable in commit c; Chmod makes a commit that     *)
(* changes nothing but one path's mode.                                    *)
(***************************************************************************)
EXTENDS Repo

CONSTANTS Selections       \* sets of paths the --include pattern can denote

VARIABLES repr,     \* <<commit, path>> -> "none" | "raw" | "ptr" after the rewrites so far
          tagged,   \* commit carrying the tag v1 (annotated), or NoCommit
          phase,    \* "history" | "imported" | "exported"
          exec,     \* commit -> set of executable paths (never touched by a rewrite)
          links     \* commit -> set of paths that are symbolic links (their blob is the target; never converted)
mvars == <<rvars, repr, tagged, phase, exec, links, steps, hist>>
MView == <<rvars, repr, tagged, phase, exec, links>>

ReprOf(blob) == IF blob = "none" THEN "none" ELSE IF blob = "raw" THEN "raw" ELSE "ptr"
CurRepr == [c \in 1..Len(commits) |-> [p \in Paths |-> ReprOf(commits[c].tree[p])]]

MInit == RepoInit /\ repr = <<>> /\ tagged = NoCommit /\ phase = "history" /\ exec = <<>> /\ links = <<>>

Hist == phase = "history" /\ UNCHANGED <<repr, tagged, phase>>
ExecOf(c) == IF c = NoCommit THEN {} ELSE exec[c]
LinksOf(c) == IF c = NoCommit THEN {} ELSE links[c]
\* a new commit keeps its first parent's modes, except that the path it writes is written as an
\* ordinary file; the merge commits of this model write every path afresh (no executable left)
MCommit(b, p, blob, g) == /\ Hist /\ Commit(b, p, blob, g)
                          /\ LET parent == IF br[b] = NoCommit /\ b # "main" THEN br["main"] ELSE br[b]
                             IN exec' = Append(exec, ExecOf(parent) \ {p}) /\ links' = Append(links, LinksOf(parent) \ {p})
MMerge(b, o)           == /\ Hist /\ Merge(b, o) /\ exec' = Append(exec, {}) /\ links' = Append(links, {})
\* git update-index --chmod=+x / -x ; git commit: nothing but the mode of p changes
Chmod(b, p) == /\ Hist /\ Len(commits) < MaxCommits /\ br[b] # NoCommit /\ commits[br[b]].tree[p] # "none"
               /\ commits' = Append(commits, [par |-> {br[b]}, tree |-> commits[br[b]].tree, age |-> commits[br[b]].age])
               /\ br' = [br EXCEPT ![b] = Len(commits) + 1] /\ head' = b
               /\ p \notin links[br[b]]
               /\ exec' = Append(exec, IF p \in exec[br[b]] THEN exec[br[b]] \ {p} ELSE exec[br[b]] \cup {p})
               /\ links' = Append(links, links[br[b]])
               /\ UNCHANGED <<rr, rt, local, server, everRemote>>
               /\ Log([a |-> "chmod", b |-> b, p |-> p, x |-> (p \notin exec[br[b]])])
\* a type change only: the ordinary file p becomes a symbolic link whose target is the very same blob
\* (a link committed with core.symlinks=false and repaired later), or back
Relink(b, p) == /\ Hist /\ Len(commits) < MaxCommits /\ br[b] # NoCommit /\ commits[br[b]].tree[p] = "raw"
                /\ commits' = Append(commits, [par |-> {br[b]}, tree |-> commits[br[b]].tree, age |-> commits[br[b]].age])
                /\ br' = [br EXCEPT ![b] = Len(commits) + 1] /\ head' = b
                /\ links' = Append(links, IF p \in links[br[b]] THEN links[br[b]] \ {p} ELSE links[br[b]] \cup {p})
                /\ exec' = Append(exec, exec[br[b]] \ {p})
                /\ UNCHANGED <<rr, rt, local, server, everRemote>>
                /\ Log([a |-> "relink", b |-> b, p |-> p, link |-> (p \notin links[br[b]])])
Tag(b) == /\ phase = "history" /\ tagged = NoCommit /\ br[b] # NoCommit /\ tagged' = br[b]
          /\ UNCHANGED <<commits, br, rr, rt, head, local, server, everRemote, repr, phase, exec, links>>
          /\ Log([a |-> "tag", b |-> b])

Import(sel) ==
  /\ phase = "history" /\ Len(commits) > 0 /\ sel \in Selections
  /\ repr' = [c \in 1..Len(commits) |-> [p \in Paths |->
                 IF p \in sel /\ commits[c].tree[p] = "raw" /\ p \notin links[c] THEN "ptr" ELSE ReprOf(commits[c].tree[p])]]
  /\ phase' = "imported"
  /\ UNCHANGED <<commits, br, rr, rt, head, local, server, everRemote, tagged, exec, links>>
  /\ Log([a |-> "import", sel |-> sel, repr |-> repr', exec |-> exec, links |-> links, parents |-> [c \in 1..Len(commits) |-> commits[c].par],
          heads |-> br, tagged |-> tagged])

Export(sel) ==
  /\ phase = "imported" /\ sel \in Selections
  /\ repr' = [c \in 1..Len(commits) |-> [p \in Paths |-> IF p \in sel /\ repr[c][p] = "ptr" THEN "raw" ELSE repr[c][p]]]
  /\ phase' = "exported"
  /\ UNCHANGED <<commits, br, rr, rt, head, local, server, everRemote, tagged, exec, links>>
  /\ Log([a |-> "export", sel |-> sel, repr |-> repr', exec |-> exec, links |-> links, parents |-> [c \in 1..Len(commits) |-> commits[c].par],
          heads |-> br, tagged |-> tagged])

MNext == \/ \E b \in Branches, p \in Paths, blob \in Blobs, g \in Ages : MCommit(b, p, blob, g)
         \/ \E b, o \in Branches : MMerge(b, o)
         \/ \E b \in Branches : Tag(b)
         \/ \E b \in Branches, p \in Paths : Chmod(b, p)
         \/ \E b \in Branches, p \in Paths : Relink(b, p)
         \/ \E s \in Selections : Import(s) \/ Export(s)
MSpec == MInit /\ [][MNext]_mvars

\* C12 on the design: exactly the selected ordinary files change representation on import, and
\* export after import of the same selection restores every representation
OnlySelectedChange == phase = "imported" =>
   \A c \in 1..Len(commits), p \in Paths : repr[c][p] # ReprOf(commits[c].tree[p]) => (commits[c].tree[p] = "raw" /\ p \notin links[c])
ExportRestores == [][\A s \in Selections : (Export(s) /\ hist[Len(hist)].a = "import" /\ hist[Len(hist)].sel = s) =>
                        \A c \in 1..Len(commits), p \in Paths : (commits[c].tree[p] = "raw" => repr'[c][p] = "raw")]_mvars

EmitMigrate == (Emit /\ hist'[Len(hist')].a \in {"import", "export"}) => CSVWrite("%1$s", <<ToJson(hist')>>, IOEnv.OUT)
=============================================================================
