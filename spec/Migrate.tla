------------------------------- MODULE Migrate -------------------------------
(***************************************************************************)
(* C12: `git lfs migrate import` / `export` over the abstract repository.  *)
(*                                                                         *)
(* A history is built with Repo's Commit / Merge (blobs: absent, ordinary  *)
(* content "raw", or the pointer of an object); a tag may be placed.  Then *)
(* Import(sel) rewrites every local ref: in every commit, an ordinary file *)
(* at a selected path becomes a pointer (and its bytes an object in local  *)
(* storage); Export(sel) turns pointers at selected paths back into        *)
(* ordinary files.  repr[c][p] is the representation the rewritten commit  *)
(* c must have at path p; content, mode, graph shape, authorship, dates    *)
(* and messages are never an argument of the rewrite.  exec[c] is the set  *)
(* of paths that are executable in commit c; Chmod makes a commit that     *)
(* changes nothing but one path's mode.                                    *)
(* attrs[c] says which paths the .gitattributes files committed in c mark  *)
(* filter=lfs: p1 through a line of the top-level file, p2 through a line  *)
(* of the file in p2's own directory (SetAttr adds or removes such a       *)
(* line in a commit of its own).  Fixup is `migrate import --fixup`: in    *)
(* every commit exactly the ordinary files that commit's own attributes    *)
(* mark become pointers.                                                   *)
(***************************************************************************)
EXTENDS Repo

CONSTANTS Selections,      \* sets of paths the --include pattern can denote
          WithAttrs        \* TRUE: histories may carry .gitattributes lines (SetAttr) and end in a --fixup

VARIABLES repr,     \* <<commit, path>> -> "none" | "raw" | "ptr" after the rewrites so far
          tagged,   \* commit carrying the tag v1 (annotated), or NoCommit
          phase,    \* "history" | "imported" | "exported"
          exec,     \* commit -> set of executable paths (never touched by a rewrite)
          links,    \* commit -> set of paths that are symbolic links (their blob is the target; never converted)
          attrs     \* commit -> [root, nested]: p1 marked by the top-level .gitattributes, p2 by the one in its directory
mvars == <<rvars, repr, tagged, phase, exec, links, attrs, steps, hist>>
MView == <<rvars, repr, tagged, phase, exec, links, attrs>>

ReprOf(blob) == IF blob = "none" THEN "none" ELSE IF blob = "raw" THEN "raw" ELSE "ptr"
CurRepr == [c \in 1..Len(commits) |-> [p \in Paths |-> ReprOf(commits[c].tree[p])]]

MInit == RepoInit /\ repr = <<>> /\ tagged = NoCommit /\ phase = "history" /\ exec = <<>> /\ links = <<>> /\ attrs = <<>>
NoAttrs == [root |-> FALSE, nested |-> FALSE]
AttrsOf(c) == IF c = NoCommit THEN NoAttrs ELSE attrs[c]
Tracked(c) == (IF attrs[c].root THEN {"p1"} ELSE {}) \cup (IF attrs[c].nested THEN {"p2"} ELSE {})

Hist == phase = "history" /\ UNCHANGED <<repr, tagged, phase>>
ExecOf(c) == IF c = NoCommit THEN {} ELSE exec[c]
LinksOf(c) == IF c = NoCommit THEN {} ELSE links[c]
\* a new commit keeps its first parent's modes, except that the path it writes is written as an
\* ordinary file; the merge commits of this model write every path afresh (no executable left)
MCommit(b, p, blob, g) == /\ Hist /\ Commit(b, p, blob, g)
                          /\ LET parent == IF br[b] = NoCommit /\ b # "main" THEN br["main"] ELSE br[b]
                             IN exec' = Append(exec, ExecOf(parent) \ {p}) /\ links' = Append(links, LinksOf(parent) \ {p})
                                /\ attrs' = Append(attrs, AttrsOf(parent))
MMerge(b, o)           == /\ Hist /\ Merge(b, o) /\ exec' = Append(exec, {}) /\ links' = Append(links, {})
                          /\ attrs' = Append(attrs, attrs[br[b]])          \* the attribute files of the branch merged into
\* git update-index --chmod=+x / -x ; git commit: nothing but the mode of p changes
Chmod(b, p) == /\ Hist /\ Len(commits) < MaxCommits /\ br[b] # NoCommit /\ commits[br[b]].tree[p] # "none"
               /\ commits' = Append(commits, [par |-> {br[b]}, tree |-> commits[br[b]].tree, age |-> commits[br[b]].age])
               /\ br' = [br EXCEPT ![b] = Len(commits) + 1] /\ head' = b
               /\ p \notin links[br[b]]
               /\ exec' = Append(exec, IF p \in exec[br[b]] THEN exec[br[b]] \ {p} ELSE exec[br[b]] \cup {p})
               /\ links' = Append(links, links[br[b]]) /\ attrs' = Append(attrs, attrs[br[b]])
               /\ UNCHANGED <<rr, rt, local, server, everRemote>>
               /\ Log([a |-> "chmod", b |-> b, p |-> p, x |-> (p \notin exec[br[b]])])
\* a type change only: the ordinary file p becomes a symbolic link whose target is the very same blob
\* (a link committed with core.symlinks=false and repaired later), or back
Relink(b, p) == /\ Hist /\ Len(commits) < MaxCommits /\ br[b] # NoCommit /\ commits[br[b]].tree[p] = "raw"
                /\ commits' = Append(commits, [par |-> {br[b]}, tree |-> commits[br[b]].tree, age |-> commits[br[b]].age])
                /\ br' = [br EXCEPT ![b] = Len(commits) + 1] /\ head' = b
                /\ links' = Append(links, IF p \in links[br[b]] THEN links[br[b]] \ {p} ELSE links[br[b]] \cup {p})
                /\ exec' = Append(exec, exec[br[b]] \ {p}) /\ attrs' = Append(attrs, attrs[br[b]])
                /\ UNCHANGED <<rr, rt, local, server, everRemote>>
                /\ Log([a |-> "relink", b |-> b, p |-> p, link |-> (p \notin links[br[b]])])
\* a commit that adds or removes one .gitattributes line and nothing else
SetAttr(b, which) ==
  /\ WithAttrs /\ Hist /\ Len(commits) < MaxCommits /\ br[b] # NoCommit /\ which \in {"root", "nested"}
  /\ commits' = Append(commits, [par |-> {br[b]}, tree |-> commits[br[b]].tree, age |-> commits[br[b]].age])
  /\ br' = [br EXCEPT ![b] = Len(commits) + 1] /\ head' = b
  /\ attrs' = Append(attrs, IF which = "root" THEN [attrs[br[b]] EXCEPT !.root = ~@] ELSE [attrs[br[b]] EXCEPT !.nested = ~@])
  /\ exec' = Append(exec, exec[br[b]]) /\ links' = Append(links, links[br[b]])
  /\ UNCHANGED <<rr, rt, local, server, everRemote>>
  /\ Log([a |-> "setattr", b |-> b, which |-> which, on |-> (IF which = "root" THEN ~attrs[br[b]].root ELSE ~attrs[br[b]].nested)])

Tag(b) == /\ phase = "history" /\ tagged = NoCommit /\ br[b] # NoCommit /\ tagged' = br[b]
          /\ UNCHANGED <<commits, br, rr, rt, head, local, server, everRemote, repr, phase, exec, links, attrs>>
          /\ Log([a |-> "tag", b |-> b])

Import(sel) ==
  /\ phase = "history" /\ Len(commits) > 0 /\ sel \in Selections
  /\ repr' = [c \in 1..Len(commits) |-> [p \in Paths |->
                 IF p \in sel /\ commits[c].tree[p] = "raw" /\ p \notin links[c] THEN "ptr" ELSE ReprOf(commits[c].tree[p])]]
  /\ phase' = "imported"
  /\ UNCHANGED <<commits, br, rr, rt, head, local, server, everRemote, tagged, exec, links, attrs>>
  /\ Log([a |-> "import", sel |-> sel, repr0 |-> CurRepr, repr |-> repr', exec |-> exec, links |-> links, parents |-> [c \in 1..Len(commits) |-> commits[c].par],
          heads |-> br, tagged |-> tagged])

Export(sel) ==
  /\ phase = "imported" /\ sel \in Selections
  /\ repr' = [c \in 1..Len(commits) |-> [p \in Paths |-> IF p \in sel /\ repr[c][p] = "ptr" THEN "raw" ELSE repr[c][p]]]
  /\ phase' = "exported"
  /\ UNCHANGED <<commits, br, rr, rt, head, local, server, everRemote, tagged, exec, links, attrs>>
  /\ Log([a |-> "export", sel |-> sel, repr |-> repr', exec |-> exec, links |-> links, parents |-> [c \in 1..Len(commits) |-> commits[c].par],
          heads |-> br, tagged |-> tagged])

\* git lfs migrate import --fixup --everything: per commit, what that commit's own attributes mark
Fixup ==
  /\ WithAttrs /\ phase = "history" /\ Len(commits) > 0
  /\ repr' = [c \in 1..Len(commits) |-> [p \in Paths |->
                 IF p \in Tracked(c) /\ commits[c].tree[p] = "raw" /\ p \notin links[c] THEN "ptr" ELSE ReprOf(commits[c].tree[p])]]
  /\ phase' = "fixedup"
  /\ UNCHANGED <<commits, br, rr, rt, head, local, server, everRemote, tagged, exec, links, attrs>>
  /\ Log([a |-> "fixup", sel |-> {}, tracked |-> [c \in 1..Len(commits) |-> Tracked(c)], repr0 |-> CurRepr, repr |-> repr', exec |-> exec, links |-> links, parents |-> [c \in 1..Len(commits) |-> commits[c].par],
          heads |-> br, tagged |-> tagged])

MNext == \/ \E b \in Branches, p \in Paths, blob \in Blobs, g \in Ages : MCommit(b, p, blob, g)
         \/ \E b, o \in Branches : MMerge(b, o)
         \/ \E b \in Branches : Tag(b)
         \/ \E b \in Branches, p \in Paths : Chmod(b, p)
         \/ \E b \in Branches, p \in Paths : Relink(b, p)
         \/ \E b \in Branches, w \in {"root", "nested"} : SetAttr(b, w)
         \/ Fixup
         \/ \E s \in Selections : Import(s) \/ Export(s)
MSpec == MInit /\ [][MNext]_mvars

\* C12 on the design: exactly the selected ordinary files change representation on import, and
\* export after import of the same selection restores every representation
OnlyMarkedChange == phase = "fixedup" =>
   \A c \in 1..Len(commits), p \in Paths : repr[c][p] # ReprOf(commits[c].tree[p]) <=> (commits[c].tree[p] = "raw" /\ p \in Tracked(c) /\ p \notin links[c])
OnlySelectedChange == phase = "imported" =>
   \A c \in 1..Len(commits), p \in Paths : repr[c][p] # ReprOf(commits[c].tree[p]) => (commits[c].tree[p] = "raw" /\ p \notin links[c])
ExportRestores == [][\A s \in Selections : (Export(s) /\ hist[Len(hist)].a = "import" /\ hist[Len(hist)].sel = s) =>
                        \A c \in 1..Len(commits), p \in Paths : (commits[c].tree[p] = "raw" => repr'[c][p] = "raw")]_mvars

EmitMigrate == (Emit /\ hist'[Len(hist')].a \in {"import", "export", "fixup"}) => CSVWrite("%1$s", <<ToJson(hist')>>, IOEnv.OUT)
=============================================================================
