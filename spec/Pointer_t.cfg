CONSTANTS
 MaxEdits = 2
 Emit = TRUE
SPECIFICATION Spec
INVARIANT VerdictSound
INVARIANT CanonicalDenotesOne
CONSTRAINT EmitState
CHECK_DEADLOCK FALSE
