CONSTANTS
 Oids = {"o1","o2","o3"}
 Paths = {"p1","p2"}
 Branches = {"main","dev"}
 Ages = {0}
 MaxCommits = 3
 MaxSteps = 9
 Emit = FALSE
 Skew = FALSE
SPECIFICATION CSpec
VIEW CView
PROPERTY NoClobber
ACTION_CONSTRAINT EmitCmd
CHECK_DEADLOCK FALSE
