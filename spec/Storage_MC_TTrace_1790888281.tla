---- MODULE Storage_MC_TTrace_1790888281 ----
EXTENDS Storage_MC, Sequences, TLCExt, Toolbox, Naturals, TLC

_expression ==
    LET Storage_MC_TEExpression == INSTANCE Storage_MC_TEExpression
    IN Storage_MC_TEExpression!expression
----

_trace ==
    LET Storage_MC_TETrace == INSTANCE Storage_MC_TETrace
    IN Storage_MC_TETrace!trace
----

_inv ==
    ~(
        TLCGet("level") = Len(_TETrace)
        /\
        cur = ("a")
        /\
        pc = ("write")
        /\
        alive = (FALSE)
        /\
        files = ({[area |-> "objects", name |-> "a", st |-> "empty"]})
        /\
        jobpos = (1)
        /\
        written = (0)
        /\
        crashes = (1)
    )
----

_init ==
    /\ jobpos = _TETrace[1].jobpos
    /\ cur = _TETrace[1].cur
    /\ alive = _TETrace[1].alive
    /\ written = _TETrace[1].written
    /\ pc = _TETrace[1].pc
    /\ files = _TETrace[1].files
    /\ crashes = _TETrace[1].crashes
----

_next ==
    /\ \E i,j \in DOMAIN _TETrace:
        /\ \/ /\ j = i + 1
              /\ i = TLCGet("level")
        /\ jobpos  = _TETrace[i].jobpos
        /\ jobpos' = _TETrace[j].jobpos
        /\ cur  = _TETrace[i].cur
        /\ cur' = _TETrace[j].cur
        /\ alive  = _TETrace[i].alive
        /\ alive' = _TETrace[j].alive
        /\ written  = _TETrace[i].written
        /\ written' = _TETrace[j].written
        /\ pc  = _TETrace[i].pc
        /\ pc' = _TETrace[j].pc
        /\ files  = _TETrace[i].files
        /\ files' = _TETrace[j].files
        /\ crashes  = _TETrace[i].crashes
        /\ crashes' = _TETrace[j].crashes

\* Uncomment the ASSUME below to write the states of the error trace
\* to the given file in Json format. Note that you can pass any tuple
\* to `JsonSerialize`. For example, a sub-sequence of _TETrace.
    \* ASSUME
    \*     LET J == INSTANCE Json
    \*         IN J!JsonSerialize("Storage_MC_TTrace_1790888281.json", _TETrace)

=============================================================================

 Note that you can extract this module `Storage_MC_TEExpression`
  to a dedicated file to reuse `expression` (the module in the 
  dedicated `Storage_MC_TEExpression.tla` file takes precedence 
  over the module `Storage_MC_TEExpression` below).

---- MODULE Storage_MC_TEExpression ----
EXTENDS Storage_MC, Sequences, TLCExt, Toolbox, Naturals, TLC

expression == 
    [
        \* To hide variables of the `Storage_MC` spec from the error trace,
        \* remove the variables below.  The trace will be written in the order
        \* of the fields of this record.
        jobpos |-> jobpos
        ,cur |-> cur
        ,alive |-> alive
        ,written |-> written
        ,pc |-> pc
        ,files |-> files
        ,crashes |-> crashes
        
        \* Put additional constant-, state-, and action-level expressions here:
        \* ,_stateNumber |-> _TEPosition
        \* ,_jobposUnchanged |-> jobpos = jobpos'
        
        \* Format the `jobpos` variable as Json value.
        \* ,_jobposJson |->
        \*     LET J == INSTANCE Json
        \*     IN J!ToJson(jobpos)
        
        \* Lastly, you may build expressions over arbitrary sets of states by
        \* leveraging the _TETrace operator.  For example, this is how to
        \* count the number of times a spec variable changed up to the current
        \* state in the trace.
        \* ,_jobposModCount |->
        \*     LET F[s \in DOMAIN _TETrace] ==
        \*         IF s = 1 THEN 0
        \*         ELSE IF _TETrace[s].jobpos # _TETrace[s-1].jobpos
        \*             THEN 1 + F[s-1] ELSE F[s-1]
        \*     IN F[_TEPosition - 1]
    ]

=============================================================================



Parsing and semantic processing can take forever if the trace below is long.
 In this case, it is advised to uncomment the module below to deserialize the
 trace from a generated binary file.

\*
\*---- MODULE Storage_MC_TETrace ----
\*EXTENDS Storage_MC, IOUtils, TLC
\*
\*trace == IODeserialize("Storage_MC_TTrace_1790888281.bin", TRUE)
\*
\*=============================================================================
\*

---- MODULE Storage_MC_TETrace ----
EXTENDS Storage_MC, TLC

trace == 
    <<
    ([cur |-> "",pc |-> "next",alive |-> TRUE,files |-> {},jobpos |-> 1,written |-> 0,crashes |-> 0]),
    ([cur |-> "a",pc |-> "link",alive |-> TRUE,files |-> {},jobpos |-> 1,written |-> 0,crashes |-> 0]),
    ([cur |-> "a",pc |-> "create",alive |-> TRUE,files |-> {},jobpos |-> 1,written |-> 0,crashes |-> 0]),
    ([cur |-> "a",pc |-> "write",alive |-> TRUE,files |-> {[area |-> "objects", name |-> "a", st |-> "empty"]},jobpos |-> 1,written |-> 0,crashes |-> 0]),
    ([cur |-> "a",pc |-> "write",alive |-> FALSE,files |-> {[area |-> "objects", name |-> "a", st |-> "empty"]},jobpos |-> 1,written |-> 0,crashes |-> 1])
    >>
----


=============================================================================

---- CONFIG Storage_MC_TTrace_1790888281 ----
CONSTANTS
    Oids = { "a" , "b" , "c" , "d" }
    Bursts = 2
    Variant = "in-place"
    Job <- JobAdopt

INVARIANT
    _inv

CHECK_DEADLOCK
    \* CHECK_DEADLOCK off because of PROPERTY or INVARIANT above.
    FALSE

INIT
    _init

NEXT
    _next

CONSTANT
    _TETrace <- _trace

ALIAS
    _expression
=============================================================================
\* Generated on Thu Oct 01 20:58:02 UTC 2026