---- MODULE Install_TTrace_1790886213 ----
EXTENDS Sequences, TLCExt, Toolbox, Naturals, TLC, Install

_expression ==
    LET Install_TEExpression == INSTANCE Install_TEExpression
    IN Install_TEExpression!expression
----

_trace ==
    LET Install_TETrace == INSTANCE Install_TETrace
    IN Install_TETrace!trace
----

_inv ==
    ~(
        TLCGet("level") = Len(_TETrace)
        /\
        hist = (<<[skip |-> FALSE, force |-> FALSE, sc |-> "global", cfgAllowed |-> [global |-> [clean |-> {"cur"}, smudge |-> {"cur"}, process |-> {"cur"}, required |-> {"cur"}], local |-> [clean |-> {"unset"}, smudge |-> {"unset"}, process |-> {"unset"}, required |-> {"unset"}], worktree |-> [clean |-> {"unset"}, smudge |-> {"unset"}, process |-> {"unset"}, required |-> {"unset"}]], hookAllowed |-> ("pre-push" :> {"current"} @@ "post-checkout" :> {"current"}), a |-> "install", conflict |-> FALSE]>>)
        /\
        hook = (("pre-push" :> "current" @@ "post-checkout" :> "current"))
        /\
        cfg = ([global |-> [clean |-> "cur", smudge |-> "cur", process |-> "cur", required |-> "cur"], local |-> [clean |-> "unset", smudge |-> "unset", process |-> "unset", required |-> "unset"], worktree |-> [clean |-> "unset", smudge |-> "unset", process |-> "unset", required |-> "unset"]])
        /\
        nops = (1)
        /\
        start = ([hook |-> ("pre-push" :> "old" @@ "post-checkout" :> "absent"), cfg |-> [global |-> [clean |-> "unset", smudge |-> "old", process |-> "unset", required |-> "unset"], local |-> [clean |-> "unset", smudge |-> "unset", process |-> "unset", required |-> "unset"], worktree |-> [clean |-> "unset", smudge |-> "unset", process |-> "unset", required |-> "unset"]]])
    )
----

_init ==
    /\ nops = _TETrace[1].nops
    /\ start = _TETrace[1].start
    /\ hook = _TETrace[1].hook
    /\ hist = _TETrace[1].hist
    /\ cfg = _TETrace[1].cfg
----

_next ==
    /\ \E i,j \in DOMAIN _TETrace:
        /\ \/ /\ j = i + 1
              /\ i = TLCGet("level")
        /\ nops  = _TETrace[i].nops
        /\ nops' = _TETrace[j].nops
        /\ start  = _TETrace[i].start
        /\ start' = _TETrace[j].start
        /\ hook  = _TETrace[i].hook
        /\ hook' = _TETrace[j].hook
        /\ hist  = _TETrace[i].hist
        /\ hist' = _TETrace[j].hist
        /\ cfg  = _TETrace[i].cfg
        /\ cfg' = _TETrace[j].cfg

\* Uncomment the ASSUME below to write the states of the error trace
\* to the given file in Json format. Note that you can pass any tuple
\* to `JsonSerialize`. For example, a sub-sequence of _TETrace.
    \* ASSUME
    \*     LET J == INSTANCE Json
    \*         IN J!JsonSerialize("Install_TTrace_1790886213.json", _TETrace)

=============================================================================

 Note that you can extract this module `Install_TEExpression`
  to a dedicated file to reuse `expression` (the module in the 
  dedicated `Install_TEExpression.tla` file takes precedence 
  over the module `Install_TEExpression` below).

---- MODULE Install_TEExpression ----
EXTENDS Sequences, TLCExt, Toolbox, Naturals, TLC, Install

expression == 
    [
        \* To hide variables of the `Install` spec from the error trace,
        \* remove the variables below.  The trace will be written in the order
        \* of the fields of this record.
        nops |-> nops
        ,start |-> start
        ,hook |-> hook
        ,hist |-> hist
        ,cfg |-> cfg
        
        \* Put additional constant-, state-, and action-level expressions here:
        \* ,_stateNumber |-> _TEPosition
        \* ,_nopsUnchanged |-> nops = nops'
        
        \* Format the `nops` variable as Json value.
        \* ,_nopsJson |->
        \*     LET J == INSTANCE Json
        \*     IN J!ToJson(nops)
        
        \* Lastly, you may build expressions over arbitrary sets of states by
        \* leveraging the _TETrace operator.  For example, this is how to
        \* count the number of times a spec variable changed up to the current
        \* state in the trace.
        \* ,_nopsModCount |->
        \*     LET F[s \in DOMAIN _TETrace] ==
        \*         IF s = 1 THEN 0
        \*         ELSE IF _TETrace[s].nops # _TETrace[s-1].nops
        \*             THEN 1 + F[s-1] ELSE F[s-1]
        \*     IN F[_TEPosition - 1]
    ]

=============================================================================



Parsing and semantic processing can take forever if the trace below is long.
 In this case, it is advised to uncomment the module below to deserialize the
 trace from a generated binary file.

\*
\*---- MODULE Install_TETrace ----
\*EXTENDS IOUtils, TLC, Install
\*
\*trace == IODeserialize("Install_TTrace_1790886213.bin", TRUE)
\*
\*=============================================================================
\*

---- MODULE Install_TETrace ----
EXTENDS TLC, Install

trace == 
    <<
    ([hist |-> <<>>,hook |-> ("pre-push" :> "old" @@ "post-checkout" :> "absent"),cfg |-> [global |-> [clean |-> "unset", smudge |-> "old", process |-> "unset", required |-> "unset"], local |-> [clean |-> "unset", smudge |-> "unset", process |-> "unset", required |-> "unset"], worktree |-> [clean |-> "unset", smudge |-> "unset", process |-> "unset", required |-> "unset"]],nops |-> 0,start |-> [hook |-> ("pre-push" :> "old" @@ "post-checkout" :> "absent"), cfg |-> [global |-> [clean |-> "unset", smudge |-> "old", process |-> "unset", required |-> "unset"], local |-> [clean |-> "unset", smudge |-> "unset", process |-> "unset", required |-> "unset"], worktree |-> [clean |-> "unset", smudge |-> "unset", process |-> "unset", required |-> "unset"]]]]),
    ([hist |-> <<[skip |-> FALSE, force |-> FALSE, sc |-> "global", cfgAllowed |-> [global |-> [clean |-> {"cur"}, smudge |-> {"cur"}, process |-> {"cur"}, required |-> {"cur"}], local |-> [clean |-> {"unset"}, smudge |-> {"unset"}, process |-> {"unset"}, required |-> {"unset"}], worktree |-> [clean |-> {"unset"}, smudge |-> {"unset"}, process |-> {"unset"}, required |-> {"unset"}]], hookAllowed |-> ("pre-push" :> {"current"} @@ "post-checkout" :> {"current"}), a |-> "install", conflict |-> FALSE]>>,hook |-> ("pre-push" :> "current" @@ "post-checkout" :> "current"),cfg |-> [global |-> [clean |-> "cur", smudge |-> "cur", process |-> "cur", required |-> "cur"], local |-> [clean |-> "unset", smudge |-> "unset", process |-> "unset", required |-> "unset"], worktree |-> [clean |-> "unset", smudge |-> "unset", process |-> "unset", required |-> "unset"]],nops |-> 1,start |-> [hook |-> ("pre-push" :> "old" @@ "post-checkout" :> "absent"), cfg |-> [global |-> [clean |-> "unset", smudge |-> "old", process |-> "unset", required |-> "unset"], local |-> [clean |-> "unset", smudge |-> "unset", process |-> "unset", required |-> "unset"], worktree |-> [clean |-> "unset", smudge |-> "unset", process |-> "unset", required |-> "unset"]]]])
    >>
----


=============================================================================

---- CONFIG Install_TTrace_1790886213 ----
CONSTANTS
    Hooks = { "pre-push" , "post-checkout" }
    Keys = { "clean" , "smudge" , "process" , "required" }
    Scopes = { "global" , "local" , "worktree" }
    MaxOps = 2
    MaxVaried = 2
    Emit = TRUE

INVARIANT
    _inv

CHECK_DEADLOCK
    \* CHECK_DEADLOCK off because of PROPERTY or INVARIANT above.
    FALSE

INIT
    _init

NEXT
    _next

CONSTANT
    _TETrace <- _trace

ALIAS
    _expression
=============================================================================
\* Generated on Thu Oct 01 20:30:19 UTC 2026