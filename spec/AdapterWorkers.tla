--------------------------- MODULE AdapterWorkers ---------------------------
(***************************************************************************)
(* C06 ("waiting for the queue returns") for the worker pool every         *)
(* transfer adapter is built on (tq/adapterbase.go: Begin, Add, worker,    *)
(* End), transcribed step by step.                                         *)
(*                                                                         *)
(* N workers read jobs from one channel.  Worker 0 starts at once; the     *)
(* others wait at a gate (authWait) until worker 0 has seen a first good   *)
(* response, so that at most one credential prompt appears.  Worker 0      *)
(* hands the transfer implementation a callback that opens the gate; the   *)
(* implementation calls it when (and only when) the server accepted the    *)
(* request.  A job that fails before that never calls it.  When the        *)
(* channel is closed and worker 0 has not opened the gate yet, it opens it *)
(* on its way out.  End() closes the channel once every job has reported   *)
(* and returns when every worker has ended.                                *)
(*                                                                         *)
(*   jobs       outcomes of the jobs still in the channel, in order:       *)
(*              "ok" (the callback, if handed out, is called) | "fail"     *)
(*   signal     worker 0's signalAuthOnResponse                            *)
(*   gate       authWait released                                          *)
(*   hasCb[w]   the job worker w is busy with carries the callback         *)
(* HandOutClears = TRUE is the variant that clears the flag when the       *)
(* callback is handed out instead of when it runs; it must violate         *)
(* Terminates.                                                             *)
(***************************************************************************)
EXTENDS Integers, Sequences, FiniteSets, TLC, Json, CSV, IOUtils

CONSTANTS N, MaxJobs, HandOutClears, Emit

Workers == 0..(N - 1)
VARIABLES jobs0, jobs, pc, busy, hasCb, signal, gate, reported, closed
vars == <<jobs0, jobs, pc, busy, hasCb, signal, gate, reported, closed>>

Init == /\ jobs0 \in UNION {[1..n -> {"ok", "fail"}] : n \in 0..MaxJobs} /\ jobs = jobs0
        /\ pc = [w \in Workers |-> IF w = 0 THEN "loop" ELSE "gate"]
        /\ busy = [w \in Workers |-> "none"] /\ hasCb = [w \in Workers |-> FALSE]
        /\ signal = TRUE /\ gate = FALSE /\ reported = 0 /\ closed = FALSE

PassGate(w) == /\ pc[w] = "gate" /\ gate /\ pc' = [pc EXCEPT ![w] = "loop"]
               /\ UNCHANGED <<jobs0, jobs, busy, hasCb, signal, gate, reported, closed>>

Take(w) == /\ pc[w] = "loop" /\ jobs # <<>>
           /\ pc' = [pc EXCEPT ![w] = "transfer"] /\ busy' = [busy EXCEPT ![w] = Head(jobs)] /\ jobs' = Tail(jobs)
           /\ hasCb' = [hasCb EXCEPT ![w] = (w = 0 /\ signal)]
           /\ signal' = IF w = 0 /\ signal /\ HandOutClears THEN FALSE ELSE signal
           /\ UNCHANGED <<jobs0, gate, reported, closed>>

\* DoTransfer: a good response calls the callback (if there is one), then the job reports
Finish(w) == /\ pc[w] = "transfer" /\ pc' = [pc EXCEPT ![w] = "loop"]
             /\ IF busy[w] = "ok" /\ hasCb[w] THEN gate' = TRUE /\ signal' = FALSE ELSE UNCHANGED <<gate, signal>>
             /\ reported' = reported + 1 /\ busy' = [busy EXCEPT ![w] = "none"] /\ hasCb' = [hasCb EXCEPT ![w] = FALSE]
             /\ UNCHANGED <<jobs0, jobs, closed>>

\* End(): jobWait.Wait(); close(jobChan)
Close == /\ ~closed /\ reported = Len(jobs0) /\ closed' = TRUE
         /\ UNCHANGED <<jobs0, jobs, pc, busy, hasCb, signal, gate, reported>>

Exit(w) == /\ pc[w] = "loop" /\ jobs = <<>> /\ closed /\ pc' = [pc EXCEPT ![w] = "ended"]
           /\ gate' = (gate \/ (w = 0 /\ signal))
           /\ UNCHANGED <<jobs0, jobs, busy, hasCb, signal, reported, closed>>

Next == Close \/ \E w \in Workers : PassGate(w) \/ Take(w) \/ Finish(w) \/ Exit(w)
Spec == Init /\ [][Next]_vars /\ WF_vars(Next)

\* ---- C06 ---------------------------------------------------------------------
AllEnded   == \A w \in Workers : pc[w] = "ended"
Terminates == <>AllEnded                                  \* End() returns
EveryJobReportsOnce == reported <= Len(jobs0) /\ (AllEnded => reported = Len(jobs0))
OnlyWorker0BeforeGate == \A w \in Workers : (w # 0 /\ ~gate) => pc[w] = "gate"

Out == [workers |-> N, jobs |-> jobs0]
EmitInit == (Emit /\ jobs = jobs0 /\ reported = 0 /\ \A w \in Workers : pc[w] \in {"loop", "gate"} /\ busy[w] = "none" /\ ~closed /\ ~gate)
               => CSVWrite("%1$s", <<ToJson(Out)>>, IOEnv.OUT)
=============================================================================
