CONSTANTS
 Keys <- KeysAll
 Neighbours <- NeighAll
 Spellings <- SpellAll
 Locations <- LocAll
 MaxBefore = 2
 MaxAfter = 1
 Thin = TRUE
 Stateful = FALSE
 Forms = {"plain", "access-suffix"}
 PrefixMatch = FALSE
 Emit = TRUE
SPECIFICATION Spec
INVARIANT OnlyDocumented
INVARIANT GitWins
INVARIANT Independent
CONSTRAINT EmitState
CHECK_DEADLOCK FALSE
