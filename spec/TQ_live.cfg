CONSTANTS
 Oids = {"a","b"}
 MaxAdds = 2
 BatchSize = 1
 MaxRetries = 1
 Fixed = TRUE
 Emit = FALSE
 RespKinds = {"action","noaction","error","expired","omit","twice","unknown"}
 AdKinds = {"ok","retriable","later","fatal"}
 BatchKinds = {"ok","retriable","later","hard","missing"}
SPECIFICATION Spec
VIEW View
PROPERTY Live
PROPERTY AddReturns
CHECK_DEADLOCK FALSE
