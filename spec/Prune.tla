-------------------------------- MODULE Prune --------------------------------
(***************************************************************************)
(* C05: `git lfs prune` over the abstract repository.                      *)
(*                                                                         *)
(* MustRetain is transcribed from git-lfs-prune(1): the current checkout   *)
(* of every worktree (wt: the branch a linked worktree has checked out;    *)
(* prune may be run from inside either), the index, every stash, recent    *)
(* refs inside the retention window                                        *)
(* (lfs.fetchrecentrefsdays + lfs.pruneoffsetdays, remote-tracking refs    *)
(* included), and every commit not yet pushed to the prune remote.         *)
(* Prune may delete ANY subset of local \ MustRetain (the acceptor is      *)
(* nondeterministic there); the verdict assertion is Deleted \cap          *)
(* MustRetain = {} (+ dry-run deletes nothing, + with --verify-remote      *)
(* nothing reachable that the server lacks).                               *)
(***************************************************************************)
EXTENDS Push

CONSTANTS RecentDays,    \* fetchrecentrefsdays + pruneoffsetdays (default 7 + 3)
          CommitWindows, \* values of fetchrecentcommitsdays + pruneoffsetdays a prune may run under (0: commitsdays at its default 0)
          PruneFlags,    \* subset of {"none","dry-run","recent","force","verify-remote"}
          EmitSel,       \* generation only: rotates which flag is emitted for states where nothing is prunable
          Thin           \* generation only: TRUE applies that thinning, FALSE emits every prune edge

VARIABLES staged,   \* path -> blob staged but not committed ("same" = index equals HEAD)
          stagedIn, \* the worktree whose index holds the staged changes ("main" | "linked")
          stashed,  \* oids referenced by stash commits
          pruned,   \* oids deleted by prune (observation); a behaviour ends with its prune
          wt,       \* branch checked out in the linked worktree, "none" when there is none
          rt2       \* branch -> commit of refs/remotes/other/<branch>: remote-tracking refs of a second remote
                    \* (not the one prune verifies against); at most one of them is set
VARIABLE done
pvars == <<rvars, staged, stagedIn, stashed, pruned, wt, rt2, done, steps, hist>>
PView == <<rvars, staged, stagedIn, stashed, wt, rt2, done>>

Clean == \A p \in Paths : staged[p] = "same"
PInit == RepoInit /\ staged = [p \in Paths |-> "same"] /\ stagedIn = "main" /\ stashed = {} /\ pruned = {} /\ wt = "none" /\ rt2 = [b \in Branches |-> NoCommit] /\ done = FALSE

TreeOids(c) == IF c = NoCommit THEN {} ELSE {commits[c].tree[p] : p \in Paths} \cap Oids
WtOids      == IF wt = "none" THEN {} ELSE TreeOids(br[wt])
AllRefs     == {br[b] : b \in Branches} \cup {rt[b] : b \in Branches} \cup {rt2[b] : b \in Branches}
Reachable   == PtrOids(ReachSet(AllRefs, commits), commits)
\* "Unpushed LFS files" (git-lfs-prune(1)): referenced by a commit a local branch is ahead by,
\* and by no commit the prune remote already has (those were uploaded by the pre-push hook,
\* so the local copy is not the only one).  This is the conservative reading of
\* "referenced by a commit not yet pushed": an object that an unpushed commit merely carries
\* along unchanged from pushed history is not in the must-set.
PushedCommits == ReachSet({rt[b] : b \in Branches}, commits)
Unpushed    == PtrOids(ReachSet({br[b] : b \in Branches}, commits) \ PushedCommits, commits) \ PtrOids(PushedCommits, commits)
RecentTips  == {c \in AllRefs \ {NoCommit} : commits[c].age <= RecentDays}
RecentOids  == UNION {TreeOids(c) : c \in RecentTips}
StagedOids  == {staged[p] : p \in Paths} \cap Oids

\* "Recent commits" (git-lfs-prune(1), lfs.fetchrecentcommitsdays > 0): for the current checkout and for
\* every recent ref, the versions *replaced* by commits made less than w days (commitsdays +
\* pruneoffsetdays) before the ref's own commit date stay.  Claimed for a commit only where the
\* whole chain from the ref down to it lies inside the window (nothing depends on how Git's walk
\* treats dates that do not follow ancestry) and for commits with at most one parent (git log -p
\* shows no diff for a merge).  w = 0: the setting is at its default and nothing is claimed.
InWindow(c, y, w) == commits[y].age - commits[c].age < w
WindowOf(c, w) ==
  LET RECURSIVE F(_)
      F(S) == LET n == S \cup {y \in UNION {commits[x].par : x \in S} : InWindow(c, y, w)} IN IF n = S THEN S ELSE F(n)
  IN F({c})
Replaced(x) == IF Cardinality(commits[x].par) > 1 THEN {}
               ELSE LET old == IF commits[x].par = {} THEN EmptyTree ELSE commits[CHOOSE y \in commits[x].par : TRUE].tree
                    IN {old[p] : p \in {q \in Paths : old[q] # commits[x].tree[q]}} \cap Oids
PrevVersions(f, w) == IF w = 0 \/ f \in {"recent", "force"} THEN {}
                      ELSE UNION {Replaced(x) : x \in UNION {WindowOf(c, w) : c \in {br[head]} \cup RecentTips}}

\* some local object is kept by a commit that lies one day inside its window: the boundary case
\* (steers replay; never an argument of a verdict)
NearEdge(f, w) == /\ w > 0 /\ f \notin {"recent", "force"}
                  /\ \E c \in {br[head]} \cup RecentTips : \E x \in WindowOf(c, w) :
                        commits[x].age - commits[c].age = w - 1 /\ Replaced(x) \cap LocalPresent # {}

MustRetain(f, w) == Unpushed \cup stashed \cup StagedOids
                    \cup (IF f = "force" THEN {} ELSE TreeOids(br[head]) \cup WtOids)
                    \cup (IF f \in {"recent", "force"} THEN {} ELSE RecentOids)
                    \cup PrevVersions(f, w)

\* the reasons one by one (MustRetain is their union), and which of them is, for some local object, the
\* only reason it is retained: a prune in such a state tests that rule in isolation (used to steer replay)
RecentOf(S) == UNION {TreeOids(c) : c \in {x \in S \ {NoCommit} : commits[x].age <= RecentDays}}
Reason(name, f, w) ==
  CASE name = "unpushed" -> Unpushed
    [] name = "stash"    -> stashed
    [] name = "index"    -> StagedOids
    [] name = "head"     -> IF f = "force" THEN {} ELSE TreeOids(br[head])
    [] name = "worktree" -> IF f = "force" THEN {} ELSE WtOids
    [] name = "recent-local"  -> IF f \in {"recent", "force"} THEN {} ELSE RecentOf({br[b] : b \in Branches})
    [] name = "recent-remote" -> IF f \in {"recent", "force"} THEN {} ELSE RecentOf({rt[b] : b \in Branches})
    [] name = "recent-other-remote" -> IF f \in {"recent", "force"} THEN {} ELSE RecentOf({rt2[b] : b \in Branches})
    [] name = "recent-commits" -> PrevVersions(f, w)
Reasons == {"unpushed", "stash", "index", "head", "worktree", "recent-local", "recent-remote", "recent-other-remote", "recent-commits"}
SoleReasons(f, w) == {n \in Reasons : \E o \in Reason(n, f, w) \cap LocalPresent : \A m \in Reasons \ {n} : o \notin Reason(m, f, w)}

\* ---- dirty state (only on top of a finished history) -----------------------
Stage(p, o, where) ==    \* git add in the main or in the linked worktree; the index of every worktree counts
  /\ (where = "linked" => wt # "none") /\ (~Clean => where = stagedIn)
  /\ LET tip == IF where = "linked" THEN br[wt] ELSE br[head] IN
     /\ tip # NoCommit /\ staged[p] = "same" /\ TreeOf(tip)[p] # o
  /\ staged' = [staged EXCEPT ![p] = o] /\ stagedIn' = where
  /\ local' = IF local[o] = "absent" THEN [local EXCEPT ![o] = "valid"] ELSE local
  /\ UNCHANGED <<commits, br, rr, rt, head, server, everRemote, stashed, pruned, wt, rt2>>
  /\ Log([a |-> "stage", p |-> p, oid |-> o, where |-> where])

\* git stash in three shapes: a stash is a merge commit whose own diff shows the work-tree change, whose
\* second parent holds the index and whose third parent (stash -u) holds the untracked files
\*   "worktree"   edit p to content o; git stash
\*   "index"      edit p to content o; git add; delete the working file; git stash   (o only in the index commit)
\*   "untracked"  a new file p with content o; git stash -u                          (o only in the untracked commit)
StashKinds == {"worktree", "index", "untracked"}
Stash(p, o, kind) ==
  /\ kind \in StashKinds /\ br[head] # NoCommit /\ Clean /\ TreeOf(br[head])[p] # o
  /\ (kind = "untracked") = (TreeOf(br[head])[p] = "none")
  /\ stashed' = stashed \cup {o}
  /\ local' = IF local[o] = "absent" THEN [local EXCEPT ![o] = "valid"] ELSE local
  /\ UNCHANGED <<commits, br, rr, rt, head, server, everRemote, staged, stagedIn, pruned, wt, rt2>>
  /\ Log([a |-> "stash", p |-> p, oid |-> o, kind |-> kind])

AddWorktree(b) ==        \* git worktree add ../linked b  (a branch can be checked out only once)
  /\ wt = "none" /\ br[b] # NoCommit /\ b # head /\ wt' = b
  /\ UNCHANGED <<commits, br, rr, rt, head, local, server, everRemote, staged, stagedIn, stashed, pruned, rt2>>
  /\ Log([a |-> "worktree", b |-> b])

\* a fetch from a second remote left refs/remotes/other/b at b's present commit
OtherRemoteRef(b) ==
  /\ br[b] # NoCommit /\ \A x \in Branches : rt2[x] = NoCommit
  /\ rt2' = [rt2 EXCEPT ![b] = br[b]]
  /\ UNCHANGED <<commits, br, rr, rt, head, local, server, everRemote, staged, stagedIn, stashed, pruned, wt>>
  /\ Log([a |-> "otherremote", b |-> b])

\* git branch -D b: the ref goes away; its commits stay in the object database and, where a merge
\* took them in, in the ancestry of another branch (reachable through that merge's second parent only)
DeleteBranch(b) ==
  /\ b # "main" /\ b # head /\ b # wt /\ br[b] # NoCommit
  /\ br' = [br EXCEPT ![b] = NoCommit]
  /\ UNCHANGED <<commits, rr, rt, head, local, server, everRemote, staged, stagedIn, stashed, pruned, wt, rt2>>
  /\ Log([a |-> "delbranch", b |-> b])

ServerLoses(o) ==
  /\ o \in server /\ server' = server \ {o}
  /\ UNCHANGED <<commits, br, rr, rt, head, local, everRemote, staged, stagedIn, stashed, pruned, wt, rt2>>
  /\ Log([a |-> "serverloses", oid |-> o])

Switch(b) ==             \* git checkout b
  /\ Clean /\ br[b] # NoCommit /\ head # b /\ b # wt /\ head' = b
  /\ UNCHANGED <<commits, br, rr, rt, local, server, everRemote, staged, stagedIn, stashed, pruned, wt, rt2>>
  /\ Log([a |-> "switch", b |-> b])

\* ---- the verdict action ------------------------------------------------------
\* w: the recent-commits window in days the command is configured with (0: default, no window);
\* a parameter of the verdict step, like the flag
Prune(f, from, w) ==     \* from: the worktree the command is run in ("main" | "linked")
  /\ f \in PruneFlags /\ w \in CommitWindows
  \* --recent / --force switch the window off; the linked side adds nothing to it
  /\ (w > 0 => f \notin {"recent", "force"} /\ from = "main")
  /\ br[head] # NoCommit /\ (from = "linked" => wt # "none")
  /\ LET must    == MustRetain(f, w)
         allowed == LocalPresent \ must
         \* with --verify-remote a reachable object the server lacks halts the command
         halts   == f = "verify-remote" /\ (allowed \cap Reachable) \ server # {}
         del     == IF f = "dry-run" \/ halts THEN {} ELSE allowed      \* what the current code does (drift layer)
     IN /\ local' = [o \in Oids |-> IF o \in del THEN "absent" ELSE local[o]]
        /\ pruned' = pruned \cup del /\ done' = TRUE
        /\ Log([a |-> "prune", flags |-> f, from |-> from, window |-> w, nearEdge |-> NearEdge(f, w), sole |-> SoleReasons(f, w), mustRetain |-> must \cap LocalPresent, allowed |-> allowed,
                localBefore |-> LocalPresent, reachable |-> Reachable, serverHas |-> server, expectDeleted |-> del])
  /\ UNCHANGED <<commits, br, rr, rt, head, server, everRemote, staged, stagedIn, stashed, wt, rt2>>

Keep == ~done /\ UNCHANGED done
Hist == Keep /\ Clean /\ UNCHANGED <<staged, stagedIn, stashed, pruned, wt, rt2>>
\* the branch of the linked worktree cannot be checked out (committed to) in the main one
PCommit(b, p, blob, g) == Hist /\ b # wt /\ Commit(b, p, blob, g)
PCommitTree(b, t, g)   == Hist /\ b # wt /\ CommitTree(b, t, g)
PMerge(b, o)           == Hist /\ b # wt /\ Merge(b, o)
PPush(S)               == Hist /\ Push(S, "git-push", {}, FALSE, FALSE)
POtherPush(b)          == Hist /\ OtherPush(b)
PStage(p, o, where)    == Keep /\ Stage(p, o, where)
PStash(p, o, k)        == Keep /\ Stash(p, o, k)
PServerLoses(o)        == Keep /\ ServerLoses(o)
PSwitch(b)             == Keep /\ Switch(b)
PWorktree(b)           == Keep /\ AddWorktree(b)
POtherRemote(b)        == Keep /\ Clean /\ OtherRemoteRef(b)
PPrune(f, from, w)     == ~done /\ Prune(f, from, w)

PNext == \/ \E b \in Branches, p \in Paths, blob \in Blobs, g \in Ages : PCommit(b, p, blob, g)
         \/ \E b \in Branches, t \in [Paths -> Oids], g \in Ages : PCommitTree(b, t, g)
         \/ \E b, o \in Branches : PMerge(b, o)
         \/ \E S \in SUBSET Branches : PPush(S)
         \/ \E b \in Branches : POtherPush(b)
         \/ \E p \in Paths, o \in Oids, where \in {"main", "linked"} : PStage(p, o, where)
         \/ \E p \in Paths, o \in Oids, k \in StashKinds : PStash(p, o, k)
         \/ \E o \in Oids : PServerLoses(o)
         \/ \E b \in Branches : PSwitch(b)
         \/ \E b \in Branches : PWorktree(b)
         \/ \E b \in Branches : POtherRemote(b)
         \/ \E f \in PruneFlags, from \in {"main", "linked"}, w \in CommitWindows : PPrune(f, from, w)
PSpec == PInit /\ [][PNext]_pvars

\* The merge family (its own configurations, longer histories over fewer other dimensions): commits on
\* two branches, merges, deletion of the merged branch, pushes, then a prune from the main worktree.
PDelBranch(b) == Hist /\ DeleteBranch(b)
PNextM == \/ \E b \in Branches, p \in Paths, blob \in Blobs, g \in Ages : PCommit(b, p, blob, g)
          \/ \E b, o \in Branches : PMerge(b, o)
          \/ \E b \in Branches : PDelBranch(b)
          \/ \E S \in SUBSET Branches : PPush(S)
          \/ \E f \in PruneFlags, w \in CommitWindows : PPrune(f, "main", w)
PSpecM == PInit /\ [][PNextM]_pvars

\* C05 on the design: nothing that must be retained is ever pruned; the unpushed are always safe
NeverPrunesNeeded == [][\A f \in PruneFlags, from \in {"main", "linked"}, w \in CommitWindows : Prune(f, from, w) => (pruned' \ pruned) \cap MustRetain(f, w) = {}]_pvars

\* Generation: every prune edge whose state has something prunable is emitted; where nothing
\* is prunable the flags behave alike on the model, so one flag per state is emitted, rotated by
\* a key of the state over the three flags under which a wrong deletion would show (a dry run
\* deletes nothing, and --force with nothing prunable has nothing left to get wrong).
FlagIdx(f) == CASE f = "none" -> 0 [] f = "verify-remote" -> 1 [] f = "recent" -> 2 [] OTHER -> 9
StateKey == Len(commits) + Cardinality(LocalPresent) + Cardinality(server) + Cardinality(stashed)
            + Cardinality({p \in Paths : staged[p] # "same"}) + (IF head = "main" THEN 0 ELSE 1) + (IF wt = "none" THEN 0 ELSE 2) + Cardinality({b \in Branches : rt2[b] # NoCommit}) + EmitSel
EmitPrune == LET e == hist'[Len(hist')] IN
             (Emit /\ e.a = "prune" /\ LocalPresent # {} /\ (e.allowed # {} \/ ~Thin \/ FlagIdx(e.flags) = StateKey % 3)) =>
                CSVWrite("%1$s", <<ToJson(hist')>>, IOEnv.OUT)
=============================================================================
