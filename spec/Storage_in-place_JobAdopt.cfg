CONSTANTS
 Oids = {"a","b","c","d"}
 Bursts = 2
 Variant = "in-place"
 Job <- JobAdopt
SPECIFICATION Spec
INVARIANT ObjectsSound
INVARIANT LeftoversConfined
INVARIANT RerunConverges
PROPERTY Terminates
CHECK_DEADLOCK FALSE
