-------------------------------- MODULE Fsck --------------------------------
(***************************************************************************)
(* C13: `git lfs fsck` over the abstract repository.                        *)
(*                                                                         *)
(* Objects in scope are the pointers in the tree of the checked commit (and *)
(* the index when no revision is given), or what a revision range          *)
(* introduced; pointers in scope are the tracked paths of that tree.  Damage is an environment action on *)
(* the local store (deleted, same-size corruption, truncated, extended,    *)
(* replaced by another object's bytes).  NonCanon \subseteq Oids are       *)
(* objects whose pointer is committed in a parseable but non-canonical     *)
(* spelling; "raw" is ordinary content committed at a tracked path.        *)
(* excl is the set of paths lfs.fetchexclude names: git-lfs-fsck(1) says   *)
(* files at such paths "will not be checked for consistency"; an object    *)
(* that also belongs to a file at another path is checked for that file.   *)
(***************************************************************************)
EXTENDS Repo

CONSTANTS NonCanon, FsckFlags, Damages,
          Missized,     \* objects whose committed pointer is canonical in form but names a size other than the object's length:
                        \* nothing below depends on it - an object is sound when its bytes hash to its id
          Includes,     \* the sets of paths lfs.fetchinclude may name (chosen by the fsck step)
          Excludes      \* the sets of paths lfs.fetchexclude may name (fixed per behaviour)

VARIABLES bad,      \* oids moved aside to lfs/bad
          fstaged,  \* path -> object staged but not committed ("same": index equals HEAD)
          fdone,
          excl      \* paths named by lfs.fetchexclude
fvars == <<rvars, bad, fstaged, fdone, excl, steps, hist>>
FView == <<rvars, bad, fstaged, fdone, excl>>

FInit == RepoInit /\ bad = {} /\ fstaged = [p \in Paths |-> "same"] /\ fdone = FALSE /\ excl \in Excludes

Keep == ~fdone /\ UNCHANGED <<bad, fdone, excl>>
FClean == \A p \in Paths : fstaged[p] = "same"
FCommit(b, p, blob, g) == Keep /\ FClean /\ UNCHANGED fstaged /\ (blob \in Oids => local[blob] \in {"absent", "valid"}) /\ Commit(b, p, blob, g)
FMerge(b, o)           == Keep /\ FClean /\ UNCHANGED fstaged /\ Merge(b, o)
\* git add of a new version of p (object o) without committing it
FStage(p, o) ==
  /\ Keep /\ FClean /\ br[head] # NoCommit /\ TreeOf(br[head])[p] # o /\ local[o] \in {"absent", "valid"} /\ o \notin NonCanon \cup Missized
  /\ fstaged' = [fstaged EXCEPT ![p] = o]
  /\ local' = [local EXCEPT ![o] = "valid"]
  /\ UNCHANGED <<commits, br, rr, rt, head, server, everRemote>>
  /\ Log([a |-> "stage", p |-> p, oid |-> o])
FDamage(o, how) ==
  /\ Keep /\ UNCHANGED fstaged /\ local[o] = "valid" /\ how \in Damages
  /\ local' = [local EXCEPT ![o] = IF how = "absent" THEN "absent" ELSE "corrupt"]
  /\ UNCHANGED <<commits, br, rr, rt, head, server, everRemote>>
  /\ Log([a |-> "damage", oid |-> o, how |-> how])

HeadCommit == br[head]
\* git-lfs-fsck(1): "Checks all Git LFS files in the current HEAD" - the tree of the checked commit
\* (plus the index, which equals it here), not its history; a range checks what the range introduced
OnlyPar(c) == CHOOSE q \in commits[c].par : TRUE
\* the commit the range excludes: HEAD^ for "tip", HEAD~2 for "tip2" (first-parent chain without merges)
Excluded(scope) == IF scope = "tip" THEN OnlyPar(HeadCommit) ELSE OnlyPar(OnlyPar(HeadCommit))
HasChain(scope) == /\ HeadCommit # NoCommit /\ Cardinality(commits[HeadCommit].par) = 1
                   /\ (scope = "tip2" => Cardinality(commits[OnlyPar(HeadCommit)].par) = 1)
\* objects of the files of HEAD's tree and of the index at the paths P
HeadOidsAt(P) == ({TreeOf(HeadCommit)[p] : p \in P} \cup {fstaged[p] : p \in P}) \cap Oids
InScope(scope) ==
  IF scope = "head" THEN HeadOidsAt(Paths \ excl)       \* HEAD's tree and the index, without the excluded paths
  ELSE \* a range checks what its commits introduced  (fsck <excluded>..HEAD); the index is not looked at
       LET c == HeadCommit
           x == Excluded(scope) IN
          PtrOids(Anc(c, commits) \ Anc(x, commits), commits) \ PtrOids(Anc(x, commits), commits)
\* For a range Git lists the objects of the range's commits that the excluded side does not have; how
\* much of the excluded side's history it looks at is Git's business (only the boundary commit's tree
\* is certain).  So objects of the range's commits that also occur further back in the excluded history
\* MAY be in scope: damage to them may or may not be reported (and repaired).
MayScope(scope) == IF scope = "head" THEN HeadOidsAt(Paths)    \* whether a file at an excluded path is looked at all the same is left open
                   ELSE PtrOids(Anc(HeadCommit, commits) \ Anc(Excluded(scope), commits), commits) \ PtrOids({Excluded(scope)}, commits)
BadObjects(scope)  == {o \in InScope(scope) : local[o] # "valid"}
MayBadObjects(scope) == {o \in MayScope(scope) : local[o] # "valid"} \ BadObjects(scope)
BadPointersAt(P) == {p \in P : TreeOf(HeadCommit)[p] = "raw" \/ TreeOf(HeadCommit)[p] \in NonCanon}
BadPointers == BadPointersAt(Paths \ excl)

\* incl: the paths lfs.fetchinclude names (empty: not set).  git-lfs-fsck(1) leaves out what
\* lfs.fetchexclude names and nothing else: the verdict has no use for incl.
Fsck(flag, scope, incl) ==
  \* (one of the two settings at a time is enough)
  /\ ~fdone /\ incl \in Includes /\ (incl # {} => excl = {}) /\ HeadCommit # NoCommit /\ flag \in FsckFlags /\ scope \in {"head", "tip", "tip2"}
  /\ (scope # "head" => HasChain(scope) /\ flag = "objects" /\ excl = {})
  /\ LET chkObj == flag \in {"none", "objects", "dry-run"}
         chkPtr == flag \in {"none", "pointers", "dry-run"}
         bo == IF chkObj THEN BadObjects(scope) ELSE {}
         bp == IF chkPtr THEN BadPointers ELSE {}
         mbp == IF chkPtr THEN BadPointersAt(excl) ELSE {}
         mb == IF chkObj THEN MayBadObjects(scope) ELSE {}
         moved == IF flag = "dry-run" THEN {} ELSE {o \in bo : local[o] = "corrupt"}
         mayMove == IF flag = "dry-run" THEN {} ELSE {o \in mb : local[o] = "corrupt"}
     IN /\ local' = [o \in Oids |-> IF o \in moved THEN "absent" ELSE local[o]]
        /\ bad' = bad \cup moved
        /\ fdone' = TRUE /\ excl' = excl
        /\ Log([a |-> "fsck", flag |-> flag, scope |-> scope, excl |-> excl, incl |-> incl, mayBadPointers |-> mbp,
                \* shared: checked for one file although another file of theirs is excluded; sharedTree: both files in HEAD's tree
                shared |-> (IF scope = "head" THEN HeadOidsAt(Paths \ excl) \cap HeadOidsAt(excl) ELSE {}),
                sharedTree |-> (IF scope = "head" THEN {TreeOf(HeadCommit)[p] : p \in Paths \ excl} \cap {TreeOf(HeadCommit)[p] : p \in excl} \cap Oids ELSE {}),
                ok |-> (bo = {} /\ bp = {}),
                badObjects |-> bo, missing |-> {o \in bo : local[o] = "absent"}, corrupt |-> {o \in bo : local[o] = "corrupt"},
                badPointers |-> bp, moved |-> moved, intact |-> LocalValid, mayReport |-> mb, mayMove |-> mayMove])
  /\ UNCHANGED <<commits, br, rr, rt, head, server, everRemote, fstaged>>

FNext == \/ \E b \in Branches, p \in Paths, blob \in Blobs, g \in Ages : FCommit(b, p, blob, g)
         \/ \E b, o \in Branches : FMerge(b, o)
         \/ \E o \in Oids, h \in Damages : FDamage(o, h)
         \/ \E p \in Paths, o \in Oids : FStage(p, o)
         \/ \E f \in FsckFlags, s \in {"head", "tip", "tip2"}, i \in Includes : Fsck(f, s, i)
FSpec == FInit /\ [][FNext]_fvars

\* C13 on the design
IntactUntouched == [][\A o \in Oids : local[o] = "valid" => local'[o] = "valid" \/ (\E h \in Damages : hist'[Len(hist')].a = "damage")]_fvars
MovedNotDeleted == [][\A o \in Oids : (local[o] = "corrupt" /\ local'[o] = "absent") => o \in bad']_fvars

EmitFsck == (Emit /\ hist'[Len(hist')].a = "fsck") => CSVWrite("%1$s", <<ToJson(hist')>>, IOEnv.OUT)
=============================================================================
