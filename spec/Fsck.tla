-------------------------------- MODULE Fsck --------------------------------
(***************************************************************************)
(* C13: `git lfs fsck` over the abstract repository.                        *)
(*                                                                         *)
(* Objects in scope are the pointers in the tree of the checked commit (and *)
(* the index when no revision is given), or what a revision range          *)
(* introduced; pointers in scope are the tracked paths of that tree.  Damage is an environment action on *)
(* the local store (deleted, same-size corruption, truncated, extended,    *)
(* replaced by another object's bytes).  NonCanon \subseteq Oids are       *)
(* objects whose pointer is committed in a parseable but non-canonical     *)
(* spelling; "raw" is ordinary content committed at a tracked path.        *)
(***************************************************************************)
EXTENDS Repo

CONSTANTS NonCanon, FsckFlags, Damages

VARIABLES bad,      \* oids moved aside to lfs/bad
          fdone
fvars == <<rvars, bad, fdone, steps, hist>>
FView == <<rvars, bad, fdone>>

FInit == RepoInit /\ bad = {} /\ fdone = FALSE

Keep == ~fdone /\ UNCHANGED <<bad, fdone>>
FCommit(b, p, blob, g) == Keep /\ (blob \in Oids => local[blob] \in {"absent", "valid"}) /\ Commit(b, p, blob, g)
FMerge(b, o)           == Keep /\ Merge(b, o)
FDamage(o, how) ==
  /\ Keep /\ local[o] = "valid" /\ how \in Damages
  /\ local' = [local EXCEPT ![o] = IF how = "absent" THEN "absent" ELSE "corrupt"]
  /\ UNCHANGED <<commits, br, rr, rt, head, server, everRemote>>
  /\ Log([a |-> "damage", oid |-> o, how |-> how])

HeadCommit == br[head]
\* git-lfs-fsck(1): "Checks all Git LFS files in the current HEAD" - the tree of the checked commit
\* (plus the index, which equals it here), not its history; a range checks what the range introduced
InScope(scope) ==
  IF scope = "head" THEN PtrOids({HeadCommit}, commits)
  ELSE \* "tip": only what the last commit introduced  (fsck <parent>..<head>)
       LET c == HeadCommit IN
       IF c = NoCommit THEN {} ELSE
          PtrOids(Anc(c, commits) \ UNION {Anc(q, commits) : q \in commits[c].par}, commits)
           \ PtrOids(UNION {Anc(q, commits) : q \in commits[c].par}, commits)
BadObjects(scope)  == {o \in InScope(scope) : local[o] # "valid"}
BadPointers == {p \in Paths : TreeOf(HeadCommit)[p] = "raw" \/ TreeOf(HeadCommit)[p] \in NonCanon}

Fsck(flag, scope) ==
  /\ ~fdone /\ HeadCommit # NoCommit /\ flag \in FsckFlags /\ scope \in {"head", "tip"}
  /\ (scope = "tip" => Cardinality(commits[HeadCommit].par) = 1 /\ flag = "objects")
  /\ LET chkObj == flag \in {"none", "objects", "dry-run"}
         chkPtr == flag \in {"none", "pointers", "dry-run"}
         bo == IF chkObj THEN BadObjects(scope) ELSE {}
         bp == IF chkPtr THEN BadPointers ELSE {}
         moved == IF flag = "dry-run" THEN {} ELSE {o \in bo : local[o] = "corrupt"}
     IN /\ local' = [o \in Oids |-> IF o \in moved THEN "absent" ELSE local[o]]
        /\ bad' = bad \cup moved
        /\ fdone' = TRUE
        /\ Log([a |-> "fsck", flag |-> flag, scope |-> scope, ok |-> (bo = {} /\ bp = {}),
                badObjects |-> bo, missing |-> {o \in bo : local[o] = "absent"}, corrupt |-> {o \in bo : local[o] = "corrupt"},
                badPointers |-> bp, moved |-> moved, intact |-> LocalValid])
  /\ UNCHANGED <<commits, br, rr, rt, head, server, everRemote>>

FNext == \/ \E b \in Branches, p \in Paths, blob \in Blobs, g \in Ages : FCommit(b, p, blob, g)
         \/ \E b, o \in Branches : FMerge(b, o)
         \/ \E o \in Oids, h \in Damages : FDamage(o, h)
         \/ \E f \in FsckFlags, s \in {"head", "tip"} : Fsck(f, s)
FSpec == FInit /\ [][FNext]_fvars

\* C13 on the design
IntactUntouched == [][\A o \in Oids : local[o] = "valid" => local'[o] = "valid" \/ (\E h \in Damages : hist'[Len(hist')].a = "damage")]_fvars
MovedNotDeleted == [][\A o \in Oids : (local[o] = "corrupt" /\ local'[o] = "absent") => o \in bad']_fvars

EmitFsck == (Emit /\ hist'[Len(hist')].a = "fsck") => CSVWrite("%1$s", <<ToJson(hist')>>, IOEnv.OUT)
=============================================================================
