CONSTANTS
 N = 4
 MaxJobs = 6
 HandOutClears = FALSE
 Emit = TRUE
SPECIFICATION Spec
PROPERTY Terminates
INVARIANT EveryJobReportsOnce
INVARIANT OnlyWorker0BeforeGate
CONSTRAINT EmitInit
CHECK_DEADLOCK FALSE
