CONSTANTS
 Oids = {"o1","o2","n1","z1"}
 Missized = {"z1"}
 NonCanon = {"n1"}
 Paths = {"p1","p2"}
 Branches = {"main","dev"}
 Ages = {0}
 MaxCommits = 4
 MaxSteps = 7
 Emit = FALSE
 Skew = FALSE
 FsckFlags = {"none","objects","pointers","dry-run"}
 Excludes = {{}, {"p1"}}
 Includes = {{}, {"p2"}}
 Damages = {"absent","corrupt","truncated","extended","replaced"}
SPECIFICATION FSpec
VIEW FView
PROPERTY IntactUntouched
PROPERTY MovedNotDeleted
ACTION_CONSTRAINT EmitFsck
CHECK_DEADLOCK FALSE
